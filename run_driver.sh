#!/bin/bash
# usage: run_driver.sh <repo> <outdir> <tag> <target-dir> [cargo args...]
set -e
REPO=$1; OUT=$2; TAG=$3; TGT=$4; shift 4
mkdir -p "$OUT" "$TGT"
rm -rf "$TGT"/debug/.fingerprint/yrs-* "$TGT"/debug/.fingerprint/yffi-* 2>/dev/null || true
cd "$REPO"
export CARGO_NET_OFFLINE=true
LD_LIBRARY_PATH=$(rustc +nightly --print sysroot)/lib \
RUSTFLAGS="-Zmir-opt-level=0 -Zalways-encode-mir -Awarnings" \
RUSTC_WORKSPACE_WRAPPER=/verif/ylint/target/release/ylint \
CARGO_TARGET_DIR="$TGT" YLINT_OUT="$OUT" YLINT_TAG="$TAG" \
cargo +nightly check --offline "$@"
