"""C03 — sequential data-structure behaviour: offset-unit discipline, squash preconditions, id length unit."""
from ylib import facts as F
from ylib.formula import Formulas, truth_check, fshow, atoms_of
from .common import *  # noqa

SPLIT = "yrs::block_store::BlockStore::split_block"
BLOCK_OFFSET = "yrs::block::SplittableString::block_offset"

# split sites that pass the configured offset kind together with a block_offset() result (a unit
# mismatch in principle). Reason for acceptance: reached only for children of Array / XmlFragment /
# XmlElement branches, which never hold ItemContent::String (text goes through types/text.rs).
STORE_KIND_SPLITTERS = {
    "yrs::branch::Branch::index_to_ptr": "array/XML child lists never contain String content",
    "yrs::branch::Branch::remove_at": "array/XML child lists never contain String content",
}


def is_const_utf16(t):
    t = simp(t)
    return t[0] == "const" and (str(t[1]).endswith("Utf16") or t[1] == 0 or "Utf16" in str(t[2] or "")) or \
        (t[0] == "agg" and t[1].endswith("OffsetKind::Utf16"))


def not_string_guard(l):
    t = simp(l.term)
    if t[0] == "field" and t[1].endswith("Item.content"):
        p = l.polarity
        if isinstance(p, str):
            return p != "String"
        if isinstance(p, tuple) and p[0] == "not":
            return "String" in p[1]
    return False


def rule_a(R, ctx):
    Y = ctx.yrs
    R.rule("C03.a", "R-PROV offset-unit discipline: at every BlockStore::split_block site that passes the constant OffsetKind::Utf16, "
                    "each definition of the offset argument is either SplittableString::block_offset(user index, store.offset_kind) "
                    "or is reached only when the item's content is not a String; sites passing the store's kind are a frozen list")
    sites = callers_of(Y, SPLIT)
    n = 0
    for root, css in sorted(sites.items()):
        for cs, site in ordinal_sites(css):
            fn = cs.fn
            v = FnView(fn)
            n += 1
            kind = v.arg(cs, 3)
            if not is_const_utf16(kind):
                if root in STORE_KIND_SPLITTERS or root == "yrs::block_store::BlockStore::split_block_inner":
                    R.inventory("C03.a", fn, site, "passes the configured offset kind to split_block: accepted (%s)" %
                                STORE_KIND_SPLITTERS.get(root, "forwarding wrapper"), cs.loc())
                    continue
                # forwarding wrappers (kind is a parameter passed through) are fine
                k = simp(kind)
                if k[0] == "param":
                    R.ob("C03.a", fn, site, True, "forwards its own kind parameter", cs.loc(), nontrivial=False)
                    continue
                R.ob("C03.a", fn, site, False,
                     "split_block called with a non-constant offset kind (%s) outside the accepted list" % sshow(kind), cs.loc())
                continue
            # constant Utf16: follow the definitions of the offset operand
            op = cs.args[2]
            l = op.get("c", op.get("m"))
            bad = []
            oks = []
            if isinstance(l, int):
                work = [l]
                seen = set()
                while work:
                    x = work.pop()
                    if x in seen:
                        continue
                    seen.add(x)
                    ds = fn.defs().get(x, [])
                    if not ds:
                        # a parameter or captured value: the caller is responsible (wrapper)
                        if 1 <= x <= fn.argc():
                            oks.append("parameter %s (wrapper)" % fn.local_name(x))
                        continue
                    for d in ds:
                        if d[0] == "call":
                            c = d[2]
                            if c.is_(BLOCK_OFFSET):
                                kt = simp_deep(v.arg(c, 2))
                                if field_path(kt)[-1:] == ["offset_kind"] or term_has_field(kt, "offset_kind"):
                                    oks.append("block_offset(_, %s)" % show(kt))
                                else:
                                    bad.append("block_offset with kind %s (not the store's offset kind)" % show(kt))
                            else:
                                bad.append("offset from call %s" % c.name)
                        else:
                            rv = d[3]["rv"]
                            src = rv.get("use", {})
                            sl = src.get("c", src.get("m")) if isinstance(src, dict) else None
                            # plain copy of a user-unit count: allowed only where content is not a String
                            if v.has_guard(d[1], not_string_guard) or v.has_guard(cs.bb, not_string_guard):
                                oks.append("non-String path: %s" % sshow(v.terms.rvalue(rv, 6)))
                            elif isinstance(sl, int) and 1 <= sl <= fn.argc() and not fn.defs().get(sl):
                                oks.append("parameter %s (forwarding wrapper)" % fn.local_name(sl))
                            elif isinstance(sl, int) and "use" in rv and fn.defs().get(sl):
                                work.append(sl)  # pass-through copy: judge the definitions of the source
                            else:
                                bad.append("offset %s used on a path where the content may be a String (no block_offset conversion)"
                                           % sshow(v.terms.rvalue(rv, 6)))
            else:
                bad.append("offset operand is not a local")
            R.ob("C03.a", fn, site, not bad, "; ".join(bad) if bad else "offset defs: " + "; ".join(oks), cs.loc())
    R.floor("C03.a", "split_block call sites", n, 7)


SQUASH_ATOMS = [
    ("same_client", lambda t: (t[0] == "bin" and t[1] == "Eq" and _fp_pair(t, ["id", "client"])) or
     (t[0] == "call" and t[1].endswith("::eq") and field_path(simp_deep(t[2][0]))[-2:] == ["id", "client"]
      and field_path(simp_deep(t[2][1]))[-2:] == ["id", "client"])),
    ("adjacent_clock", lambda t: t[0] == "bin" and t[1] == "Eq" and term_has_call(t[2], "yrs::block::Item::len") and field_path(simp_deep(t[3]))[-2:] == ["id", "clock"]),
    ("origin_is_last", lambda t: t[0] == "call" and t[1].endswith("::eq") and _mentions_fields(t, "Item.origin") and term_has_call(t, "yrs::block::Item::last_id")),
    ("same_right_origin", lambda t: t[0] == "call" and t[1].endswith("::eq") and _count_field(t, "Item.right_origin") >= 2),
    ("right_is_other", lambda t: t[0] == "call" and t[1].endswith("::eq") and _mentions_fields(t, "Item.right") and not _mentions_fields(t, "Item.right_origin")),
    ("self_deleted", lambda t: t[0] == "call" and callee_match(t[1], "yrs::block::Item::is_deleted") and root_name(t[2][0]) == "self"),
    ("other_deleted", lambda t: t[0] == "call" and callee_match(t[1], "yrs::block::Item::is_deleted") and root_name(t[2][0]) == "other"),
    ("self_not_redone", lambda t: t[0] == "call" and callee_match(t[1], "std::option::Option::is_none") and _mentions_fields(t, "Item.redone") and root_name(t[2][0]) == "self"),
    ("other_not_redone", lambda t: t[0] == "call" and callee_match(t[1], "std::option::Option::is_none") and _mentions_fields(t, "Item.redone") and root_name(t[2][0]) == "other"),
    ("!self_linked", lambda t: t[0] == "call" and callee_match(t[1], "yrs::block::ItemFlags::is_linked") and root_name(t[2][0]) == "self"),
    ("!other_linked", lambda t: t[0] == "call" and callee_match(t[1], "yrs::block::ItemFlags::is_linked") and root_name(t[2][0]) == "other"),
    ("content_squash", lambda t: t[0] == "call" and callee_match(t[1], "yrs::block::ItemContent::try_squash")),
]


def _fp_pair(t, suffix):
    a, b = field_path(simp_deep(t[2])), field_path(simp_deep(t[3]))
    return a[-len(suffix):] == suffix and b[-len(suffix):] == suffix


def _mentions_fields(t, suffix):
    return term_has_field(t, suffix)


def _count_field(t, suffix):
    return len([x for x in walk(t) if x[0] == "field" and x[1].endswith(suffix)])


def classify_squash(key, term):
    if term is None:
        return None
    for name, pred in SQUASH_ATOMS:
        try:
            if pred(term):
                return name
        except Exception:
            pass
    return None


def rule_b(R, ctx, rid="C03.b"):
    Y = ctx.yrs
    R.rule(rid, "R-GUARD squash preconditions: the mutating part of ItemPtr::try_squash is reached only under the conjunction "
                    "{same client; clock+len == other.clock; other.origin == Some(self.last_id()); equal right_origin; "
                    "self.right == Some(other); equal deleted flag; neither redone; neither linked; content.try_squash}")
    fn = Y.fn("yrs::block::ItemPtr::try_squash")
    fm = Formulas(fn, simp_deep)
    ws = fn.field_writes("Item.len") + fn.field_writes("Item.right") + fn.field_writes("Item.left")
    R.floor(rid, "mutations in ItemPtr::try_squash", len(ws), 3)
    names = [n.lstrip("!") for n, _ in SQUASH_ATOMS if not n.endswith("_deleted")]
    for k, (i, j, s) in enumerate(ws):
        f = fm.reach(i)
        ats = atoms_of(f)
        got = {classify_squash(a, t) for a, t in ats.items()}
        missing = [n for n, _ in SQUASH_ATOMS if n not in got]

        def required(e):
            # reaching the mutation implies every conjunct; (anything else is don't-care)
            if all(n in e for n in names) and "self_deleted" in e and "other_deleted" in e:
                return None if (all(e[n] for n in names) and e["self_deleted"] == e["other_deleted"]) else False
            return None

        ok, cex, keys = truth_check(f, classify_squash, required, max_atoms=16)
        dst = s.get("dst")
        fld = [p for p in dst["p"] if isinstance(p, str) and p != "*"][-1].rsplit(".", 1)[-1] if isinstance(dst, dict) else "?"
        R.ob(rid, fn, "write:%s#%d" % (fld, k), ok and not missing,
             ("missing conjuncts %s; " % missing if missing else "") +
             ("reach condition = %s" % fshow(f) if ok else "a path reaches the mutation with a conjunct false: %s" % (cex,)),
             "%s:%s" % (fn.file, s["line"]))
    # the content-level squash is itself conditional on equal content kinds
    cs_fn = Y.fn("yrs::block::ItemContent::try_squash")
    R.touch(cs_fn)


def rule_c(R, ctx):
    Y = ctx.yrs
    R.rule("C03.c", "R-PROV: Item::new and ItemPtr::try_squash compute Item.len as content.len(OffsetKind::Utf16) "
                    "(ids always count UTF-16 units, whatever offset kind is configured); Item::trim and ItemPtr::splice "
                    "split content with the constant kind their callers document")
    new = Y.fn("yrs::block::Item::new")
    v = FnView(new)
    aggs = [(i, j, s) for i, j, s in new.stmts() if "agg" in s["rv"] and s["rv"]["agg"].get("adt") == "yrs::block::Item"]
    R.floor("C03.c", "Item aggregate in Item::new", len(aggs), 1)
    for k, (i, j, s) in enumerate(aggs):
        fields = s["rv"]["agg"]["fields"]
        t = simp_deep(v.terms.operand(s["rv"]["ops"][fields.index("len")]))
        ok = t[0] == "call" and callee_match(t[1], "yrs::block::ItemContent::len") and is_const_utf16(t[2][1]) \
            and root_name(t[2][0]) == "content"
        R.ob("C03.c", new, "Item.len#%d" % k, ok, "len = %s" % show(t), "%s:%s" % (new.file, s["line"]))
    sq = Y.fn("yrs::block::ItemPtr::try_squash")
    sv = FnView(sq)
    ws = sq.field_writes("Item.len")
    R.floor("C03.c", "Item.len write in try_squash", len(ws), 1)
    for k, (i, j, s) in enumerate(ws):
        if "rv" in s:
            t = simp_deep(sv.terms.rvalue(s["rv"], 10))
        else:
            c = [c for c in sq.calls() if c.bb == i][0]
            t = simp_deep(("call", c.name, tuple(sv.terms.operand(a) for a in c.args), c.bb))
        ok = t[0] == "call" and callee_match(t[1], "yrs::block::ItemContent::len") and is_const_utf16(t[2][1])
        R.ob("C03.c", sq, "Item.len#%d" % k, ok, "len = %s" % show(t), "%s:%s" % (sq.file, s.get("line")))
    # zero-length content never becomes an item
    lits = [l for l in v.lits if l.term[0] == "bin" and l.term[1] == "Eq" and term_has_call(l.term, "yrs::block::ItemContent::len")]
    R.ob("C03.c", new, "zero-len-check", bool(lits), "Item::new tests len == 0 before building the item: %s" % [l.desc for l in lits][:2])


def rule_g(R, ctx, rid="C03.g"):
    Y = ctx.yrs
    R.rule(rid, "R-PAIR the in-block offset of a BlockIter is consumed once: every arithmetic step that folds `BlockIter.rel` into a "
                "clock or a length (split at id.clock + rel, len += rel, len -= rel) is followed on every path to the function's "
                "return by a write of `rel` (reset or new value) — a stale offset is re-applied to the next block, which deletes or "
                "reads elements elsewhere in the sequence")
    n = 0
    for p, fn in sorted(Y.fns.items()):
        if not p.startswith("yrs::block_iter::BlockIter::") or not fn.mir:
            continue
        cfg = fn.cfg()
        ws = {bi for bi, bj, bs in fn.field_writes("BlockIter.rel")}
        rets = {bb for bb, b in enumerate(fn.blocks) if "ret" in b["t"] and not b.get("cleanup")}
        k = 0
        for i, j, st in fn.stmts():
            rv = st["rv"]
            if rv.get("bin", "").replace("WithOverflow", "") not in ("Add", "Sub"):
                continue
            hit = False
            for x in ("a", "b"):
                r = mir_root(fn, rv[x])
                if r[0] == "place" and '"yrs::block_iter::BlockIter.rel"' in r[1]:
                    hit = True
            if not hit:
                continue
            n += 1
            ok = i in ws
            if not ok:
                seen = {i}
                stack = [i]
                escaped = False
                while stack and not escaped:
                    b = stack.pop()
                    for nx in fn.succ(b):
                        if nx in seen or fn.blocks[nx].get("cleanup") or nx in ws:
                            continue
                        if nx in rets:
                            escaped = True
                            break
                        seen.add(nx)
                        stack.append(nx)
                ok = not escaped
            R.ob(rid, fn, "uses-rel#%d:%s" % (k, rv["bin"].replace("WithOverflow", "")), ok,
                 "rel is rewritten on every path after it was folded in" if ok else
                 "`rel` is folded into a clock/length here but a path reaches the return without rewriting it: the stale offset is "
                 "applied again to the next block", "%s:%s" % (fn.file, st["line"]))
            k += 1
    R.floor(rid, "arithmetic uses of BlockIter.rel", n, 5)


def rule_h(R, ctx, rid="C03.h"):
    Y = ctx.yrs
    R.rule(rid, "R-ORDER the cursor is written back before the walk is delegated: BlockIter methods that advance a local copy of "
                "`self.next_item` (BlockIter::delete) store it back to the field on every path from an assignment of that local to a "
                "call of another BlockIter method on `self` (try_forward / forward / backward / split_rel), which reads the field — "
                "otherwise the delegated step starts from a stale position and the remaining length is applied to other elements")
    n = 0
    for p, fn in sorted(Y.fns.items()):
        if not p.startswith("yrs::block_iter::BlockIter::") or not fn.mir:
            continue
        # local copies of the cursor: locals of type Option<ItemPtr> with >= 2 definitions, one of which reads self.next_item
        copies = []
        for l, ds in fn.defs().items():
            if not isinstance(l, int) or len(ds) < 2 or not str(fn.local_ty(l)).startswith("std::option::Option<yrs::block::ItemPtr"):
                continue
            for d in ds:
                if d[0] == "stmt" and isinstance(d[3]["rv"].get("use"), dict):
                    pl = d[3]["rv"]["use"].get("c", d[3]["rv"]["use"].get("m"))
                    if isinstance(pl, dict) and any(isinstance(x, str) and x.endswith("BlockIter.next_item") for x in pl.get("p", [])):
                        copies.append(l)
        if not copies:
            continue
        writes = {}
        for i, j, st in fn.field_writes("BlockIter.next_item"):
            r = mir_root(fn, st["rv"]["use"]) if "use" in st["rv"] else None
            writes.setdefault(i, []).append(r)
        for cs in fn.calls():
            nm = F.strip_generics(cs.name)
            if not re.search(r"BlockIter::(try_forward|forward|backward|split_rel|try_backward)$", nm):
                continue
            if not (cs.args and simp_deep(FnView(fn).arg(cs, 0))[0] == "param"):
                continue
            for l in copies:
                n += 1
                wb = {b for b, rs in writes.items() if ("local", l) in rs}
                bad = None
                for d in fn.defs()[l]:
                    start = d[1]
                    if start in wb and start != cs.bb:
                        continue
                    if cs.bb in wb:
                        continue  # written back in the block of the call itself
                    seen = {start}
                    st_ = [start]
                    hit = start == cs.bb
                    while st_ and not hit:
                        b = st_.pop()
                        for nx in fn.succ(b):
                            if nx in seen or fn.blocks[nx].get("cleanup") or nx in wb:
                                continue
                            if nx == cs.bb:
                                hit = True
                                break
                            seen.add(nx)
                            st_.append(nx)
                    if hit:
                        bad = d[3]["line"] if d[0] == "stmt" else None
                        break
                R.ob(rid, fn, "%s:%s" % (nm.rsplit("::", 1)[-1], fn.local_name(l) or "_%d" % l), bad is None,
                     "self.next_item is written back from `%s` on every path into this call" % (fn.local_name(l) or l) if bad is None else
                     "a path from the assignment of `%s` at line %s reaches %s without storing it to self.next_item" % (fn.local_name(l), bad, nm.rsplit("::", 1)[-1]),
                     cs.loc())
    R.floor(rid, "delegations from a BlockIter method that holds a local cursor", n, 1)


def check(ctx, R):
    R.run("C03.a", rule_a, ctx)
    R.run("C03.b", rule_b, ctx)
    R.run("C03.c", rule_c, ctx)
    from . import c17
    R.run("C17.a", c17.rule_a, ctx, "C03.d")
    R.run("C03.e", c17.rule_c, ctx, "C03.e")
    R.run("C03.f", c17.rule_d, ctx, "C03.f")
    R.run("C03.g", rule_g, ctx)
    R.run("C03.h", rule_h, ctx)
    from . import preds
    R.run("C03.p", lambda R, c: preds.rule(R, c, "C03.p", ["adjacent_left", "adjacent_right", "item_contains", "slice_contains_id"]), ctx)
    return {}
