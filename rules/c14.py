"""C14 — sticky indexes: serialization tables, resolution guards, anchor provenance."""
from ylib import facts as F
from ylib.facts import hir_walk
from .common import *  # noqa

SI = "yrs::sticky_index::StickyIndex"


def _variant_of(n):
    """variant name constructed / matched by a HIR node (ctor call, struct/tuple-struct pattern)."""
    for key in ("ctor", "def", "ctor_of"):
        v = n.get(key)
        if v and "IndexScope::" in v:
            return v.split("IndexScope::")[1].split("::")[0]
        if v and "Assoc::" in v:
            return v.split("Assoc::")[1].split("::")[0]
    return None


def rule_a_json(R, ctx):
    Y = ctx.yrs
    R.rule("C14.a", "R-TABLE 'survives JSON serialization': the field name Serialize writes for each IndexScope variant is the key the "
                    "Deserialize visitor maps back to the same variant; `assoc` is written as the enum discriminant and read back "
                    "through a table that inverts it")
    ser = Y.fn("<yrs::sticky_index::StickyIndex as yrs::block::_::_serde::Serialize>::serialize")
    wtab = {}
    for n in hir_walk(ser.hir["body"]):
        if n.get("k") == "match" and n.get("src") == "normal":
            for arm in n["arms"]:
                var = None
                for p in hir_walk(arm["pat"]):
                    var = var or _variant_of(p)
                key = None
                for c in hir_walk(arm["body"]):
                    if c.get("k") == "mcall" and c.get("name") == "serialize_field":
                        a0 = c["args"][0]
                        if a0.get("k") == "lit":
                            key = a0["v"]
                if var and key:
                    wtab[var] = key
    R.ob("C14.a", ser, "writer-table", set(wtab) == {"Relative", "Nested", "Root"} and len(set(wtab.values())) == 3,
         "Serialize: %s" % wtab)
    de = None
    for p, fn in Y.fns.items():
        if p.endswith("::visit_map") and "StickyIndex" in p and "sticky_index" in fn.file:
            de = fn
    if de is None:
        raise AnchorLost("StickyIndex visitor visit_map")
    # key literal -> local assigned
    key_local = {}
    for n in hir_walk(de.hir["body"]):
        if n.get("k") == "match":
            for arm in n["arms"]:
                p = arm["pat"]
                if p.get("k") == "plit" and isinstance(p.get("v"), str):
                    for a in hir_walk(arm["body"]):
                        if a.get("k") == "assign" and a["l"].get("k") == "path" and "local" in a["l"]:
                            key_local[p["v"]] = a["l"]["local"]
    # local -> variant
    local_var = {}
    for n in hir_walk(de.hir["body"]):
        if n.get("k") == "if" and n["cond"].get("k") == "letx":
            init = n["cond"]["init"]
            if init.get("k") == "path" and "local" in init:
                for c in hir_walk(n["then"]):
                    var = _variant_of(c) if c.get("k") == "call" else None
                    if var in ("Relative", "Nested", "Root"):
                        local_var.setdefault(init["local"], var)
                        break
    # precedence of the scope keys: a position inside a root-level type arrives from Yjs with BOTH `tname` and `item`; the element
    # anchor wins (as in Yjs), then the root name, then the nested type id
    chain = []
    for n in hir_walk(de.hir["body"]):
        if n.get("k") == "if" and n["cond"].get("k") == "letx":
            init = n["cond"]["init"]
            if init.get("k") == "path" and "local" in init and init["local"] in local_var:
                depth = 0
                cur = n
                # how many scope tests sit in the else-chain below this one
                below = [m for m in hir_walk(n.get("else") or {}) if m.get("k") == "if" and m["cond"].get("k") == "letx"
                         and m["cond"]["init"].get("k") == "path" and m["cond"]["init"].get("local") in local_var]
                chain.append((len(below), local_var[init["local"]]))
    order = [v for _, v in sorted(chain, key=lambda x: -x[0])]
    R.ob("C14.a", de, "scope-precedence", order == ["Relative", "Root", "Nested"],
         "scope keys are tried in the order item, tname, type: %s" % order if order == ["Relative", "Root", "Nested"] else
         "scope keys are tried in the order %s — expected Relative (item) before Root (tname) before Nested (type): a position from Yjs "
         "inside a root-level type carries tname AND item, and loses its element anchor" % order)
    rtab = {k: local_var.get(l) for k, l in key_local.items()}
    R.ob("C14.a", de, "reader-table", len([v for v in rtab.values() if v]) >= 3, "Deserialize: %s" % rtab)
    agree = all(rtab.get(key) == var for var, key in wtab.items())
    R.ob("C14.a", de, "tables-agree", agree and bool(wtab), "writer %s / reader %s" % (wtab, rtab))
    # assoc: written as `self.assoc as i8`; read: literal -> variant; must invert the discriminants
    discr = {name: d for d, name, _ in Y.enums.get("yrs::sticky_index::Assoc", [])}
    # discriminants are stored unsigned in the table: normalise to i8
    discr = {k: (v - 256 if v > 127 and v < 256 else (v - (1 << 64) if v >= (1 << 63) else (v - (1 << 128) if v >= (1 << 127) else v))) for k, v in discr.items()}
    atab = {}
    for n in hir_walk(de.hir["body"]):
        if n.get("k") == "match":
            for arm in n["arms"]:
                p = arm["pat"]
                if p.get("k") == "plit" and isinstance(p.get("v"), int):
                    for c in hir_walk(arm["body"]):
                        var = _variant_of(c)
                        if var in ("After", "Before"):
                            atab[var] = p["v"]
    wrote_cast = any(n.get("k") == "cast" and n["x"].get("k") == "field" and n["x"].get("name") == "assoc" for n in hir_walk(ser.hir["body"]))
    R.ob("C14.a", de, "assoc-table", wrote_cast and atab == discr and len(atab) == 2,
         "written as discriminant cast: %s ; discriminants %s ; reader table %s" % (wrote_cast, discr, atab))
    return {"serde_writer_table": wtab, "serde_reader_table": rtab}


def rule_b(R, ctx):
    Y = ctx.yrs
    fn = Y.fn(SI + "::get_offset")
    v = FnView(fn)
    R.rule("C14.b", "R-GUARD+R-PROV resolution in StickyIndex::get_offset: the index accumulates item.content_len(store.offset_kind) only "
                    "for items that are !is_deleted() && is_countable(), walking .left only, starting from Store::follow_redone(id) of "
                    "the anchor; an anchor whose clock the store has not reached yields None")
    adds = [(i, j, s) for i, j, s in fn.stmts() if "bin" in s["rv"] and s["rv"]["bin"].startswith("Add")
            and term_has_call(v.terms.operand(s["rv"]["b"]), "yrs::block::Item::content_len")]
    R.floor("C14.b", "index accumulation in get_offset", len(adds), 1)
    for k, (i, j, s) in enumerate(adds):
        g = v.guards(i)
        nd = any(lit_call(l, "yrs::block::Item::is_deleted", False) for l in g)
        cnt = any(lit_call(l, "yrs::block::Item::is_countable", True) for l in g)
        item = v.terms.operand(s["rv"]["b"])
        walks_left = term_has_field(item, "Item.left") and not term_has_field(item, "Item.right")
        from_redone = term_has_call(item, "yrs::store::Store::follow_redone")
        kind = any(t[0] == "field" and t[1].endswith("offset_kind") for t in walk(item))
        R.ob("C14.b", fn, "accumulate#%d" % k, nd and cnt and walks_left and from_redone and kind,
             "live=%s countable=%s left-walk=%s from follow_redone=%s store-kind=%s" % (nd, cnt, walks_left, from_redone, kind),
             "%s:%s" % (fn.file, s["line"]))
    # the anchor's own contribution (its offset inside the block) counts only while the anchor is live and countable:
    # a deleted anchor resolves to the gap where it used to be
    def reads_start(rv):
        for k in ("use", "a", "b", "cast"):
            o = rv.get(k)
            pl = o.get("c", o.get("m")) if isinstance(o, dict) else None
            if isinstance(pl, dict) and pl.get("p") and isinstance(pl["p"][-1], str) and pl["p"][-1].endswith("ItemSlice.start"):
                return True
        return False
    own = [(i, j, s) for i, j, s in fn.stmts() if reads_start(s["rv"])]
    R.floor("C14.b", "anchor-offset contributions in get_offset", len(own), 2)
    for k, (i, j, s) in enumerate(own):
        g = v.guards(i)
        nd = any(lit_call(l, "re:(Item|ItemSlice|ItemFlags)::is_deleted$", False) for l in g)
        cnt = any(lit_call(l, "re:(Item|ItemSlice|ItemFlags)::is_countable$", True) for l in g)
        R.ob("C14.b", fn, "anchor-offset#%d" % k, nd and cnt,
             "the anchor's offset inside its block is added only for a live countable anchor: live=%s countable=%s" % (nd, cnt) if nd and cnt else
             "the anchor's offset inside its block (%s) is added although the anchor may be %s: a deleted anchor must resolve to the "
             "gap where it used to be" % (sshow(v.terms.rvalue(s["rv"], 8), 5), "deleted" if not nd else "uncountable"),
             "%s:%s" % (fn.file, s["line"]))
    fr = fn.calls_to("yrs::store::Store::follow_redone")
    R.floor("C14.b", "follow_redone calls in get_offset", len(fr), 2)
    for cs, site in ordinal_sites(fr):
        g = v.guards(cs.bb)
        ok = any(l.term[0] == "bin" and l.term[1] == "Le" and term_has_call(l.term, "yrs::block_store::BlockStore::get_clock") and l.polarity is False for l in g)
        R.ob("C14.b", fn, site, ok, "resolution only when get_clock(client) > id.clock: %s" % [l.desc for l in g][-2:], cs.loc())


def rule_c(R, ctx):
    Y = ctx.yrs
    fn = Y.fn(SI + "::at")
    v = FnView(fn)
    R.rule("C14.c", "R-PROV anchors are element ids: every IndexScope::Relative built by StickyIndex::at takes its id from "
                    "BlockIter::next_item() — id()+rel() or last_id() — never from the numeric index; positions with no element fall "
                    "back to IndexScope::from_branch")
    n = 0
    for i, j, s in fn.stmts():
        rv = s["rv"]
        if "agg" in rv and rv["agg"].get("adt") == "yrs::sticky_index::IndexScope" and rv["agg"].get("variant") == "Relative":
            n += 1
            t = v.terms.operand(rv["ops"][0], 20)
            from_iter = term_has_call(t, "yrs::block_iter::BlockIter::next_item")
            uses_index = any(x[0] == "param" and x[2] == "index" for x in walk(t))
            R.ob("C14.c", fn, "Relative#%d" % n, from_iter and not uses_index, "id = %s" % sshow(t, 6), "%s:%s" % (fn.file, s["line"]))
    R.floor("C14.c", "IndexScope::Relative constructions in at()", n, 2)
    fb = fn.calls_to("yrs::sticky_index::IndexScope::from_branch")
    R.ob("C14.c", fn, "fallback", len(fb) >= 2, "from_branch fallbacks: %d" % len(fb))
    # every producer of a StickyIndex in at(): StickyIndex::new(scope, assoc) with a scope checked above (Relative from the walk, or
    # from_branch); any other constructor (from_id, from_type, a struct literal) must take its anchor from the walk as well
    k = 0
    for cs in fn.calls():
        if str(cs.t.get("dest_ty", "")) != "yrs::sticky_index::StickyIndex":
            continue
        k += 1
        name = F.strip_generics(cs.name)
        site = "producer:%s#%d" % (name.rsplit("::", 1)[-1], k)
        if name.endswith("StickyIndex::new"):
            sc = simp_deep(v.arg(cs, 0, 20))
            alts = sc[1] if sc[0] == "phi" else (sc,)
            ok = all(term_has_call(a, "yrs::sticky_index::IndexScope::from_branch") or term_has_call(a, "yrs::block_iter::BlockIter::next_item") for a in alts)
            walked = True
            if any(term_has_call(a, "yrs::block_iter::BlockIter::next_item") for a in alts):
                tf = fn.calls_to("yrs::block_iter::BlockIter::try_forward")
                walked = bool(tf) and any(fn.cfg().dominates(t_.bb, cs.bb) and any(lit_call(l, "yrs::block_iter::BlockIter::try_forward", True) for l in v.guards(cs.bb)) for t_ in tf)
            R.ob("C14.c", fn, site, ok and walked, "StickyIndex::new(%s)%s" % (sshow(sc, 5), "" if walked else " — not behind a successful BlockIter::try_forward(index)"), cs.loc())
        else:
            anchors = [simp_deep(v.arg(cs, i, 20)) for i in range(len(cs.args))]
            ok = any(term_has_call(a, "yrs::block_iter::BlockIter::next_item") for a in anchors)
            R.ob("C14.c", fn, site, ok, "%s(%s): the anchor comes from the liveness-aware walk (BlockIter::next_item)" % (name.rsplit("::", 1)[-1], sshow(anchors[0], 5)) if ok else
                 "%s(%s): the anchor does not come from the walk that skips tombstones and formatting marks — the index sticks to "
                 "whatever physical item is there, not to the visible element at that position" % (name.rsplit("::", 1)[-1], ", ".join(sshow(a, 4) for a in anchors)), cs.loc())
    for i, j, st in fn.stmts():
        rv = st["rv"]
        if "agg" in rv and rv["agg"].get("adt") == "yrs::sticky_index::StickyIndex":
            k += 1
            R.ob("C14.c", fn, "producer:literal#%d" % k, False, "a StickyIndex is built by a struct literal in at(): its scope is not covered by the anchor rule", "%s:%s" % (fn.file, st["line"]))
    R.floor("C14.c", "producers of a StickyIndex in at()", k, 3)


def rule_d(R, ctx):
    from ylib.formula import Formulas, truth_check, fshow
    Y = ctx.yrs
    R.rule("C14.d", "exact formula of BlockIter::can_forward (the walk StickyIndex::at uses to pick the anchoring element): it keeps "
                    "moving iff !reached_end && (len > 0 || (ptr is Some && (!countable(ptr) || deleted(ptr)))) — once the requested "
                    "length is consumed the cursor still steps over tombstones and over live non-countable items (formatting "
                    "marks), so an index is anchored on an element, never on a mark in front of it; compared by truth table")
    fn = Y.fn("yrs::block_iter::BlockIter::can_forward")
    fm = Formulas(fn, simp_deep)
    f = fm.local_formula(0)

    def cls(k, t):
        t = simp_deep(t) if isinstance(t, tuple) else t
        if not isinstance(t, tuple):
            return None
        if t[0] == "field" and t[1].endswith("BlockIter.reached_end"):
            return "RE"
        if t[0] == "bin" and simp(t[2])[0] == "param" and fn.local_name(simp(t[2])[1]) == "len" and simp(t[3])[:2] == ("const", 0):
            return {"Gt": "LEN", "Ne": "LEN", "Eq": "!LEN", "Le": "!LEN"}.get(t[1])
        if t[0] == "param" and fn.local_name(t[1]) == "ptr" and k.endswith(" is Some"):
            return "SOME"
        if t[0] == "call" and t[1].endswith("::is_countable"):
            return "CNT"
        if t[0] == "call" and t[1].endswith("::is_deleted"):
            return "DEL"
        return None

    def req(n):
        g = lambda x: n.get(x, False)
        return (not g("RE")) and (g("LEN") or (g("SOME") and ((not g("CNT")) or g("DEL"))))
    ok, cex, keys = truth_check(f, cls, req, max_atoms=10)
    from ylib.formula import missing_atoms
    gone = missing_atoms(f, cls, req, ["RE", "LEN", "SOME", "CNT", "DEL"])
    if gone:
        ok, cex = False, "can_forward no longer tests %s" % gone
    R.ob("C14.d", fn, "formula", ok, "can_forward = %s" % fshow(f)[:300] if ok else
         "can_forward deviates from the skip rule: %s; formula = %s" % (cex, fshow(f)[:300]))


def rule_rel(R, ctx, rid="C14.h"):
    Y = ctx.yrs
    R.rule(rid, "R-GUARD resolution of an element-relative index: StickyIndex::get_item answers the RIGHT neighbour of the anchor element "
                "exactly where the association is the tested one (After) and the anchor id is the last id of its block, and the block "
                "that holds the anchor otherwise — every caller (get_offset, quotations: unquote / materialize / to_string) starts "
                "its walk from this answer")
    fn = Y.fn("yrs::sticky_index::StickyIndex::get_item")
    v = FnView(fn)
    n = 0
    for i, j, st in fn.stmts():
        if st["dst"] != 0:
            continue
        g = v.guards(i)
        if not any(l.polarity == "Relative" for l in g):
            continue
        t = simp_deep(v.terms.rvalue(st["rv"], 10))
        n += 1
        is_right = t[0] == "field" and t[1].endswith("Item.right")
        by_assoc = any(isinstance(l.term, tuple) and l.term[0] == "call" and re.search(r"PartialEq.*::eq$", F.strip_generics(l.term[1]))
                       and term_has_field(l.term, "StickyIndex.assoc") and l.polarity is True for l in g)
        by_last = any(isinstance(l.term, tuple) and l.term[0] == "call" and re.search(r"PartialEq.*::eq$", F.strip_generics(l.term[1]))
                      and term_has_call(l.term, "re:::last_id$") and term_has_field(l.term, "IndexScope::Relative.0") and l.polarity is True for l in g)
        if is_right:
            R.ob(rid, fn, "relative:right", by_assoc and by_last, "item.right is answered under the association test and last_id(item) == id: %s %s" % (by_assoc, by_last))
        else:
            whole = t[0] == "agg" and t[1].endswith("Option::Some") or (t[0] == "agg" and "Some" in str(t[1]))
            R.ob(rid, fn, "relative:item#%d" % n, whole and term_has_call(t, "yrs::block_store::BlockStore::get_item"),
                 "Some(the block that holds the anchor): %s" % sshow(t, 4))
    R.floor(rid, "answers of the Relative arm of get_item", n, 2)


def check(ctx, R):
    from . import wire_rules
    extra = {}
    R.run("C14.a", lambda R, c: extra.update(rule_a_json(R, c) or {}), ctx)
    R.run("C14.a", wire_rules.c14_a, ctx)
    R.run("C14.b", rule_b, ctx)
    R.run("C14.c", rule_c, ctx)
    R.run("C14.d", rule_d, ctx)
    from . import c04 as _c04
    R.run("C14.e", lambda R, c: _c04.rule_e(R, c, "C14.e"), ctx)
    R.run("C14.h", rule_rel, ctx)
    R.run("C14.i", rule_serde_width, ctx)
    return extra


def rule_serde_width(R, ctx, rid="C14.i"):
    """The serde form of a client id reads the scalar type it writes."""
    import re as _re
    Y = ctx.yrs
    R.rule(rid, "R-SIB the serde form of ClientID — what the JSON form of an ID, and so of a StickyIndex, is made of — writes the "
                "value of ClientID::get with the Serialize impl of one scalar type and reads it back with the Deserialize impl of the "
                "SAME type, handing the read value to ClientID::new as it is: client ids are 53-bit, a narrower reader rejects cursors "
                "anchored to elements of most real replicas")
    ser = Y.fn("<yrs::block::ClientID as yrs::block::_::_serde::Serialize>::serialize")
    de = Y.fn("<yrs::block::ClientID as yrs::block::_::_serde::Deserialize>::deserialize")
    vs, vd = FnView(ser), FnView(de)
    w = [(c, _re.match(r"^<(\w+) as .*Serialize>::serialize$", c.name)) for c in ser.calls()]
    w = [(c, m.group(1)) for c, m in w if m]
    r = [(c, _re.match(r"^<(\w+) as .*Deserialize>::deserialize$", c.name)) for c in de.calls()]
    r = [(c, m.group(1)) for c, m in r if m]
    R.floor(rid, "scalar writes in ClientID::serialize", len(w), 1)
    R.floor(rid, "scalar reads in ClientID::deserialize", len(r), 1)
    if len(w) != 1 or len(r) != 1:
        R.ob(rid, de, "width", False, "%d scalar writes, %d scalar reads (expected one each)" % (len(w), len(r)))
        return
    wt, rt = w[0][1], r[0][1]
    src = sshow(simp_deep(vs.arg(w[0][0], 0, 8)), 6)
    R.ob(rid, ser, "writes-get", src == "ClientID::get(self)", "writes %s as %s" % (src, wt), w[0][0].loc())
    R.ob(rid, de, "width", wt == rt, "reads the %s it writes" % rt if wt == rt else
         "serialize writes a %s, deserialize reads a %s: ids the writer emits are rejected or truncated by the reader" % (wt, rt), r[0][0].loc())
    news = de.calls_to("yrs::block::ClientID::new")
    ok = len(news) == 1 and sshow(simp_deep(vd.arg(news[0], 0, 8)), 8) == "Try>::branch(Deserialize>::deserialize(deserializer)) as Continue.0"
    R.ob(rid, de, "value", ok, "ClientID::new(the value read)" if ok else "ClientID::new receives %s" %
         ([sshow(simp_deep(vd.arg(c, 0, 8)), 8) for c in news],), news[0].loc() if news else None)
