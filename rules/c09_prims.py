def rule_prims(R, ctx):
    pass


def rule_tables(R, ctx):
    pass
