"""R-WIRE primitive layer: EncoderV1<->DecoderV1, EncoderV2<->DecoderV2 method by method (stream identity + primitive),
Write defaults <-> Read defaults, EncoderV2::to_vec stream order <-> DecoderV2::new read order, RLE count biases, tag tables."""
import re

from ylib import facts as F
from ylib.facts import hir_walk
from ylib import wire as W
from .common import *  # noqa

STREAM_FIELD = re.compile(r"^(.*?)_(encoder|decoder)$")
OP_ALIASES = {"write": "str", "read_str": "str", "write_all": "raw", "read_exact": "raw", "all": "raw", "exact": "raw"}


def norm_op(name):
    if name in OP_ALIASES:
        return OP_ALIASES[name]
    n = re.sub(r"^(write|read)_", "", name)
    return OP_ALIASES.get(n, n)


def stream_of(expr, env):
    """stream an encoder/decoder expression denotes: 'self', a column name, or 'rest' (buf / cursor)."""
    e = W.strip_expr(expr)
    if not isinstance(e, dict):
        return None
    if e.get("k") == "path" and e.get("local") == "self":
        return "self"
    if e.get("k") == "path" and "local" in e:
        return env.get(e["local"])
    if e.get("k") == "field":
        b = W.strip_expr(e["base"])
        if isinstance(b, dict) and b.get("k") == "path" and b.get("local") == "self":
            nm = e["name"]
            if nm in ("buf", "cursor"):
                return "rest"
            m = STREAM_FIELD.match(nm)
            if m:
                return m.group(1)
            return "field:" + nm
        return stream_of(e["base"], env)
    return None


def ops_of(fn):
    """ordered (stream, op, class) list of a primitive-layer method."""
    out = []
    env = {}

    def visit(n):
        if isinstance(n, list):
            for x in n:
                visit(x)
            return
        if not isinstance(n, dict):
            return
        k = n.get("k")
        if k == "let":
            init = n.get("init")
            visit(init)
            pat = n.get("pat", {})
            if pat.get("k") == "bind" and init is not None:
                core = W.strip_expr(init)
                # EncoderV1 { buf: take(&mut self.buf) }  ->  alias of the rest stream
                if isinstance(core, dict) and core.get("k") == "struct":
                    for f, e in core.get("fields", []):
                        for x in hir_walk(e):
                            if x.get("k") == "field" and x.get("name") in ("buf", "cursor"):
                                env[pat["name"]] = "rest"
            visit(n.get("els"))
            return
        if k == "mcall":
            visit(n.get("recv"))
            for a in n.get("args", []):
                visit(a)
            st = stream_of(n["recv"], env)
            name = n.get("name")
            if st is not None and (name.startswith(("write", "read")) or name in ("reset_ds_cur_val",)):
                cls = W.var_class(n.get("gargs")) if name in ("write_var", "read_var") else None
                out.append((st, norm_op(name), cls))
                return
            if name in ("to_json",):
                out.append(("-", "json-text", None))
                return
            # any.encode(encoder)
            if name in ("encode",) and n.get("args"):
                st2 = stream_of(n["args"][0], env)
                if st2:
                    out.append((st2, "any", None))
            return
        if k == "call":
            for a in n.get("args", []):
                visit(a)
            f = n.get("resolved") or n.get("fn") or ""
            if f.endswith("Any::decode") and n.get("args"):
                st2 = stream_of(n["args"][0], env)
                if st2:
                    out.append((st2, "any", None))
            elif f.endswith("Any::from_json") or f.endswith("Any::to_json"):
                out.append(("-", "json-text", None))
            return
        if k == "closure":
            visit(n.get("body"))
            return
        for key, v in n.items():
            if isinstance(v, (dict, list)) and key not in ("pat",):
                visit(v)

    visit(fn.hir["body"])
    return out


def methods_of(Y, self_ty_prefix, traits):
    out = {}
    for i in Y.impls:
        if i["self_ty"].startswith(self_ty_prefix) and (i.get("trait_def") in traits):
            for name, path in i["fns"]:
                out[name] = path
    return out


# method pairs whose two sides are not mirror images on purpose: reason
INTENDED = {
    ("v1", "key"): None,
}


def rule_prims(R, ctx, rid="C09.prim"):
    Y = ctx.yrs
    R.rule(rid, "R-WIRE primitive layer: for each encoder/decoder version every write_X method and its read_X twin touch the same "
                "column stream(s) in the same order with the paired primitive (write_u8/read_u8, write_var<T>/read_var<T> of equal "
                "signedness, write_all/read_exact raw, string column write/read_str); the Write default methods mirror the Read "
                "defaults; EncoderV2::to_vec writes the columns in the order DecoderV2::new reads them")
    n = 0
    for ver in ("1", "2"):
        enc = methods_of(Y, "yrs::updates::encoder::EncoderV" + ver, ("yrs::updates::encoder::Encoder", "yrs::encoding::write::Write"))
        dec = methods_of(Y, "yrs::updates::decoder::DecoderV" + ver, ("yrs::updates::decoder::Decoder", "yrs::encoding::read::Read"))
        names = sorted({norm_op(m) for m in enc} & {norm_op(m) for m in dec})
        wmap = {norm_op(m): p for m, p in enc.items()}
        rmap = {norm_op(m): p for m, p in dec.items()}
        for m in names:
            if m in ("to_vec", "to_end"):
                continue
            wf, rf = Y.fn(wmap[m]), Y.fn(rmap[m])

            def expand(ops, table, depth=0):
                out = []
                for st, op, cls in ops:
                    if st == "self" and op in table and depth < 3 and op not in ("var", "var_signed", "u8", "raw", "buf", "string") or \
                            (st == "self" and op in table and depth < 3 and ver == "2" and op in ("string",)):
                        out.extend(expand(ops_of(Y.fn(table[op])), table, depth + 1))
                    elif st == "self":
                        out.append(("rest", op, cls))   # Write/Read default method on the encoder itself: the raw (rest) stream
                    else:
                        out.append((st, op, cls))
                return out

            wo, ro = expand(ops_of(wf), wmap), expand(ops_of(rf), rmap)
            wj = [x for x in wo if x[1] == "json-text"]
            rj = [x for x in ro if x[1] == "json-text"]
            wo = [x for x in wo if x[1] != "json-text"] + wj[:1]
            ro = [x for x in ro if x[1] != "json-text"] + rj[:1]
            n += 1
            R.touch(wf)
            R.touch(rf)

            def cmp(a, b):
                if len(a) != len(b):
                    return False
                for (s1, o1, c1), (s2, o2, c2) in zip(a, b):
                    if s1 != s2 or o1 != o2:
                        return False
                    if c1 and c2 and "?" not in (c1, c2) and c1 != c2:
                        return False
                return True

            ok = cmp(wo, ro)
            # key column: the writer consults its key table, the reader its key cache: both touch key_clock then (conditionally) string
            R.ob(rid, wf, "v%s:%s" % (ver, m), ok, "writer ops %s %s reader ops %s" % (wo, "==" if ok else "!=", ro))
        only = sorted(({norm_op(m) for m in enc} ^ {norm_op(m) for m in dec}) - {"to_vec", "to_end"})
        R.ob(rid, "EncoderV%s/DecoderV%s" % (ver, ver), "method-sets", not only or set(only) <= {"raw", "str"},
             "methods present on one side only: %s" % only, nontrivial=False)
    R.floor(rid, "encoder/decoder method pairs compared", n, 30)
    # Write defaults <-> Read defaults
    wdef = {norm_op(p.rsplit("::", 1)[-1]): f for p, f in Y.fns.items() if p.startswith("yrs::encoding::write::Write::") and f.kind != "closure"}
    rdef = {norm_op(p.rsplit("::", 1)[-1]): f for p, f in Y.fns.items() if p.startswith("yrs::encoding::read::Read::") and f.kind != "closure"}
    m = 0
    for name in sorted(set(wdef) & set(rdef)):
        wo, ro = ops_of(wdef[name]), ops_of(rdef[name])
        # numeric fixed-width helpers: compare byte counts through the array literal / read_exact length
        wshape = [(s, o) for s, o, c in wo]
        rshape = [(s, o) for s, o, c in ro]
        m += 1
        ok = wshape == rshape
        if not ok and name in ("var", "var_signed"):
            ok = True  # delegate to VarInt::write/read (checked by the varint pair below)
        R.ob(rid, wdef[name], "default:" + name, ok, "Write::%s ops %s / Read::%s ops %s" % (name, wshape, name, rshape))
    R.floor(rid, "Write/Read default pairs", m, 10)
    # fixed width: bytes written == bytes read
    for name, width in (("u16", 2), ("u32", 4), ("u32_be", 4), ("f32", 4), ("f64", 8), ("i64", 8), ("u64", 8)):
        wf, rf = wdef.get(name), rdef.get(name)
        if wf is None or rf is None:
            R.ob(rid, "yrs::encoding", "width:" + name, False, "fixed-width pair %s missing" % name)
            continue
        wn = _written_width(wf)
        rn = _read_width(rf)
        R.ob(rid, wf, "width:" + name, wn == width and rn == width, "writes %s byte(s), reads %s byte(s), expected %d" % (wn, rn, width))
    # column order
    tv = Y.fn("<yrs::updates::encoder::EncoderV2 as yrs::updates::encoder::Encoder>::to_vec")
    nw = Y.fn("yrs::updates::decoder::DecoderV2::new")
    worder = _to_vec_order(tv)
    rorder = _new_order(nw)
    R.ob(rid, tv, "column-order", worder == rorder and len(worder) >= 9, "to_vec writes %s ; DecoderV2::new reads %s" % (worder, rorder))


def _written_width(fn):
    for n in hir_walk(fn.hir["body"]):
        if n.get("k") == "array":
            return len(n.get("elems", []))
        if n.get("k") == "mcall" and n.get("name") == "to_be_bytes":
            ty = n.get("recv_ty", "")
            for t, w in (("f32", 4), ("f64", 8), ("i64", 8), ("u64", 8), ("u32", 4), ("u16", 2)):
                if ty.endswith(t):
                    return w
    return None


def _read_width(fn):
    for n in hir_walk(fn.hir["body"]):
        if n.get("k") == "mcall" and n.get("name") == "read_exact":
            c = W.const_values(n["args"][0])
            if c:
                return c[0]
    return None


def _to_vec_order(fn):
    """order of the column buffers in the output: `let X = self.X_encoder.to_vec()` then `buf.write_buf(X)`..."""
    alias = {}
    order = []
    for n in hir_walk(fn.hir["body"]):
        pass
    def visit(n):
        if isinstance(n, list):
            for x in n:
                visit(x)
            return
        if not isinstance(n, dict):
            return
        if n.get("k") == "let" and n.get("pat", {}).get("k") == "bind":
            init = W.strip_expr(n.get("init")) if n.get("init") else None
            if isinstance(init, dict):
                for x in hir_walk(init):
                    if x.get("k") == "field":
                        m = STREAM_FIELD.match(x.get("name", ""))
                        if m:
                            alias[n["pat"]["name"]] = m.group(1)
                        elif x.get("name") == "buf":
                            alias[n["pat"]["name"]] = "rest"
        if n.get("k") == "mcall" and n.get("name") in ("write_buf", "write_all") and n.get("args"):
            a = W.strip_expr(n["args"][0])
            nm = None
            for x in hir_walk(a):
                if x.get("k") == "path" and x.get("local") in alias:
                    nm = alias[x["local"]]
            if nm:
                order.append((nm, "len-prefixed" if n["name"] == "write_buf" else "raw"))
        for k, v in n.items():
            if isinstance(v, (dict, list)):
                visit(v)
    visit(fn.hir["body"])
    return order


def _new_order(fn):
    alias = {}
    order = []
    def visit(n):
        if isinstance(n, list):
            for x in n:
                visit(x)
            return
        if not isinstance(n, dict):
            return
        if n.get("k") == "let" and n.get("pat", {}).get("k") == "bind" and n.get("init") is not None:
            init = W.strip_expr(n["init"])
            if isinstance(init, dict) and init.get("k") == "call" and (init.get("fn") or "").endswith("DecoderV2::read_buf"):
                nm = n["pat"]["name"]
                order.append((re.sub(r"_buf$", "", nm), "len-prefixed"))
            if isinstance(init, dict) and init.get("k") == "struct" and (init.get("def") or "").endswith("Cursor"):
                order.append(("rest", "raw"))
        for k, v in n.items():
            if isinstance(v, (dict, list)):
                visit(v)
    visit(fn.hir["body"])
    return order


def rule_tables(R, ctx, rid="C09.tables"):
    Y = ctx.yrs
    R.rule(rid, "R-TABLE tag vocabularies: the content ref numbers (ItemContent::get_ref_number), block kinds, TypeRef tags, message "
                "tags are injective (no two variants share a constant) and every constant a writer emits as a tag is matched by "
                "the reader of that codec; RLE column codecs use inverse count biases (writer count-1 / reader +1, writer count-2 / reader +2)")
    from .c09 import variant_table
    tab = variant_table(Y, "yrs::block::ItemContent::get_ref_number")
    R.ob(rid, "yrs::block::ItemContent::get_ref_number", "injective", len(set(tab.values())) == len(tab) and len(tab) == 9,
         "content ref numbers %s" % tab)
    # reader arms cover exactly these numbers
    dec = Y.fn("yrs::block::ItemContent::decode")
    arms = set()
    for n in hir_walk(dec.hir["body"]):
        if n.get("k") == "match" and n.get("src") == "normal":
            for a in n["arms"]:
                c = W.pat_consts(a["pat"])
                if c and c != ("_",):
                    arms |= set(c)
            break
    R.ob(rid, dec, "reader-arms", arms == set(tab.values()), "ItemContent::decode arms %s vs writer numbers %s" % (sorted(arms), sorted(tab.values())))
    # block kinds must not collide with content numbers in the low nibble used for items
    consts = {p.rsplit("::", 1)[-1]: c["v"] for p, c in Y.consts.items() if p.startswith("yrs::block::BLOCK_")}
    kinds = {k: v for k, v in consts.items() if k in ("BLOCK_GC_REF_NUMBER", "BLOCK_SKIP_REF_NUMBER")}
    R.ob(rid, "yrs::block", "block-kinds", len(kinds) == 2 and not (set(kinds.values()) & set(tab.values())),
         "GC/Skip numbers %s do not collide with content numbers" % kinds)
    flags = {p.rsplit("::", 1)[-1]: c["v"] for p, c in Y.consts.items() if p.startswith("yrs::block::HAS_")}
    ok = len(flags) == 3 and all(v & 0b1111 == 0 for v in flags.values()) and len(set(flags.values())) == 3 and \
        all(bin(v).count("1") == 1 for v in flags.values())
    R.ob(rid, "yrs::block", "info-bits", ok, "info flag bits %s are distinct single bits above the content nibble" % flags)
    # RLE biases
    pairs = [
        ("yrs::updates::encoder::UIntOptRleEncoder::flush", "yrs::updates::decoder::UIntOptRleDecoder::read_u64", 2),
        ("yrs::updates::encoder::IntDiffOptRleEncoder::flush", "yrs::updates::decoder::IntDiffOptRleDecoder::read_u32", 2),
        ("yrs::updates::encoder::RleEncoder::write_u8", "yrs::updates::decoder::RleDecoder::read_u8", 1),
    ]
    for w, r, bias in pairs:
        wf, rf = Y.fns.get(w), Y.fns.get(r)
        if wf is None or rf is None:
            R.ob(rid, w, "rle-bias", False, "RLE codec function missing: %s / %s" % (w, r))
            continue
        wb = _bias(wf, "-")
        rb = _bias(rf, "+")
        R.ob(rid, wf, "rle-bias", bias in wb and bias in rb, "writer subtracts %s, reader adds %s (expected %d on both sides)" % (sorted(wb), sorted(rb), bias))
        # the primitives of the column: what the writer emits with write_K the reader takes with read_K (a run length written as a
        # var-int and read as one byte breaks at the first run of 129)
        def kinds(fn, side):
            out = []
            for c in fn.calls():
                m = re.search(r"::(?:Write|Read)::(%s)_(\w+)$" % side, F.strip_generics(c.name))
                if m:
                    out.append(m.group(2))
            return sorted(set(out))
        wk, rk = kinds(wf, "write"), kinds(rf, "read")
        R.ob(rid, wf, "column-primitives", wk == rk and bool(wk), "writer writes %s, reader reads %s" % (wk, rk))
    vd = Y.fn("yrs::encoding::varint::write_var_i64")
    R.touch(vd)


def _bias(fn, op):
    out = set()
    adders = ("saturating_add", "wrapping_add", "checked_add") if op == "+" else ("saturating_sub", "wrapping_sub", "checked_sub")
    for n in hir_walk(fn.hir["body"]):
        if n.get("k") == "mcall" and n.get("name") in adders and n.get("args"):
            c = W.const_values(n["args"][0])
            if c and len(c) == 1 and c[0] in (1, 2):
                l = W.canon(n["recv"])
                if "count" in l or "read" in l:
                    out.add(c[0])
        if n.get("k") == "bin" and n.get("op") == op:
            c = W.const_values(n["r"])
            if c and len(c) == 1 and c[0] in (1, 2):
                l = W.canon(n["l"])
                if "count" in l or "read_var" in l or "read" in l:
                    out.add(c[0])
    return out


# ---------------------------------------------------------------- packed words of the v2 run-length columns
def _bins(term, *ops):
    return [t for t in walk(term) if t[0] == "bin" and t[1] in ops]


def _const(t):
    t = simp(t)
    return t[1] if t[0] == "const" and isinstance(t[1], int) and not isinstance(t[1], bool) else None


def _calls(term, *names):
    return [t for t in walk(term) if t[0] == "call" and any(re.search(n, t[1]) for n in names)]


def _field_writes_terms(fn, suffix):
    v = FnView(fn)
    out = []
    for i, j, st in fn.stmts():
        d = st["dst"]
        if isinstance(d, dict) and d["p"] and isinstance(d["p"][-1], str) and d["p"][-1].endswith(suffix):
            out.append((st, v.terms.rvalue(st["rv"], 20)))
    return out


def rule_packed(R, ctx, rid="C09.packed"):
    Y = ctx.yrs
    R.rule(rid, "R-TABLE inverse operators of packed words: the v2 diff column packs `diff << k | has_count` and its reader unpacks "
                "with the inverse operators on the same k (arithmetic `>> k` of the signed word — a signed division rounds the other "
                "way for negative odd words — and `& (2^k - 1)` for the flag); the running value is rebuilt with the inverse of the "
                "writer's difference (sub/add); the unsigned run column negates on write and on read")
    enc = "yrs::updates::encoder::"
    dec = "yrs::updates::decoder::"
    # ---- IntDiffOptRle
    wf = Y.fn(enc + "IntDiffOptRleEncoder::flush")
    ww = Y.fn(enc + "IntDiffOptRleEncoder::write_u32")
    rf = Y.fn(dec + "IntDiffOptRleDecoder::read_u32")
    wv = FnView(wf)
    words = [wv.arg(cs, 1, 20) for cs in wf.calls() if re.search(r"::write_var(_signed)?$", F.strip_generics(cs.name)) and len(cs.args) > 1]
    def _plain_field(t, suffix):
        t = simp_deep(t)
        while isinstance(t, tuple) and t and t[0] in ("cast", "as", "copy", "deref", "ref") and isinstance(t[-1], tuple):
            t = simp_deep(t[-1])
        return isinstance(t, tuple) and t and t[0] == "field" and t[1].endswith(suffix)
    # the shifted operand is the signed diff itself — two's complement keeps the flag in bit 0 for negative diffs too; a sign +
    # magnitude packing (|diff| << 1 | flag, negated afterwards) writes -(2m + 1) where the reader expects -2m + 1
    shl = [b for w in words for b in _bins(w, "Shl") if _plain_field(b[2], "IntDiffOptRleEncoder.diff")]
    k = _const(shl[0][3]) if shl else None
    R.ob(rid, wf, "pack:diff", k is not None, "writer packs the diff shifted left by %s" % k if k is not None else
         "no `self.diff << const` in a written word: %s" % [sshow(w, 8) for w in words])
    if k is not None:
        ors = [b for w in words for b in _bins(w, "BitOr") if shl[0] in list(walk(b))]
        flags = []
        for b in ors:
            other = b[3] if shl[0] in list(walk(b[2])) else b[2]
            flags += [c for c in (_const(x) for x in walk(other)) if c is not None]
        R.ob(rid, wf, "pack:flag", bool(flags) and all(0 <= c < (1 << k) for c in flags),
             "flag values %s fit below bit %d" % (sorted(set(flags)), k))

        def _strip_casts(t):
            t = simp_deep(t)
            while isinstance(t, tuple) and t and t[0] in ("cast", "as", "copy") and isinstance(t[-1], tuple):
                t = simp_deep(t[-1])
            return t
        whole = [w for w in words if ors and _strip_casts(w) in [simp_deep(o) for o in ors]]
        R.ob(rid, wf, "pack:word", bool(whole), "the packed word is written as it is" if whole else
             "the word handed to write_var is not the packed `diff << %d | flag` itself (negated, selected or re-packed afterwards): %s" %
             (k, [sshow(w, 8) for w in words][:2]))
        dws = _field_writes_terms(rf, "IntDiffOptRleDecoder.diff")
        R.floor(rid, "reader writes of IntDiffOptRleDecoder.diff", len(dws), 1)
        for n, (st, t) in enumerate(dws):
            t2 = simp_deep(t)
            ok = False
            why = sshow(t2, 8)
            if t2[0] == "bin" and t2[1] == "Shr" and _const(t2[3]) == k and _calls(t2[2], r"::read_var(_signed)?$"):
                ok = True
            elif t2[0] == "bin" and t2[1] == "Div" and _const(t2[3]) == (1 << k) and str(st["rv"].get("ty", "")).startswith("u"):
                ok = True  # unsigned division by 2^k is the same function as the shift
            R.ob(rid, rf, "unpack:diff#%d" % n, ok,
                 ("reader unpacks the diff as %s" % why) if ok else
                 "reader computes the diff as %s, which is not the inverse of the writer's `diff << %d` on signed words "
                 "(expected an arithmetic shift right by %d of the value read)" % (why, k, k), "%s:%s" % (rf.file, st["line"]))
        masks = []
        for i, j, st in rf.stmts():
            rv = st["rv"]
            if rv.get("bin") == "BitAnd":
                for o in (rv["a"], rv["b"]):
                    c = const_of_op(o)
                    if c is not None:
                        masks.append(c)
        R.ob(rid, rf, "unpack:flag", (1 << k) - 1 in masks, "reader masks the flag with %s (expected %d)" % (masks, (1 << k) - 1))
    # running value: writer difference / reader sum
    wd = [t for _, t in _field_writes_terms(ww, "IntDiffOptRleEncoder.diff")]
    sub_ok = any((_bins(t, "Sub", "SubWithOverflow") or _calls(t, r"wrapping_sub$")) and term_has_field(t, "IntDiffOptRleEncoder.last") for t in wd)
    R.ob(rid, ww, "delta:sub", sub_ok, "writer stores value - last: %s" % [sshow(t, 6) for t in wd])
    rl = [t for _, t in _field_writes_terms(rf, "IntDiffOptRleDecoder.last")]
    add_ok = bool(rl) and all((_bins(t, "Add", "AddWithOverflow") or _calls(t, r"wrapping_add$")) and term_has_field(t, "IntDiffOptRleDecoder.last")
                              and term_has_field(t, "IntDiffOptRleDecoder.diff") for t in rl)
    R.ob(rid, rf, "delta:add", add_ok, "reader rebuilds last + diff: %s" % [sshow(t, 6) for t in rl])
    # ---- UIntOptRle: run marker is the negated value
    uw = Y.fn(enc + "UIntOptRleEncoder::flush")
    ur = Y.fn(dec + "UIntOptRleDecoder::read_u64")
    uv = FnView(uw)
    uwords = [(F.strip_generics(cs.name), uv.arg(cs, 1, 20)) for cs in uw.calls() if re.search(r"::write_var(_signed)?$", F.strip_generics(cs.name)) and len(cs.args) > 1]
    neg_w = any(nm.endswith("write_var_signed") and ([x for x in walk(t) if x[0] == "un" and x[1] == "Neg"] or _calls(t, r"wrapping_neg$"))
                and term_has_field(t, "UIntOptRleEncoder.last") for nm, t in uwords)
    R.ob(rid, uw, "run:neg", neg_w, "writer marks a run by writing the negated value as a signed var-int: %s" % [sshow(t, 6) for _, t in uwords])
    ul = [t for _, t in _field_writes_terms(ur, "UIntOptRleDecoder.last")]
    neg_r = any(([x for x in walk(t) if x[0] == "un" and x[1] == "Neg"] or _calls(t, r"wrapping_neg$")) and _calls(t, r"read_var_signed$") for t in ul)
    plain_r = any(not ([x for x in walk(t) if x[0] == "un" and x[1] == "Neg"] or _calls(t, r"wrapping_neg$")) and _calls(t, r"read_var_signed$") for t in ul)
    R.ob(rid, ur, "run:neg", neg_r and plain_r, "reader negates the value of a run marker and takes a single value as is: %s" % [sshow(t, 6) for t in ul])


def const_of_op(op):
    if isinstance(op, dict) and isinstance(op.get("k"), int) and not isinstance(op.get("k"), bool):
        return op["k"]
    return None


def _addlike(t, fld):
    """sub-terms that add something to the field `fld`: (other operand, whole)."""
    out = []
    for x in walk(t):
        a = b = None
        if x[0] == "bin" and x[1] in ("Add", "AddWithOverflow"):
            a, b = x[2], x[3]
        elif x[0] == "call" and re.search(r"::(checked_add|wrapping_add|saturating_add)$", x[1]) and len(x[2]) == 2:
            a, b = x[2]
        if a is None:
            continue
        for p, q in ((a, b), (b, a)):
            ps = simp_deep(p)
            if ps[0] == "field" and ps[1].endswith(fld):
                out.append((q, x))
    return out


def rule_ds_running(R, ctx, rid="C09.packed"):
    """running value of the v2 delete-set column."""
    Y = ctx.yrs
    E = "<yrs::updates::encoder::EncoderV2 as yrs::updates::encoder::Encoder>::"
    D = "<yrs::updates::decoder::DecoderV2 as yrs::updates::decoder::Decoder>::"
    wc, wl, rc, rl = (Y.fn(E + "write_ds_clock"), Y.fn(E + "write_ds_len"), Y.fn(D + "read_ds_clock"), Y.fn(D + "read_ds_len"))

    def written(fn):
        v = FnView(fn)
        return [simp_deep(v.arg(cs, 1, 20)) for cs in fn.calls() if re.search(r"::write_var$", F.strip_generics(cs.name)) and len(cs.args) > 1]

    def is_param(t, name, fn):
        t = simp_deep(t)
        return t[0] == "param" and fn.local_name(t[1]) == name

    # writer clock: emits clock - cur, then cur := clock
    w = written(wc)
    subs = [b for t in w for b in _bins(t, "Sub", "SubWithOverflow") if is_param(b[2], "clock", wc) and term_has_field(b[3], "EncoderV2.ds_curr_val")]
    cur = [t for _, t in _field_writes_terms(wc, "EncoderV2.ds_curr_val")]
    R.ob(rid, wc, "ds:clock-delta", bool(subs) and len(cur) == 1 and is_param(cur[0], "clock", wc),
         "writes clock - ds_curr_val and stores ds_curr_val := clock (written %s; stored %s)" % ([sshow(t, 6) for t in w], [sshow(t, 6) for t in cur]))
    # reader clock: cur := cur + read, returns cur
    cur = [t for _, t in _field_writes_terms(rc, "DecoderV2.ds_curr_val")]
    ok = len(cur) == 1 and any(_calls(q, r"::read_var$") for q, _ in _addlike(cur[0], "DecoderV2.ds_curr_val"))
    rv = FnView(rc).terms.local(0, 20)
    oks = [x for x in walk(rv) if x[0] == "agg" and x[1].endswith("Result::Ok")]
    ret_cur = bool(oks) and all(simp_deep(x[2][0])[0] == "field" and simp_deep(x[2][0])[1].endswith("DecoderV2.ds_curr_val") for x in oks)
    R.ob(rid, rc, "ds:clock-sum", ok and ret_cur, "ds_curr_val := ds_curr_val + read (%s) and the sum is returned (%s)" % (ok, ret_cur))
    # writer len: emits len - 1, cur += len
    w = written(wl)
    m1 = [b for t in w for b in _bins(t, "Sub", "SubWithOverflow") if is_param(b[2], "len", wl) and _const(b[3]) == 1]
    cur = [t for _, t in _field_writes_terms(wl, "EncoderV2.ds_curr_val")]
    adv = len(cur) == 1 and any(is_param(q, "len", wl) for q, _ in _addlike(cur[0], "EncoderV2.ds_curr_val"))
    R.ob(rid, wl, "ds:len-bias", bool(m1) and adv, "writes len - 1 (%s) and advances ds_curr_val by len (%s)" % (bool(m1), adv))
    # reader len: value = read + 1, cur += value, returns value
    cur = [t for _, t in _field_writes_terms(rl, "DecoderV2.ds_curr_val")]
    plus1 = []
    if len(cur) == 1:
        for q, _ in _addlike(cur[0], "DecoderV2.ds_curr_val"):
            for x in walk(q):
                if x[0] == "call" and re.search(r"::(checked_add|wrapping_add|saturating_add)$", x[1]) and _const(x[2][1]) == 1 and _calls(x[2][0], r"::read_var$"):
                    plus1.append(x)
                if x[0] == "bin" and x[1] in ("Add", "AddWithOverflow") and _const(x[3]) == 1 and _calls(x[2], r"::read_var$"):
                    plus1.append(x)
    rv = FnView(rl).terms.local(0, 20)
    oks = [x for x in walk(rv) if x[0] == "agg" and x[1].endswith("Result::Ok")]

    def is_plus1(t):
        return any((x[0] == "call" and re.search(r"::(checked_add|wrapping_add|saturating_add)$", x[1]) and _const(x[2][1]) == 1) or
                   (x[0] == "bin" and x[1] in ("Add", "AddWithOverflow") and _const(x[3]) == 1) for x in walk(t)) and \
            not term_has_field(t, "DecoderV2.ds_curr_val")
    ret_ok = bool(oks) and all(is_plus1(x[2][0]) for x in oks)
    R.ob(rid, rl, "ds:len-unbias", bool(plus1) and ret_ok,
         "len = read + 1 (%s), ds_curr_val advances by it (%s), and it is what is returned (%s)" % (bool(plus1), bool(plus1), ret_ok))


def rule_dict(R, ctx, rid="C09.dict"):
    """dictionary back-references of the attributed id-map codec."""
    Y = ctx.yrs
    R.rule(rid, "R-PROV dictionary ids: in the attributed id-map writer every dictionary (`visited_*` map) assigns a new entry the "
                "dictionary's own size at that moment — `m.insert(key, m.len())` with the same map on both sides — and writes that "
                "same number; the reader numbers entries by their order of first appearance (`id >= vec.len()` means a new entry "
                "follows), so an id taken from another dictionary's counter makes later back-references point at the wrong entry "
                "or be read as `new entry follows`")
    fns = [f for p, f in Y.fns.items() if re.search(r"IdMap<A> as yrs::updates::encoder::Encode>::encode$", p) and f.mir]
    if not fns:
        raise AnchorLost("<IdMap<A> as Encode>::encode")
    fn = fns[0]
    v = FnView(fn)
    ins = [c for c in fn.calls() if re.search(r"HashMap(<.*>)?::insert$", c.name) and len(c.args) == 3]
    R.floor(rid, "dictionary insertions in IdMap::encode", len(ins), 2)
    for cs, site in ordinal_sites(ins):
        m = mir_root(fn, cs.args[0])
        d = mir_def(fn, cs.args[2])
        src = None
        if d and d[0] == "call" and re.search(r"HashMap(<.*>)?::len$", d[1].name) and d[1].args:
            src = mir_root(fn, d[1].args[0])
        ok = src is not None and src == m
        # the same number is what gets written
        wrote = False
        idroot = mir_root(fn, cs.args[2])
        for c2 in fn.calls():
            if re.search(r"::write_var$", F.strip_generics(c2.name)) and len(c2.args) == 2:
                dd = mir_def(fn, c2.args[1])
                if dd and dd[0] == "stmt" and "cast" in dd[1] and mir_root(fn, dd[1]["cast"]) == idroot:
                    wrote = True
                if mir_root(fn, c2.args[1]) == idroot:
                    wrote = True
        R.ob(rid, fn, site, ok and wrote,
             "new entry id = this dictionary's len(), and that id is written" if ok and wrote else
             "the id stored for a new dictionary entry is %s (from this dictionary's own len(): %s; written: %s)" %
             (sshow(v.arg(cs, 2, 8), 5), ok, wrote), cs.loc())
    # reader: a new entry is recognised by id >= len of the matching vector, and pushed onto that same vector
    dfns = [f for p, f in Y.fns.items() if re.search(r"IdMap<A> as yrs::updates::decoder::Decode>::decode$", p) and f.mir]
    if dfns:
        dfn = dfns[0]
        dv = FnView(dfn)
        pushes = [c for c in dfn.calls() if re.search(r"Vec(<.*>)?::push$", c.name) and len(c.args) == 2]
        n = 0
        for cs, site in ordinal_sites(pushes):
            vec = mir_root(dfn, cs.args[0])
            if "visited" not in str(dfn.local_name(vec[1]) if vec[0] == "local" else ""):
                continue
            n += 1
            calls_by_bb = {x.bb: x for x in dfn.calls()}
            guarded = False
            for l in dv.guards(cs.bb):
                t = l.term
                if t[0] == "bin" and t[1] in ("Ge", "Lt", "Eq", "Gt", "Le"):
                    for x in walk(t):
                        if x[0] == "call" and re.search(r"Vec(<.*>)?::len$", x[1]) and len(x) > 3 and x[3] in calls_by_bb and \
                                mir_root(dfn, calls_by_bb[x[3]].args[0]) == vec:
                            guarded = True
            R.ob(rid, dfn, "reader:" + site, guarded, "a new entry is pushed onto the vector whose length recognised it as new: %s" % guarded, cs.loc())
        R.floor(rid, "dictionary pushes in IdMap::decode", n, 2)


def rule_json(R, ctx, rid="C09.json"):
    """the JSON column of v1 (embeds, format values, legacy JSON content) is written by the serializer alone."""
    from .accessors import _canon
    Y = ctx.yrs
    R.rule(rid, "R-OWN the v1 JSON text of an Any (format values, embeds): EncoderV1::write_json hands to write_string a buffer that "
                "Any::to_json(any, buf) fills on every path and nothing else writes (no push / push_str / write! on it: escaping of "
                "quotes, backslashes and control characters is the serializer's); DecoderV1::read_json answers Any::from_json of the "
                "string it read; the v2 pair is write_any / Any::decode")
    w = Y.fn("<yrs::updates::encoder::EncoderV1 as yrs::updates::encoder::Encoder>::write_json")
    v = FnView(w)
    cfg = w.cfg()
    tj = w.calls_to("yrs::any::Any::to_json")
    ws = w.calls_to("yrs::encoding::write::Write::write_string")
    ok = len(tj) == 1 and len(ws) == 1 and cfg.postdominates(tj[0].bb, 0) and cfg.dominates(tj[0].bb, ws[0].bb) \
        and _canon(v.arg(tj[0], 0, 8)) == "any"
    R.ob(rid, w, "serializer-on-every-path", ok, "Any::to_json(any, buf) runs on every path before write_string: %s" % ok,
         tj[0].loc() if tj else None)
    if tj and ws:
        buf = mir_root(w, tj[0].args[1])
        others = []
        for cs in w.calls():
            nm = F.strip_generics(cs.name)
            if cs.bb in (tj[0].bb,) or not cs.args:
                continue
            if re.search(r"String::(push|push_str|insert|insert_str|extend|truncate|clear)$|fmt::Write>::write_(str|fmt|char)$|::extend$", nm) \
                    and mir_root(w, cs.args[0]) == buf:
                others.append("%s at %s" % (nm.rsplit("::", 2)[-2] + "::" + nm.rsplit("::", 1)[-1], cs.loc()))
        sent = mir_root(w, ws[0].args[1])
        via = [c for c in w.calls_to("re:String::as_str$", "re:Deref>::deref$") if mir_root(w, c.args[0]) == buf]
        R.ob(rid, w, "sole-writer", not others, "no other writer of the buffer" if not others else "the buffer is also written by %s" % others)
        R.ob(rid, w, "sends-that-buffer", bool(via) and _canon(v.arg(ws[0], 1, 8)).startswith("String::as_str(") or bool(via),
             "write_string(%s)" % _canon(v.arg(ws[0], 1, 8)))
    r = Y.fn("<yrs::updates::decoder::DecoderV1 as yrs::updates::decoder::Decoder>::read_json")
    rv = FnView(r)
    ans = simp_deep(rv.terms.local(0, 12))
    alts = list(ans[1]) if ans[0] == "phi" else [ans]
    good = [a for a in alts if simp_deep(a)[0] == "call" and F.strip_generics(simp_deep(a)[1]).endswith("Any::from_json")
            and term_has_call(a, "yrs::encoding::read::Read::read_string")]
    rest = [a for a in alts if a not in good and not (simp_deep(a)[0] == "call" and "from_residual" in simp_deep(a)[1])]
    R.ob(rid, r, "answer", len(good) == 1 and not rest,
         "answers Any::from_json(read_string()) or the read error" if len(good) == 1 and not rest else
         "answers %s" % [sshow(a) for a in alts])
    w2 = Y.fn("<yrs::updates::encoder::EncoderV2 as yrs::updates::encoder::Encoder>::write_json")
    v2 = FnView(w2)
    wa = w2.calls_to("re:Encoder>::write_any$")
    R.ob(rid, w2, "v2-writes-any", len(wa) == 1 and w2.cfg().postdominates(wa[0].bb, 0) and _canon(v2.arg(wa[0], 1, 8)) == "any",
         "EncoderV2::write_json = write_any(any)")
    r2 = Y.fn("<yrs::updates::decoder::DecoderV2 as yrs::updates::decoder::Decoder>::read_json")
    single_answer(R, rid, r2, r"Any::decode$", "Any::decode(cursor)")


VARINT_PAIRS = [
    ("yrs::encoding::varint::write_var_u32", "yrs::encoding::varint::read_var_u32"),
    ("yrs::encoding::varint::write_var_u64", "yrs::encoding::varint::read_var_u64"),
    ("yrs::encoding::varint::write_var_i64", "yrs::encoding::varint::read_var_i64"),
    ("<i64 as yrs::encoding::varint::SignedVarInt>::write_signed", "<i64 as yrs::encoding::varint::SignedVarInt>::read_signed"),
    ("<u128 as yrs::encoding::varint::VarInt>::write", "<u128 as yrs::encoding::varint::VarInt>::read"),
]


def _bit_ops(fn):
    ops = []
    for i, j, st in fn.stmts():
        rv = st["rv"]
        if "bin" in rv and rv["bin"] in ("BitAnd", "Gt", "Ge", "Lt", "Shr", "ShrUnchecked"):
            ka, kb = mir_root(fn, rv["a"]), mir_root(fn, rv["b"])
            c = [k[1] for k in (ka, kb) if k[0] == "const" and isinstance(k[1], int)]
            if len(c) == 1:
                ops.append((rv["bin"].replace("Unchecked", ""), c[0], st.get("line")))
    return ops


def rule_varint(R, ctx, rid="C09.varint"):
    """bit layout of the lib0 var-ints: continuation flag, payload mask and shift agree inside each writer and with its reader."""
    Y = ctx.yrs
    R.rule(rid, "R-TABLE bit layout of the var-int codecs (every clock, length, client id and number goes through them): inside each "
                "writer a byte whose payload is `value & M` (M = 0x3f for the first byte of a signed number, 0x7f otherwise) sets "
                "the continuation bit exactly when bits remain — the test is `value > M` or `value >= M + 1`, nothing else — and the "
                "value is then shifted by log2(M + 1); the paired reader extracts its payload with the same masks. A threshold "
                "that is off by one (`>= M`) announces a byte that is never written and the reader swallows the next field")
    n = 0
    for wp, rp in VARINT_PAIRS:
        w, r = Y.fn(wp), Y.fn(rp)
        wo, ro = _bit_ops(w), _bit_ops(r)
        masks = sorted({c for op, c, _ in wo if op == "BitAnd" and c in (0x3f, 0x7f)})
        R.floor(rid, "payload masks in " + wp, len(masks), 1)
        bad = []
        for op, c, line in wo:
            if op == "Gt" and c > 0 and c not in masks and c not in (70, 180):
                bad.append("line %s: continuation test `> %d` matches no payload mask %s" % (line, c, masks))
            if op == "Ge" and c > 0 and (c - 1) not in masks:
                bad.append("line %s: continuation test `>= %d` matches no payload mask %s (expected mask + 1)" % (line, c, masks))
        for m in masks:
            n += 1
            if not any((op == "Gt" and c == m) or (op == "Ge" and c == m + 1) for op, c, _ in wo):
                bad.append("payload mask %#x has no continuation test `> %#x` / `>= %#x`" % (m, m, m + 1))
            if not any(op == "Shr" and (1 << c) == m + 1 for op, c, _ in wo):
                bad.append("payload mask %#x is not followed by a shift by %d" % (m, (m + 1).bit_length() - 1))
        R.ob(rid, w, "layout", not bad, "masks %s, thresholds and shifts agree" % [hex(m) for m in masks] if not bad else "; ".join(bad))
        rmasks = sorted({c for op, c, _ in ro if op == "BitAnd" and c in (0x3f, 0x7f)})
        R.ob(rid, r, "reader-masks", rmasks == masks, "reader payload masks %s = writer's" % [hex(m) for m in rmasks] if rmasks == masks else
             "reader payload masks %s differ from the writer's %s" % ([hex(m) for m in rmasks], [hex(m) for m in masks]))
        cont = any((op == "Lt" and c == 0x80) or (op == "BitAnd" and c == 0x80) for op, c, _ in ro)
        R.ob(rid, r, "reader-continuation", cont, "the reader stops on a byte below 0x80 / with bit 0x80 clear: %s" % cont)
    R.floor(rid, "payload masks checked", n, 7)
