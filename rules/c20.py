"""C20 — quotations and links: flag/index pairing, links follow splits, unlink on delete, dependency checks."""
import re
from ylib import facts as F
from .common import *  # noqa

TXN = "yrs::transaction::TransactionMut"
LINKED_BY = "Store.linked_by"


def touches_linked_by(v, cs, idx=0):
    return term_has_field(v.arg(cs, idx), LINKED_BY)


def rule_a(R, ctx):
    Y = ctx.yrs
    R.rule("C20.a", "R-PAIR flag ↔ reverse index: every ItemFlags::set_linked site is in a function that inserts the same item into "
                    "Store.linked_by on the same path (entry().or_default().insert / insert), every clear_linked site in a function that "
                    "removes it; LinkSource::materialize links every item of the quoted range it visits")
    n = 0
    for root, css in sorted(callers_of(Y, "yrs::block::ItemFlags::set_linked").items()):
        for cs, site in ordinal_sites(css):
            fn = cs.fn
            v = FnView(fn)
            n += 1
            cfg = fn.cfg()
            adds = [c for c in fn.calls_to("re:^std::collections::HashMap::(entry|insert)$") if touches_linked_by(v, c)]
            # an insertion that the flag-setting dominates and that is unconditional afterwards (post-dominates it)
            paired = [c for c in adds if cfg.dominates(cs.bb, c.bb) and cfg.postdominates(c.bb, cs.bb)]
            moved = [c for c in adds if cfg.dominates(cs.bb, c.bb) and
                     all(term_has_call(l.term, "re:^std::collections::HashMap::remove$") and term_has_field(l.term, LINKED_BY) and l.polarity == "Some"
                         for l in v.guards(c.bb) if l.desc not in {x.desc for x in v.guards(cs.bb)})]
            if paired:
                R.ob("C20.a", fn, site, True, "set_linked is followed on every path by a linked_by insertion for the item", cs.loc())
            elif moved:
                R.ob("C20.a", fn, site, True, "set_linked with the entry moved from the overridden item (insert conditional only on "
                     "linked_by.remove(old) being Some)", cs.loc())
            elif root == "yrs::types::weak::join_linked_range":
                cond = [c for c in adds if cfg.dominates(cs.bb, c.bb)]
                R.inventory("C20.a", fn, site, "join_linked_range sets LINKED before it knows the set of common links is non-empty "
                            "(flag without entry when it is empty): blocks squashing of that item, reads stay right — inventory, no "
                            "behavioural consequence for the property shown; conditional insertions: %d" % len(cond), cs.loc())
            else:
                R.ob("C20.a", fn, site, False, "set_linked without a linked_by insertion on every following path (insertions found: %d)" % len(adds), cs.loc())
    R.floor("C20.a", "set_linked call sites", n, 4)
    m = 0
    for root, css in sorted(callers_of(Y, "yrs::block::ItemFlags::clear_linked").items()):
        for cs, site in ordinal_sites(css):
            fn = cs.fn
            v = FnView(fn)
            m += 1
            cfg = fn.cfg()
            rms = [c for c in fn.calls_to("re:^std::collections::HashMap::remove$") if touches_linked_by(v, c)]
            ok = any(cfg.dominates(c.bb, cs.bb) or (cfg.dominates(cs.bb, c.bb) and cfg.postdominates(c.bb, cs.bb)) for c in rms)
            R.ob("C20.a", fn, site, ok, "clear_linked is paired with linked_by.remove of the item: %s" % ok, cs.loc())
    R.floor("C20.a", "clear_linked call sites", m, 2)


SPLITTERS = ("yrs::block::ItemPtr::splice", "yrs::block_store::BlockStore::split_block", "yrs::block_store::BlockStore::split_block_inner")
# functions whose job is the split itself (no access to Store.linked_by): their callers carry the obligation
SPLIT_FORWARDERS = {"yrs::block_store::BlockStore::split_block", "yrs::block_store::BlockStore::split_block_inner"}
# split sites on items that cannot be linked: reason
UNLINKED_SPLITS = {
    "yrs::block::Block::splice": "used by Update::merge_updates on blocks of decoded updates that were never integrated "
                                 "(Store.linked_by only ever holds integrated items)",
}


def rule_b(R, ctx):
    Y = ctx.yrs
    R.rule("C20.b", "R-PAIR links follow splits: every call site that splits an item which may be linked (ItemPtr::splice, "
                    "BlockStore::split_block / split_block_inner; the two BlockStore functions only forward) copies the item's "
                    "Store.linked_by entry to the new right half in the same function — a lookup of the split item in linked_by whose "
                    "result is inserted under the new half, reachable from the split")
    n = 0
    for root, css in sorted(callers_of(Y, *SPLITTERS).items()):
        if root in SPLIT_FORWARDERS:
            continue
        if root in UNLINKED_SPLITS:
            for cs, site in ordinal_sites(css):
                R.inventory("C20.b", cs.fn, site, "accepted exception: " + UNLINKED_SPLITS[root], cs.loc())
            continue
        for cs, site in ordinal_sites(css):
            fn = cs.fn
            v = FnView(fn)
            n += 1
            cfg = fn.cfg()
            rfn = Y.fns[root]
            fns = Y.with_closures(rfn)
            lookups = []
            inserts = []
            for f2 in fns:
                v2 = FnView(f2)
                for c in f2.calls_to("re:^std::collections::HashMap::get$"):
                    if touches_linked_by(v2, c):
                        lookups.append(c)
                for c in f2.calls_to("re:^std::collections::HashMap::(insert|entry)$"):
                    if touches_linked_by(v2, c):
                        inserts.append(c)
            after = [c for c in inserts if c.fn is fn and c.bb in cfg.reachable_from(cs.bb)]
            ok = bool(lookups) and bool(after)
            if ok:
                # the looked-up link set must still be whole when it is copied: the local that holds it is never borrowed
                # mutably (Option::take / mem::take between two splits would leave the second half without links)
                holders = set()
                for c in lookups:
                    if c.fn is not fn:
                        continue
                    # follow the result of get(..) through cloned()/copied() to the local it is stored in
                    cur = c.dest if isinstance(c.dest, int) else None
                    for _ in range(4):
                        if cur is None:
                            break
                        nxt = None
                        for c2 in fn.calls():
                            if c2.args and mir_root(fn, c2.args[0]) == ("local", cur) and re.search(r"Option(<.*>)?::(cloned|copied|clone)$", c2.name):
                                nxt = c2.dest if isinstance(c2.dest, int) else None
                        for i2, j2, st2 in fn.stmts():
                            if isinstance(st2["dst"], int) and isinstance(st2["rv"].get("use"), dict) and \
                                    st2["rv"]["use"].get("m", st2["rv"]["use"].get("c")) == cur:
                                holders.add(st2["dst"])
                        holders.add(cur)
                        cur = nxt
                taken = [(i2, st2["line"]) for i2, j2, st2 in fn.stmts() if "ref" in st2["rv"] and st2["rv"].get("mut") and
                         isinstance(st2["rv"]["ref"], int) and st2["rv"]["ref"] in holders and fn.local_name(st2["rv"]["ref"])]
                if taken:
                    ok = False
                    R.ob("C20.b", fn, site + ":source-intact", False,
                         "the link set looked up for the split item is borrowed mutably (line %s) — taken or emptied — before every "
                         "copy has been made: a half created by a later split keeps the LINKED flag but gets no linked_by entry" % taken[0][1], cs.loc())
                    continue
            R.ob("C20.b", fn, site, ok,
                 ("links copied to the new half (lookups %d, insertions after the split %d)" % (len(lookups), len(after))) if ok else
                 "the item is split but its Store.linked_by entry is not copied to the new right half: the right half keeps the LINKED "
                 "flag with no entry, join_linked_range then sees no links on that side and quotations are not notified of later edits there",
                 cs.loc())
    R.floor("C20.b", "split call sites", n, 9)


def rule_c(R, ctx):
    Y = ctx.yrs
    fn = Y.fn(TXN + "::delete")
    v = FnView(fn)
    R.rule("C20.c", "R-PAIR unlink on delete: deleting an item whose content is a WeakLink type calls LinkSource::unlink_all; deleting a "
                    "linked item removes its Store.linked_by entry and records a change for every link; LinkSource::unlink_all reaches "
                    "TransactionMut::unlink for the quoted items; unlink prunes the entry and clears the flag only when the last link goes")
    ua = fn.calls_to("yrs::types::weak::LinkSource::unlink_all")
    R.floor("C20.c", "unlink_all in delete", len(ua), 1)
    for cs, site in ordinal_sites(ua):
        ok = v.has_guard(cs.bb, lambda l: l.polarity == "WeakLink") and v.has_guard(cs.bb, lambda l: l.polarity == "Type")
        R.ob("C20.c", fn, site, ok, "guards: %s" % v.guard_descs(cs.bb)[-2:], cs.loc())
    rm = [c for c in fn.calls_to("re:^std::collections::HashMap::remove$") if touches_linked_by(v, c)]
    R.floor("C20.c", "linked_by.remove in delete", len(rm), 1)
    for cs, site in ordinal_sites(rm):
        ok = v.has_guard(cs.bb, lambda l: lit_call(l, "yrs::block::ItemFlags::is_linked", True))
        act = [c for c in fn.calls_to(TXN + "::add_changed_type") if term_has_call(v.arg(c, 1), "re:^std::collections::HashMap::remove$")]
        R.ob("C20.c", fn, site, ok and bool(act), "under is_linked(); each removed link is recorded as changed: %s" % bool(act), cs.loc())
    un = Y.fn(TXN + "::unlink")
    uv = FnView(un)
    cl = un.calls_to("yrs::block::ItemFlags::clear_linked")
    rm2 = [c for c in un.calls_to("re:^std::collections::HashMap::remove$") if touches_linked_by(uv, c)]
    ok = len(cl) == 1 and len(rm2) == 1
    if ok:
        from ylib.formula import Formulas, fshow, atoms_of
        fm = Formulas(un, simp_deep)
        f = fm.reach(cl[0].bb)
        txt = fshow(f)
        ok = "HashSet::remove" in txt and "is_empty" in txt
        R.ob("C20.c", un, "prune-when-last", ok, "clear_linked reached iff %s" % txt)
    else:
        R.ob("C20.c", un, "prune-when-last", False, "clear_linked ×%d, linked_by.remove ×%d" % (len(cl), len(rm2)))
    ul = Y.fn("yrs::types::weak::LinkSource::unlink_all")
    ok = bool(ul.calls_to(TXN + "::unlink")) or any(c.calls_to(TXN + "::unlink") for c in Y.with_closures(ul))
    R.ob("C20.c", ul, "reaches-unlink", ok, "unlink_all calls TransactionMut::unlink: %s" % ok)


def rule_e(R, ctx):
    Y = ctx.yrs
    fn = Y.fn("yrs::update::Update::missing_dependency")
    v = FnView(fn)
    R.rule("C20.e", "R-PAIR: before an item holding a weak link integrates, Update::missing_dependency tests both quoted boundary ids "
                    "(quote_start.id() and quote_end.id()) with BlockStore::is_missing")
    im = fn.calls_to("yrs::block_store::BlockStore::is_missing")
    got = set()
    for cs in im:
        a = v.arg(cs, 1)
        if term_has_field(a, "LinkSource.quote_start"):
            got.add("quote_start")
        if term_has_field(a, "LinkSource.quote_end"):
            got.add("quote_end")
    R.ob("C20.e", fn, "boundaries", got == {"quote_start", "quote_end"}, "is_missing tested on %s" % sorted(got))
    # and the other dependencies: origin, right_origin, parent
    deps = set()
    for cs in im:
        a = simp_deep(v.arg(cs, 1))
        fp = field_path(a)
        for k in ("origin", "right_origin"):
            if k in fp:
                deps.add(k)
        if term_has_field(a, "Item.parent") or term_has_call(a, "yrs::block::Item::id") or term_has_field(a, "Branch.item"):
            deps.add("parent")
    R.ob("C20.e", fn, "other-dependencies", {"origin", "right_origin", "parent"} <= deps, "is_missing also tested on %s" % sorted(deps))


def rule_f(R, ctx):
    Y = ctx.yrs
    fn = Y.fn("yrs::types::weak::Quotable::quote")
    v = FnView(fn)
    R.rule("C20.f", "R-PROV range -> boundary ids: Quotable::quote anchors both boundaries on element ids (item.id + "
                    "block_offset(remaining, store.offset_kind) for strings) of items that are !is_deleted() && is_countable()")
    rel = [(i, j, s) for i, j, s in fn.stmts() if "agg" in s["rv"] and s["rv"]["agg"].get("adt") == "yrs::sticky_index::IndexScope"
           and s["rv"]["agg"].get("variant") == "Relative"]
    R.floor("C20.f", "IndexScope::Relative boundaries in quote", len(rel), 2)
    for k, (i, j, s) in enumerate(rel):
        t = v.terms.operand(s["rv"]["ops"][0], 24)
        ok = term_has_field(t, "Item.id")
        R.ob("C20.f", fn, "boundary#%d" % k, ok, "boundary id = %s" % sshow(t, 5), "%s:%s" % (fn.file, s["line"]))
    bo = fn.calls_to("yrs::block::SplittableString::block_offset")
    ok = len(bo) >= 2 and all(any(x[0] == "field" and x[1].endswith("offset_kind") for x in walk(v.arg(c, 2))) for c in bo)
    R.ob("C20.f", fn, "string-offset-unit", ok, "block_offset(remaining, store.offset_kind) at %d site(s)" % len(bo))
    subs = [(i, j, s) for i, j, s in fn.stmts() if "bin" in s["rv"] and s["rv"]["bin"].startswith("Sub")
            and term_has_call(v.terms.operand(s["rv"]["b"]), "yrs::block::Item::content_len")]
    okg = bool(subs) and all(any(lit_call(l, "yrs::block::Item::is_deleted", False) for l in v.guards(i)) and
                             any(lit_call(l, "yrs::block::Item::is_countable", True) for l in v.guards(i)) for i, j, s in subs)
    R.ob("C20.f", fn, "counts-live-countable", okg, "index walk counts only live countable items: %s (%d sites)" % (okg, len(subs)))


CLEAR_LINKED_OWNERS = {
    "yrs::block::Item::inherit_links": "a map entry is overridden: the links move to the new entry (clear on the old, set on the new)",
    "yrs::transaction::TransactionMut::unlink": "the last quotation referencing the item is removed",
}


def rule_g(R, ctx):
    Y = ctx.yrs
    R.rule("C20.g", "R-OWN tombstones stay linked: ItemFlags::clear_linked is called only where the quotations themselves go away "
                    "(unlink of the last link) or move on (inherit_links), under ownership closure — in particular not on the "
                    "deletion path of the quoted item: the LINKED flag of a deleted boundary block is what keeps try_squash from "
                    "merging it with a tombstone outside the range, after which the quotation's end is never matched")
    css = callers_of(Y, "yrs::block::ItemFlags::clear_linked")
    writers = sorted(css)
    bad = ownership_closed(Y, writers, CLEAR_LINKED_OWNERS)
    for w in writers:
        for cs, site in ordinal_sites(css[w]):
            R.ob("C20.g", cs.fn, site, w not in bad,
                 ("owner: " + CLEAR_LINKED_OWNERS.get(w, "helper reachable only from owners")) if w not in bad else
                 "clear_linked outside the owner table %s: a deleted item that quotations still reference loses the flag that "
                 "keeps it a block of its own" % sorted(CLEAR_LINKED_OWNERS), cs.loc())
    R.floor("C20.g", "clear_linked call sites", sum(len(v) for v in css.values()), 2)
    # and the squash precondition that relies on it
    from . import c03
    c03.rule_b(R, ctx, "C20.g.squash")


def rule_i(R, ctx):
    Y = ctx.yrs
    fn = Y.fn("yrs::types::weak::LinkSource::to_string")
    v = FnView(fn)
    R.rule("C20.i", "R-GUARD the end of a text quotation is tested on every item of the walk: in LinkSource::to_string both "
                    "end-of-range tests (`item.id == end` for an excluded end, `item.last_id() == end` for an included one) sit in "
                    "the loop and neither is control-dependent on the item's deletion flag or content kind — the boundary element "
                    "may be deleted or be a non-string element, and a walk that skips the test for it runs on to the end of the text")
    tests = []
    for cs in fn.calls():
        if not re.search(r"PartialEq(<.*>)?>?::eq$", cs.name) or len(cs.args) != 2:
            continue
        a0, a1 = simp_deep(v.arg(cs, 0, 12)), simp_deep(v.arg(cs, 1, 12))
        if not (term_has_call(a1, "yrs::sticky_index::StickyIndex::id") and term_has_field(a1, "quote_end") or
                term_has_call(a0, "yrs::sticky_index::StickyIndex::id") and term_has_field(a0, "quote_end")):
            continue
        tests.append((cs, a0 if term_has_call(a1, "yrs::sticky_index::StickyIndex::id") else a1))
    R.floor("C20.i", "end-of-range tests in LinkSource::to_string", len(tests), 2)
    kinds = set()
    for (cs, other), site in zip(tests, [s_ for _, s_ in ordinal_sites([t[0] for t in tests])]):
        kind = "last_id" if term_has_call(other, "yrs::block::Item::last_id") else ("id" if term_has_field(other, "Item.id") else "?")
        kinds.add(kind)
        bad = []
        for l in v.guards(cs.bb):
            t = simp(l.term)
            if term_has_call(t, "yrs::block::Item::is_deleted") or term_has_call(t, "re:ItemFlags::is_deleted$"):
                bad.append("deletion flag: " + l.desc[:80])
            elif not isinstance(l.polarity, bool) and isinstance(l.polarity, str) and l.polarity in ITEM_CONTENT_KINDS:
                bad.append("content kind: " + l.desc[:80])
            elif isinstance(l.polarity, tuple) and any(x in ITEM_CONTENT_KINDS for x in (l.polarity[1] if len(l.polarity) > 1 else [])):
                bad.append("content kind: " + l.desc[:80])
        inloop = fn.cfg().in_loop(cs.bb)
        R.ob("C20.i", fn, "end-test:" + kind, inloop and not bad,
             "the %s == end test is evaluated for every item of the walk" % kind if inloop and not bad else
             "the %s == end test is skipped for some items (in loop=%s; decided by %s)" % (kind, inloop, bad[:2]), cs.loc())
    R.ob("C20.i", fn, "both-ends", kinds >= {"id", "last_id"}, "tests for the excluded (id) and the included (last_id) end: %s" % sorted(kinds))


def rule_j(R, ctx):
    Y = ctx.yrs
    fn = Y.fn("yrs::types::text::DiffAssembler::process")
    v = FnView(fn)
    R.rule("C20.j", "R-SIB every kind of visible element honours both boundaries of a quoted XmlText range: in DiffAssembler::process "
                    "(behind LinkSource::to_xml_string / XmlTextRef::get_string_fragment) each content arm that emits into the result "
                    "— strings (push_str into the buffer) and embedded values / nested types (push of a Diff) — (1) emits only under "
                    "a comparison of the `range has started` state that the start test (`item.contains(start)`) maintains, and (2) "
                    "contains an end test (`item.contains(end)`) of its own; an arm without them emits elements that lie before the "
                    "start, or walks past an end that falls on its kind of element")
    cfg = fn.cfg()
    params = fn.sig.get("params", [])
    if "start" not in params or "end" not in params:
        raise AnchorLost("DiffAssembler::process no longer has start/end parameters: %s" % params)

    def mentions(t, pname):
        return any(x[0] == "param" and len(x) > 2 and x[2] == pname for x in walk(t))
    # the `started` state: locals stored under a `contains(item, start)` guard
    started = set()
    for i, j, st in fn.stmts():
        d = st["dst"]
        if isinstance(d, int) or (isinstance(d, dict) and not d.get("p")):
            l_ = d if isinstance(d, int) else d.get("l")
            if any(simp(g.term)[0] == "call" and simp(g.term)[1].endswith("Item::contains") and mentions(simp_deep(g.term), "start") and g.polarity is True for g in v.guards(i)):
                if str(fn.local_ty(l_)) in ("i32", "i64", "isize", "bool", "u32") and fn.local_name(l_):
                    started.add(l_)
    R.floor("C20.j", "locals that record `the range has started`", len(started), 1)

    def reads_started(term_bb_guard):
        sw = fn.blocks[term_bb_guard.bb]["t"].get("switch")
        sd = mir_def(fn, sw) if sw else None
        while sd and sd[0] == "stmt" and sd[1].get("un") == "Not":
            sd = mir_def(fn, sd[1].get("a"))
        if not (sd and sd[0] == "stmt" and "bin" in sd[1]):
            return False
        for o in (sd[1]["a"], sd[1]["b"]):
            r = mir_root(fn, o)
            if r[0] == "local" and r[1] in started:
                return True
        return False
    emits = [c for c in fn.calls() if (re.search(r"String::push_str$", c.name) or re.search(r"Vec(<.*>)?::push$", F.strip_generics(c.name))) and cfg.in_loop(c.bb)]
    R.floor("C20.j", "emitting calls inside the walk", len(emits), 3)
    arms = {}
    for cs, site in ordinal_sites(emits):
        ks, used = kinds_reaching(Y, fn, cs.bb)
        if not used or len(ks) > 3:
            continue
        arm = "|".join(sorted(ks))
        ok = any(reads_started(g) for g in v.guards(cs.bb))
        R.ob("C20.j", fn, "start:%s:%s" % (arm, site), ok,
             "%s: emitted only under a test of the started state" % arm if ok else
             "%s: emitted whatever the started state is — elements of this kind that lie before the start of the quoted range are "
             "part of the dereferenced string" % arm, cs.loc())
        arms.setdefault(arm, []).append(cs)
    R.floor("C20.j", "emitting content arms", len(arms), 2)
    ends = [c for c in fn.calls() if c.name.endswith("Item::contains") and len(c.args) == 2 and mentions(simp_deep(v.arg(c, 1, 12)), "end")]
    for arm, css in sorted(arms.items()):
        kinds = set(arm.split("|"))
        has = [c for c in ends if kinds_reaching(Y, fn, c.bb)[0] == kinds]
        R.ob("C20.j", fn, "end:" + arm, bool(has),
             "%s: the arm tests item.contains(end) itself (%d site(s))" % (arm, len(has)) if has else
             "%s: no end test in this arm — when the included end of the range is an element of this kind the walk continues to the "
             "end of the text" % arm, css[0].loc())


def rule_k(R, ctx, rid="C20.k"):
    import json as _json
    Y = ctx.yrs
    R.rule(rid, "R-GUARD cut before marking: LinkSource::materialize marks (set_linked + linked_by) a whole stored item only when "
                "the visited slice covers it — the read of `slice.ptr` sits under `slice.adjacent()` alone — and otherwise marks "
                "what Store::materialize(slice) cut out, under `!adjacent()` alone; live or deleted makes no difference (a "
                "tombstone that straddles a quotation boundary still has to be cut, or the link covers clocks outside the range "
                "and unquote / later edits treat the neighbouring text as quoted)")
    fn = Y.fn("yrs::types::weak::LinkSource::materialize")
    v = FnView(fn)
    reads = [(i, st) for i, j, st in fn.stmts() if "ItemSlice.ptr" in _json.dumps(st["rv"])]
    R.floor(rid, "whole-item reads of a slice in LinkSource::materialize", len(reads), 1)

    def adj(l, pol):
        return isinstance(l.term, tuple) and l.term[0] == "call" and l.term[1].endswith("ItemSlice::adjacent") and l.polarity is pol
    for k, (i, st) in enumerate(reads):
        ok = any(adj(l, True) for l in v.guards(i))
        R.ob(rid, fn, "whole-item#%d" % k, ok, "slice.ptr is used as the item only under adjacent(): %s" % ok +
             ("" if ok else " — guards %s" % [l.desc for l in v.guards(i)][-2:]))
    cuts = fn.calls_to("yrs::store::Store::materialize")
    R.floor(rid, "Store::materialize calls in LinkSource::materialize", len(cuts), 1)
    sl = [l for l in v.lits if isinstance(l.term, tuple) and l.term[0] == "call" and l.term[1].endswith("ItemSlice::adjacent")]
    for cs, site in ordinal_sites(cuts):
        g = v.guards(cs.bb)
        ok = any(adj(l, False) for l in g)
        # nothing but the loop's own conditions and adjacent() decides between cutting and not cutting
        after = [l for l in g if sl and F.CFG(fn).dominates(sl[0].bb, l.bb) and l.bb != sl[0].bb] if sl else []
        R.ob(rid, fn, site, ok and not after,
             "every slice that is not adjacent is cut" if ok and not after else
             "the cut is also conditioned on %s" % [l.desc for l in after] if ok else "the cut is not under !adjacent()", cs.loc())


def rule_l(R, ctx, rid="C20.l"):
    from ylib.formula import Formulas, truth_check, fshow, atoms_of, f_or
    Y = ctx.yrs
    R.rule(rid, "R-GUARD decision table of join_linked_range (which quotations a newly integrated item joins): a link L of the LEFT "
                "neighbour is taken iff the right neighbour carries L too, or L is a weak link whose END boundary association is the "
                "tested one (open right edge) — whatever other links the right neighbour carries; a link L of the RIGHT neighbour is "
                "taken iff the left neighbour does not carry it, L is a weak link whose START association is the tested one, and its "
                "start id is the last id of the item's left neighbour — truth tables over the union of the path formulas of the "
                "insertions into the common set, per loop")
    fn = Y.fn("yrs::types::weak::join_linked_range")
    v = FnView(fn)
    fm = Formulas(fn, simp_deep)

    def side(t):
        for x in walk(t):
            if isinstance(x, tuple) and x:
                if x[0] == "field" and x[1].endswith("Item.left"):
                    return "L"
                if x[0] == "field" and x[1].endswith("Item.right"):
                    return "R"
                if x[0] in ("local", "param") and len(x) > 2 and x[2] in ("left", "right"):
                    return "L" if x[2] == "left" else "R"
        return None

    def classify(k, t):
        if not isinstance(t, tuple):
            return None
        t = simp_deep(t)
        if t[0] == "call":
            nm = F.strip_generics(t[1])
            if nm.endswith("HashMap::get") and k.endswith(" is Some") and side(t):
                return side(t) + "_SOME"
            if nm.endswith("Iterator>::next") or nm.endswith("Iterator::next"):
                if k.endswith(" is Some") and side(t):
                    return side(t) + "_NEXT"
            if nm.endswith("HashSet::contains") and side(t[2][0]):
                return side(t[2][0]) + "_HAS"
            if re.search(r"Option::(is_some_and|map_or)$", nm) and side(t[2][0]):
                clo = [a for a in (simp_deep(y) for y in t[2]) if isinstance(a, tuple) and a and a[0] == "agg" and "{closure" in str(a[1])]
                cf = Y.fns.get(clo[0][1]) if clo else None
                if cf is not None and cf.calls_to("re:HashSet::contains$") and \
                        (nm.endswith("is_some_and") or simp_deep(t[2][1]) [:2] == ("const", 0)):
                    return side(t[2][0]) + "_IN"
            if re.search(r"PartialEq.*::eq$", nm):
                if term_has_field(t, "LinkSource.quote_end") and term_has_field(t, "StickyIndex.assoc"):
                    return "END_ASSOC"
                if term_has_field(t, "LinkSource.quote_start") and term_has_field(t, "StickyIndex.assoc"):
                    return "START_ASSOC"
                if term_has_field(t, "LinkSource.quote_start") and term_has_call(t, "yrs::sticky_index::StickyIndex::id"):
                    return "START_IS_PREV"
        if t[0] == "field" and t[1].endswith("Branch.type_ref") and k.endswith(" is WeakLink"):
            return "WEAK"
        return None

    groups = {"L": [], "R": []}
    for c in fn.calls_to("re:HashSet::insert$"):
        recv = simp_deep(v.arg(c, 0))
        elem = simp_deep(v.arg(c, 1))
        if recv[0] == "call" and recv[1].endswith("HashSet::new") and side(elem):
            groups[side(elem)].append(c)
    R.floor(rid, "insertions of a left link into the common set", len(groups["L"]), 1)
    R.floor(rid, "insertions of a right link into the common set", len(groups["R"]), 1)

    def req_left(e):
        if "R_IN" not in e and ("R_SOME" not in e or "R_HAS" not in e):
            return None
        need = ("L_SOME", "L_NEXT", "WEAK", "END_ASSOC")
        if any(n not in e for n in need):
            return None
        in_right = e["R_IN"] if "R_IN" in e else (e["R_SOME"] and e["R_HAS"])
        return e["L_SOME"] and e["L_NEXT"] and (in_right or (e["WEAK"] and e["END_ASSOC"]))

    def req_right(e):
        if "L_IN" not in e and "L_HAS" not in e:
            return None
        need = ("L_SOME", "R_SOME", "R_NEXT", "WEAK", "START_ASSOC", "START_IS_PREV")
        if any(n not in e for n in need):
            return None
        if e["L_SOME"] and e.get("L_NEXT"):
            return None     # the first loop is still running
        in_left = e["L_IN"] if "L_IN" in e else (e["L_SOME"] and e["L_HAS"])
        if "L_IN" in e and e["L_IN"] and not e["L_SOME"]:
            return None     # inconsistent: membership without a set
        return e["R_SOME"] and e["R_NEXT"] and not in_left and e["WEAK"] and e["START_ASSOC"] and e["START_IS_PREV"]
    for sd, req in (("L", req_left), ("R", req_right)):
        if not groups[sd]:
            continue
        f = f_or(*[fm.reach(c.bb) for c in groups[sd]])
        ats = atoms_of(f)
        names = {classify(k, t) for k, t in ats.items()}
        free = [k for k, t in ats.items() if classify(k, t) is None]
        ok, cex, keys = truth_check(f, classify, req, max_atoms=12)
        probe = req({n: (n != "L_NEXT" or sd == "L") for n in ("L_SOME", "L_NEXT", "R_SOME", "R_NEXT", "R_HAS", "L_HAS", "R_IN", "L_IN", "WEAK", "END_ASSOC", "START_ASSOC", "START_IS_PREV") if n in {x for x in names if x}})
        R.ob(rid, fn, "table:" + ("left-links" if sd == "L" else "right-links"), ok and not free and probe is not None,
             "taken exactly under the table (%d atoms)" % len(keys) if ok and not free and probe is not None else
             "the decision differs: %s" % (cex if not free and probe is not None else "atoms %s, unrecognised %s" % (sorted(n for n in names if n), free)),
             groups[sd][0].loc())


def check(ctx, R):
    from . import wire_rules
    R.run("C20.k", rule_k, ctx)
    R.run("C20.l", rule_l, ctx)
    from . import shared as _sh
    R.run("C20.m", lambda R, c: _sh.api_delegations(
        R, c, "C20.m", _sh.WEAK_DELEGATIONS,
        "R-PROV dereferencing a text quotation as a string: WeakRef<TextRef>::get_string renders with LinkSource::to_string and "
        "WeakRef<XmlTextRef>::get_string with to_xml_string, each over the link's own source"), ctx)
    R.run("C20.q", rule_q, ctx)
    R.run("C20.a", rule_a, ctx)
    R.run("C20.b", rule_b, ctx)
    R.run("C20.c", rule_c, ctx)
    R.run("C20.d", wire_rules.c20_d, ctx)
    R.run("C20.e", rule_e, ctx)
    R.run("C20.f", rule_f, ctx)
    R.run("C20.g", rule_g, ctx)
    R.run("C20.i", rule_i, ctx)
    R.run("C20.j", rule_j, ctx)
    from . import preds
    R.run("C20.p", lambda R, c: preds.rule(R, c, "C20.p", ["adjacent_left", "adjacent_right", "link_is_single"]), ctx)
    from . import c02 as _c02
    R.run("C20.h", lambda R, c: _c02.rule_g(R, c, "C20.h"), ctx)
    return {}


FFI_QUOTE_DELEGATIONS = [
    ("yffi::ytext_quote", r"Quotable::quote$",
     {2: "ExplicitRange{Option::cloned(<*mut T>::as_ref(start_index)), Option::cloned(<*mut T>::as_ref(end_index)), start_exclusive, end_exclusive}"}, None),
    ("yffi::yarray_quote", r"Quotable::quote$",
     {2: "ExplicitRange{Option::cloned(<*mut T>::as_ref(start_index)), Option::cloned(<*mut T>::as_ref(end_index)), start_exclusive, end_exclusive}"}, None),
]


def rule_q(R, ctx, rid="C20.q"):
    """The C wrappers of quote hand the caller's boundaries on as given, and ExplicitRange reports them as given."""
    from . import shared as _sh
    R.rule(rid, "R-PROV ytext_quote / yarray_quote build the range they quote from the caller's own four parameters — start index, end "
                "index, and the two exclusivity flags, each in its own slot, values rebuilt from MIR and rendered canonically — and "
                "ExplicitRange::start_bound / end_bound answer Unbounded exactly for an absent index, Included for flag 0 and Excluded "
                "otherwise, over the index of the same side. An excluded start rewritten as the next included index selects the same "
                "elements at quote time but anchors the quotation to the other neighbour, so later inserts at the boundary fall outside")
    Y = ctx.yffi
    _sh._delegations(R, Y, rid, FFI_QUOTE_DELEGATIONS, 2)
    n = 0
    for side in ("start", "end"):
        fn = Y.fn("<yffi::ExplicitRange as std::ops::RangeBounds<u32>>::%s_bound" % side)
        v = FnView(fn)
        seen = set()
        for bb, i, st in fn.stmts():
            rv = st.get("rv") or {}
            agg = rv.get("agg") if isinstance(rv, dict) else None
            if st["dst"] != 0 or not isinstance(agg, dict) or agg.get("adt") != "std::ops::Bound":
                continue
            var = agg["variant"]
            seen.add(var)
            n += 1
            gs = [(sshow(simp_deep(l.term), 6), l.polarity) for l in v.guards(bb)]
            idx, flag = "self.%s_index" % side, "self.%s_exclusive" % side

            def flag_state(l):
                """'zero' / 'nonzero' when the literal decides the flag against 0 — switch form or comparison form"""
                t = simp_deep(l.term)
                if sshow(t, 6) == flag:
                    if isinstance(l.polarity, tuple) and l.polarity[0] == "eq" and l.polarity[1] == 0:
                        return "zero"
                    if isinstance(l.polarity, tuple) and l.polarity[0] == "ne" and tuple(l.polarity[1]) == (0,):
                        return "nonzero"
                    return None
                if isinstance(t, tuple) and t[0] == "bin" and t[1] in ("Eq", "Ne") and isinstance(l.polarity, bool):
                    a, b = t[2], t[3]
                    if isinstance(a, tuple) and a[0] == "const":
                        a, b = b, a
                    if sshow(a, 6) == flag and isinstance(b, tuple) and b[0] == "const" and b[1] == 0:
                        return "zero" if (t[1] == "Eq") == l.polarity else "nonzero"
                return None
            states = {flag_state(l) for l in v.guards(bb)} - {None}
            want = {"Unbounded": [(idx, "None")],
                    "Included": [(idx, "Some"), (flag, "zero")],
                    "Excluded": [(idx, "Some"), (flag, "nonzero")]}.get(var, [("?", "?")])
            bad = []
            for t, pol in want:
                if pol in ("zero", "nonzero"):
                    ok = states == {pol}
                else:
                    ok = any(g == t and p == pol for g, p in gs)
                if not ok:
                    bad.append("%s is not known to be %s" % (t, pol))
            if var != "Unbounded":
                op = sshow(simp_deep(v.terms.operand(rv["ops"][0], 10)), 8)
                if idx not in op:
                    bad.append("the payload is %s, not %s" % (op, idx))
            R.ob(rid, fn, side + ":" + var, not bad, "answered under %s" % ([("%s %s" % (g, p)) for g, p in gs],) if not bad else "; ".join(bad),
                 "%s:%s" % (fn.file if hasattr(fn, "file") else "yffi/src/lib.rs", st.get("line")))
        for var in ("Unbounded", "Included", "Excluded"):
            if var not in seen:
                R.ob(rid, fn, side + ":" + var, False, "%s_bound never answers %s" % (side, var))
    R.floor(rid, "bound answers", n, 6)
