"""C16 — id sets / id maps: canonical-form clauses (no empty per-client entry, raw constructor ownership)."""
import re
from ylib import facts as F
from .common import *  # noqa

ENTRY_ADDERS = ("re:^std::collections::BTreeMap::insert$",
                "re:^std::collections::btree_map::Entry::(or_default|or_insert|or_insert_with)$",
                "re:^std::collections::btree_map::VacantEntry::insert$")

# sites that store an entry copied / rebuilt from entries of an already canonical map: reason
CANONICAL_SOURCES = {
    "yrs::ids::IdMapInner::merge_with": "Vacant arm stores a clone of an entry of `other`, which is non-empty by the invariant",
    "yrs::ids::IdMapInner::map": "rebuilds each entry from the (non-empty) entry of `self` with one insert_with per range",
    "yrs::id_map::IdMap::from_set": "rebuilds each entry from the (non-empty) entry of the given IdSet with one insert_with per range",
}


def is_idmap_entry(t):
    return term_has_call(t, "re:IdMapInner::(entry|clients_mut)$") or any(x[0] == "field" and "IdMapInner" in x[1] for x in walk(t))


def emptiness_guard(l, fn):
    t = simp(l.term)
    # is_empty() of something, required false
    if t[0] == "call" and F.strip_generics(t[1]).endswith("::is_empty") and l.polarity is False:
        return True
    # input validation on parameters: comparison whose operands are rooted in parameters / constants only
    if t[0] == "bin" and t[1] in ("Eq", "Ne", "Lt", "Le", "Gt", "Ge"):
        def pure(x):
            x = simp_deep(x)
            return all(y[0] in ("param", "const", "field", "bin", "cast", "un") for y in walk(x)) and any(y[0] == "param" for y in walk(x)) or simp(x)[0] == "const"
        if pure(t[2]) and pure(t[3]) and (any(y[0] == "param" for y in walk(t[2])) or any(y[0] == "param" for y in walk(t[3]))):
            return True
    return False


def rule_a(R, ctx):
    Y = ctx.yrs
    R.rule("C16.a", "R-GUARD/R-PAIR no empty per-client entry can be stored (IdMapInner::is_empty documents the invariant; equality and "
                    "encoding of equal sets depend on it): every site that adds a client entry to an IdMapInner (BTreeMap::insert, "
                    "Entry::or_default/or_insert*, VacantEntry::insert) is either guarded by an emptiness test of what is stored / an "
                    "input-validation test of the range parameters, or is followed by pruning in the same function, or copies entries "
                    "of an already canonical map (frozen table)")
    n = 0
    for fn in Y.fns.values():
        if not fn.mir:
            continue
        css = fn.calls_to(*ENTRY_ADDERS)
        if not css:
            continue
        v = FnView(fn)
        for cs, site in ordinal_sites(css):
            if not is_idmap_entry(v.arg(cs, 0)):
                continue
            n += 1
            root = Y.root_of(fn).path
            guarded = [l for l in v.guards(cs.bb) if emptiness_guard(l, fn)]
            # pruning afterwards: a remove of the entry guarded by is_empty
            prunes = [c for c in fn.calls_to("re:^std::collections::btree_map::OccupiedEntry::remove(_entry)?$", "re:^std::collections::BTreeMap::(remove|retain)$")]
            pruned = any(fn.cfg().dominates(cs.bb, p.bb) or p.bb in fn.cfg().reachable_from(cs.bb) for p in prunes)
            if guarded:
                R.ob("C16.a", fn, site, True, "guarded by %s" % [l.desc for l in guarded][:2], cs.loc())
            elif pruned:
                R.ob("C16.a", fn, site, True, "entry is pruned afterwards when empty", cs.loc())
            elif root in CANONICAL_SOURCES:
                R.ob("C16.a", fn, site, True, "canonical source: " + CANONICAL_SOURCES[root], cs.loc(), nontrivial=False)
            else:
                R.ob("C16.a", fn, site, False,
                     "a client entry is created with no emptiness test of the stored ranges on the path and no pruning afterwards: an empty "
                     "range/argument leaves an empty entry (is_empty()==false, != the empty set, encodes differently)", cs.loc())
    R.floor("C16.a", "sites adding a client entry to an IdMapInner", n, 12)
    # the pruning sites themselves: diff_with / intersect_with / remove_range drop emptied clients
    for path in ("yrs::ids::IdMapInner::diff_with", "yrs::ids::IdMapInner::intersect_with"):
        fn = Y.fn(path)
        ok = False
        for c in Y.closures.get(fn.path, []):
            rt = F.Terms(c).local(0, 10)
            if term_has_call(rt, "re:IdRanges::is_empty$"):
                ok = True
        R.ob("C16.a", fn, "retain-nonempty", ok and bool(fn.calls_to("re:^std::collections::BTreeMap::retain$")),
             "retain(|_, ranges| .. !ranges.is_empty()) drops emptied clients: %s" % ok)
    for path in ("yrs::id_set::IdSet::remove_range", "yrs::id_map::IdMap::remove_range", "yrs::id_map::IdMap::remove"):
        fn = Y.fns.get(path)
        if fn is None:
            continue
        v = FnView(fn)
        rm = fn.calls_to("re:^std::collections::btree_map::OccupiedEntry::remove(_entry)?$")
        ok = bool(rm) and all(v.has_guard(c.bb, lambda l: lit_mentions_call(l, "re:IdRanges::is_empty$", True)) for c in rm)
        R.ob("C16.a", fn, "prune-on-empty", ok, "entry removed when its ranges become empty: %s" % ok)
    # insert_with itself refuses empty ranges
    iw = Y.fn("yrs::ids::IdRanges::insert_with")
    iv = FnView(iw)
    pushes = iw.calls_to("re:SmallVec<.*>::(push|insert)$", "re:::push$", "re:::insert$", "re:push_coalesced$")
    ok = bool(pushes) and all(iv.has_guard(c.bb, lambda l: l.term[0] == "bin" and l.term[1] == "Ge" and l.polarity is False) for c in pushes)
    R.ob("C16.a", iw, "refuses-empty-range", ok, "every mutation in insert_with is behind `range.start >= range.end` == false: %s (%d sites)" % (ok, len(pushes)))


RAW = {
    "yrs::ids::IdRanges::from_raw": {
        "<yrs::ids::IdRanges<()> as yrs::updates::decoder::Decode>::decode": "wire decode (canonical if the sender was)",
        "<yrs::id_map::IdMap<A> as yrs::updates::decoder::Decode>::decode": "wire decode",
        "yrs::id_map::IdMap::filter": "filtered sub-sequence of a canonical entry (order and disjointness preserved)",
        "yrs::ids::IdRanges::from_ranges": "?",
    },
}


def rule_b(R, ctx):
    Y = ctx.yrs
    R.rule("C16.b", "R-OWN raw constructors: IdRanges::from_raw / inner_mut and IdMapInner::clients_mut / entry bypass canonicalisation; "
                    "their callers are a frozen owner table, each with the reason its input is already canonical")
    owners = {
        "yrs::ids::IdRanges::from_raw": {"<yrs::ids::IdRanges<()> as yrs::updates::decoder::Decode>::decode", "<yrs::id_map::IdMap<A> as yrs::updates::decoder::Decode>::decode",
                                         "yrs::id_map::IdMap::filter"},
        "yrs::ids::IdRanges::inner_mut": set(),
        "yrs::ids::IdMapInner::clients_mut": {"yrs::id_map::IdMap::from_set", "yrs::id_map::IdMap::filter", "<yrs::id_map::IdMap<A> as yrs::updates::decoder::Decode>::decode",
                                              "yrs::id_set::IdSet::from_iter", "yrs::id_set::IdSet::insert_range", "<yrs::id_set::IdSet as yrs::updates::decoder::Decode>::decode",
                                              "<yrs::id_set::IdSet as yrs::id_set::DeleteSet>::from_store"},
        "yrs::ids::IdMapInner::entry": {"yrs::id_set::IdSet::range_mut", "yrs::id_set::IdSet::insert", "yrs::id_set::IdSet::remove_range", "yrs::id_map::IdMap::remove_range",
                                        "yrs::id_map::IdMap::remove", "yrs::id_map::IdMap::insert"},
    }
    n = 0
    for raw, own in owners.items():
        cs = callers_of(Y, raw)
        for c in sorted(cs):
            n += 1
            R.ob("C16.b", Y.fns[c], "uses:" + raw.rsplit("::", 1)[-1], c in own or c.startswith("yrs::ids::"),
                 "calls the raw accessor %s%s" % (raw, "" if (c in own or c.startswith("yrs::ids::")) else " but is not in the owner table"))
    R.floor("C16.b", "raw accessor users", n, 8)


def rule_c(R, ctx):
    Y = ctx.yrs
    R.rule("C16.c", "R-GUARD same element (belief rule, 7 of 7 sites on the pinned tree): in the interval-list algorithms of "
                    "yrs::ids / yrs::id_set every store into element k of the sorted range list (`list[k].start = ..`, "
                    "`list[k].end = ..`) is decided by a condition that reads element k itself — a trim or coalesce that tests one "
                    "entry and rewrites another turns ids that were never inserted into members (or drops members)")
    n = 0
    for p, fn in sorted(Y.fns.items()):
        if not (p.startswith("yrs::ids::") or p.startswith("yrs::id_set::")) or not fn.mir:
            continue
        v = FnView(fn)

        def key(t):
            t = simp_deep(t)

            def norm(t):
                if isinstance(t, tuple):
                    if t and t[0] == "call":
                        return ("call", t[1], tuple(norm(simp_deep(a)) for a in t[2]))
                    return tuple(norm(x) for x in t)
                return t
            return show(norm(t), 12)
        k = 0
        for i, j, st in fn.stmts():
            d = st["dst"]
            if not (isinstance(d, dict) and d["p"] and d["p"][0] == "*" and isinstance(d["p"][-1], str)
                    and re.search(r"Range\.(start|end)$", d["p"][-1])):
                continue
            df = mir_def(fn, {"c": d["l"]})
            if not (df and df[0] == "call" and re.search(r"IndexMut.*::index_mut$", df[1].name) and len(df[1].args) == 2):
                continue
            n += 1
            idx = mir_value_key(fn, df[1].args[1])
            reads = set()
            calls_by_bb = {c.bb: c for c in fn.calls()}
            for l in v.guards(i):
                for t in walk(l.term):
                    if t[0] == "call" and re.search(r"Index(<.*>)?>?::index$", t[1]) and len(t[2]) == 2 and len(t) > 3:
                        c = calls_by_bb.get(t[3])
                        if c is not None and len(c.args) == 2:
                            reads.add(mir_value_key(fn, c.args[1]))
            shown = sshow(v.arg(df[1], 1, 8), 4)
            site = "store:%s#%d" % (d["p"][-1].rsplit(".", 1)[-1], k)
            k += 1
            R.ob("C16.c", fn, site, idx in reads,
                 "element [%s] is rewritten under a condition that reads it" % shown if idx in reads else
                 "element [%s] is rewritten, but no condition that decides it reads that element (%d other element read(s))" % (shown, len(reads)),
                 "%s:%s" % (fn.file, st["line"]))
    R.floor("C16.c", "stores into list elements", n, 7)


def rule_d(R, ctx):
    Y = ctx.yrs
    R.rule("C16.d", "R-GUARD canonical results: in yrs::ids a piece whose value was computed by Merge::merge of two operands' values "
                    "is appended to a result list only through push_coalesced, or by a raw push that is decided by a look at the last "
                    "entry (`result.last_mut()` None, or adjacency/equality compared) — pieces cut from two canonical lists can touch "
                    "and carry equal merged values, and an uncoalesced result compares and encodes unequal to the canonical one")
    n = 0
    for p, fn in sorted(Y.fns.items()):
        if not p.startswith("yrs::ids::") or not fn.mir:
            continue
        v = FnView(fn)
        merged = set()
        for cs in fn.calls():
            if re.search(r"Merge(<.*>)?>?::merge$", cs.name) and cs.args:
                r = mir_root(fn, cs.args[0])
                if r[0] == "local":
                    merged.add(r[1])
        if not merged:
            continue
        for cs, site in ordinal_sites([c for c in fn.calls() if re.search(r"(Vec|SmallVec)(<.*>)?::push$", c.name) and len(c.args) == 2]):
            d = mir_def(fn, cs.args[1])
            val = None
            if d and d[0] == "stmt" and "agg" in d[1] and len(d[1].get("ops", [])) == 2:
                val = mir_root(fn, d[1]["ops"][1])
            if not (val and val[0] == "local" and val[1] in merged):
                continue
            n += 1
            looked = any(term_has_call(l.term, "re:::last(_mut)?$") for l in v.guards(cs.bb))
            R.ob("C16.d", fn, site, looked,
                 "the merged piece is pushed after a look at the last entry of the result" if looked else
                 "a piece with a merged value is pushed without looking at the last entry of the result (no coalescing of adjacent "
                 "equal pieces)", cs.loc())
        for cs in fn.calls_to("yrs::ids::push_coalesced"):
            if len(cs.args) == 3 and mir_root(fn, cs.args[2])[0] == "local" and mir_root(fn, cs.args[2])[1] in merged:
                n += 1
    R.floor("C16.d", "appends of merged pieces (raw pushes with a look at the last entry + push_coalesced calls)", n, 3)
    pc = Y.fn("yrs::ids::push_coalesced")
    pv = FnView(pc)
    pushes = [c for c in pc.calls() if re.search(r"(Vec|SmallVec)(<.*>)?::push$", c.name)]
    ok = bool(pushes) and all(any(term_has_call(l.term, "re:::last(_mut)?$") for l in pv.guards(c.bb)) or
                              any(l.term[0] == "bin" and l.term[1] in ("Ge", "Lt", "Eq", "Gt", "Le") for l in pv.guards(c.bb)) for c in pushes)
    ext = pc.field_writes("Range.end")
    R.ob("C16.d", pc, "helper", bool(ext) and bool(pushes), "push_coalesced extends the last entry (%d store(s) to .end) or pushes (%d)" % (len(ext), len(pushes)))


def rule_e(R, ctx, rid="C16.e"):
    Y = ctx.yrs
    R.rule(rid, "R-GUARD a computed delete set contains every deleted block: in <IdSet as DeleteSet>::from_store the insertion of a "
                "block's clock range is decided by Block::is_deleted(block) alone (true for deleted items *and* GC ranges, see the "
                "predicate table) and by no test that narrows the block kind; the range inserted is clock_range() start..end+1 of "
                "that same block")
    fn = Y.fn("<yrs::id_set::IdSet as yrs::id_set::DeleteSet>::from_store")
    v = FnView(fn)
    ins = [c for c in fn.calls() if re.search(r"(IdRange|IdRanges(<.*>)?|Ranges)::insert$", F.strip_generics(c.name)) or F.strip_generics(c.name).endswith("IdRange::insert")]
    ins = [c for c in ins if fn.cfg().in_loop(c.bb)]
    R.floor(rid, "range insertions in from_store", len(ins), 1)
    for cs, site in ordinal_sites(ins):
        g = v.guards(cs.bb)
        whole = any(lit_call(l, "yrs::block::Block::is_deleted", True) for l in g)
        narrowed = [l.desc for l in g if isinstance(l.polarity, str) and l.polarity in ("Item", "GC", "Skip")] + \
                   [l.desc for l in g if term_has_call(l.term, "re:Block::as_item$") or term_has_call(l.term, "re:Block::is_item$") or term_has_call(l.term, "re:Block::is_gc$")]
        rng = v.arg(cs, 1, 12)
        from_block = term_has_call(rng, "re:Block::clock_range$")
        R.ob(rid, fn, site, whole and not narrowed and from_block,
             "every block with Block::is_deleted() contributes its clock_range()" if whole and not narrowed and from_block else
             "the delete set skips some deleted blocks: decided by Block::is_deleted=%s, narrowed by %s, range from clock_range=%s — "
             "garbage-collected ranges are deleted content too" % (whole, narrowed[:2], from_block), cs.loc())


# appended elements that are not built on the spot: function -> reason the piece is non-empty
MOVED_PIECES = {
    "yrs::id_map::IdMap::filter": "clone of an entry of the (canonical) source map",
    "yrs::ids::IdRanges::insert_with": "entries of the local `replacement` list, which is filled through push_coalesced only",
}


# wire decoders store what the sender wrote (same scoping as the raw-constructor table of C16.b): the property quantifies over
# sets built through the API; a decoded set is canonical if the sender's was
WIRE_PIECES = {
    "<yrs::ids::IdRanges<()> as yrs::updates::decoder::Decode>::decode": "wire decode: ranges are stored as sent",
    "<yrs::id_map::IdMap<A> as yrs::updates::decoder::Decode>::decode": "wire decode: ranges are stored as sent",
}


def rule_f(R, ctx, rid="C16.f"):
    Y = ctx.yrs
    R.rule(rid, "R-GUARD no empty range is ever stored (canonical form; `contains`, equality and the encoders all assume it): in "
                "yrs::ids / yrs::id_set / yrs::id_map every `(start..end, value)` appended to a range list (SmallVec/Vec push or "
                "insert) is decided by a strict comparison of that very start and end — `start < end` holds on every path to the "
                "append (Lt/Gt taken or Ge/Le refused, operands matched by value numbering), for a whole `range` parameter the "
                "entry test `range.start >= range.end -> return`; elements moved from elsewhere are a frozen table")
    n = 0
    for p, fn in sorted(Y.fns.items()):
        if fn.file not in ("yrs/src/ids.rs", "yrs/src/id_set.rs", "yrs/src/id_map.rs") or not fn.mir or "::test" in p:
            continue
        sites = [c for c in fn.calls() if re.search(r"(Vec|SmallVec)(<.*>)?::(push|insert)$", c.name) and len(c.args) >= 2]
        if not sites:
            continue
        v = FnView(fn)
        for cs, site in ordinal_sites(sites):
            el = mir_def(fn, cs.args[-1])
            if Y.root_of(fn).path in WIRE_PIECES:
                a = cs.args[-1]
                al = a.get("m", a.get("c")) if isinstance(a, dict) else None
                if isinstance(al, int) and str(fn.local_ty(al)).startswith("(std::ops::Range<u32>"):
                    R.inventory(rid, fn, site, WIRE_PIECES[Y.root_of(fn).path], cs.loc())
                continue
            if not (el and el[0] == "stmt" and isinstance(el[1].get("agg"), dict) and el[1]["agg"].get("kind") == "tuple" and len(el[1].get("ops", [])) == 2):
                # not a (range, value) tuple built here
                a = cs.args[-1]
                al = a.get("m", a.get("c")) if isinstance(a, dict) else None
                ety = str(fn.local_ty(al)) if isinstance(al, int) else ""
                if not ety.startswith("(std::ops::Range<u32>"):
                    continue
                why = MOVED_PIECES.get(Y.root_of(fn).path)
                if why and "push_coalesced only" in why:
                    # machine-checked part of the reason: every raw append in this function goes to self's list, every other
                    # list (the local replacement) is filled through push_coalesced
                    raw_other = [c for c in sites if mir_vkey(fn, c.args[0]) != ("proj", ("local", 1), ("yrs::ids::IdRanges.0",))]
                    pcs = fn.calls_to("yrs::ids::push_coalesced")
                    R.ob(rid, fn, site + ":source", not raw_other and len(pcs) >= 1,
                         "moved element: every raw append of this function targets self.0 and the local list is filled by %d "
                         "push_coalesced call(s)" % len(pcs) if not raw_other and pcs else
                         "a list other than self.0 is filled by a raw push in this function, so the elements moved from it are not "
                         "known to be non-empty", cs.loc())
                elif why:
                    R.inventory(rid, fn, site, "moved element: " + why, cs.loc())
                else:
                    R.ob(rid, fn, site, False, "an element that was not built here is appended to a range list and the function is "
                         "not in the table of known sources", cs.loc())
                continue
            rng = el[1]["ops"][0]
            rd = mir_def(fn, rng)
            if rd and rd[0] == "stmt" and isinstance(rd[1].get("agg"), dict) and str(rd[1]["agg"].get("adt", "")).endswith("ops::Range"):
                ks, ke = mir_vkey(fn, rd[1]["ops"][0]), mir_vkey(fn, rd[1]["ops"][1])
                what = "built here"
            else:
                r = mir_root(fn, rng)
                if rd and rd[0] == "call" and rd[1].name.endswith("::clone") and Y.root_of(fn).path in MOVED_PIECES:
                    R.inventory(rid, fn, site, "moved element: " + MOVED_PIECES[Y.root_of(fn).path], cs.loc())
                    continue
                if r[0] != "local":
                    R.ob(rid, fn, site, False, "the appended range is neither built here nor a local: %r" % (r,), cs.loc())
                    continue
                ks = ("proj", ("local", r[1]), ("std::ops::Range.start",))
                ke = ("proj", ("local", r[1]), ("std::ops::Range.end",))
                what = "the range local _%d" % r[1]
            n += 1
            strict = mir_strict_order_guards(fn, v, cs.bb)
            ok = (ks, ke) in strict
            R.ob(rid, fn, site, ok,
                 "%s: start < end holds on every path to the append" % what if ok else
                 "%s is appended without a strict comparison of its own start and end on every path (%d other strict orderings "
                 "known here): an empty range can be stored" % (what, len(strict)), cs.loc())
    # floor: the appends that no refactoring towards push_coalesced can remove (the helper's own, and whole-parameter inserts)
    R.floor(rid, "range pieces appended to range lists", n, 4)


def rule_h(R, ctx, rid="C16.h"):
    Y = ctx.yrs
    from ylib import mirror
    fn = Y.fn("yrs::ids::IdRanges::merge")
    R.rule(rid, "R-SIB mirror (contradiction rule): IdRanges::merge — the union of two sorted range lists behind IdSet/IdMap merge, "
                "the delete set of a transaction and of merged updates — treats its two operands alike: every two-way branch inside "
                "the loop whose condition is the role-exchanged twin of another branch's condition (a exhausted / b exhausted, a ends "
                "before b starts / b ends before a starts, a's prefix / b's prefix, a ends first / b ends first) guards a region that "
                "is the twin's region with a and b exchanged: same calls, same stores, operands that are value mirrors under ONE "
                "bijection of the loop variables (name-free, commutative operands in either order). If the twins differ one of them "
                "is wrong: the union then depends on which operand is self (a range dropped or kept twice on one side only)")
    roots = sorted({mirror._root(fn, cs.args[0]) for cs in fn.calls()
                    if re.search(r"SmallVec(<.*>)?::len$|Index(<.*>)?>?::index$", cs.name) and fn.cfg().in_loop(cs.bb)})
    if len(roots) != 2:
        raise AnchorLost("IdRanges::merge: expected two operand lists indexed inside the loop, found %d" % len(roots))
    pairs, problems = mirror.mirrored_branches(fn, [(roots[0], roots[1])])
    R.floor(rid, "twin branches in IdRanges::merge (a branch whose condition has lost its role-exchanged twin counts as missing)", len(pairs), 7)
    R.ob(rid, fn, "twins", not problems,
         "%d twin branches are mirror images (lines %s)" % (len(pairs), ", ".join("%s/%s" % (a, b) for a, b, _ in pairs)) if not problems else
         "; ".join(problems))


ATTR_SET_ALGEBRA = ("<yrs::id_map::ContentAttributes<A> as yrs::ids::Merge>::merge", "<yrs::id_map::ContentAttributes<A> as std::cmp::PartialEq>::eq")


def rule_i(R, ctx, rid="C16.i"):
    Y = ctx.yrs
    R.rule(rid, "R-GUARD attribute sets are sets of whole attributes: the union (<ContentAttributes as Merge>::merge, run on every "
                "overlapping piece by IdRanges::insert_with / merge / intersect) appends an attribute of `other` only where the "
                "membership test of THAT attribute in self is false, set equality (<ContentAttributes as PartialEq>::eq) is "
                "`same size and every element contained`, and both test membership with the element's own equality — "
                "`<[ContentAttribute]>::contains(x)` or `PartialEq::eq` on whole ContentAttribute values — never with a comparison "
                "of parts (name(), value(), Arc::ptr_eq): two attributes that agree in one part only are different set elements, "
                "and a union that identifies them drops one, depends on the operand order and coalesces pieces that differ")
    n = 0
    for path in ATTR_SET_ALGEBRA:
        fn = Y.fn(path)
        fam = [fn] + list(Y.closures.get(fn.path, []))
        member = []
        parts = []
        for f in fam:
            for cs in f.calls():
                nm = F.strip_generics(cs.name)
                tys = [str(x) for x in cs.t.get("arg_tys", [])]
                if nm.endswith("::contains") and any("ContentAttribute<" in x for x in tys):
                    member.append(cs)
                elif re.search(r"PartialEq(<.*>)?>?::(eq|ne)$", nm) and tys and all("ContentAttribute<" in x and "ContentAttributes<" not in x for x in tys):
                    member.append(cs)
                elif re.search(r"ContentAttribute(<.*>)?::(name|value)$", nm) or nm.endswith("Arc::ptr_eq") or re.search(r"Arc(<.*>)?::ptr_eq$", nm):
                    parts.append(cs)
        n += 1
        R.ob(rid, fn, "whole-element", bool(member) and not parts,
             "membership through %s; no comparison of parts" % sorted({F.strip_generics(c.name).rsplit("::", 1)[-1] for c in member}) if member and not parts else
             "membership tests on whole attributes: %d; comparisons of parts: %s" % (len(member), [c.loc() + " " + F.strip_generics(c.name).rsplit("::", 1)[-1] for c in parts][:3]))
    mg = Y.fn(ATTR_SET_ALGEBRA[0])
    v = FnView(mg)
    pushes = [c for c in mg.calls() if re.search(r"(Vec|SmallVec)(<.*>)?::push$", c.name)]
    R.floor(rid, "appends in the attribute union", len(pushes), 1)
    for cs, site in ordinal_sites(pushes):
        el = mir_def(mg, cs.args[1])
        src = mir_vkey(mg, el[1].args[0]) if el and el[0] == "call" and el[1].name.endswith("::clone") and el[1].args else mir_vkey(mg, cs.args[1])
        calls_by_bb = {c.bb: c for c in mg.calls()}
        ok = False
        seen = []
        for l in v.guards(cs.bb):
            t = simp(l.term)
            if t[0] == "call" and len(t) > 3 and l.polarity is False:
                c = calls_by_bb.get(t[3])
                nm = F.strip_generics(t[1])
                if c is not None and (nm.endswith("::contains") or nm.endswith("::any")):
                    seen.append(nm.rsplit("::", 1)[-1])
                    if nm.endswith("::contains") and len(c.args) == 2 and mir_vkey(mg, c.args[1]) == src and term_has_field(simp_deep(v.arg(c, 0, 10)), "ContentAttributes.0") and \
                            any(x[0] == "param" and x[1] == 1 for x in walk(simp_deep(v.arg(c, 0, 10)))):
                        ok = True
                    if nm.endswith("::any"):
                        # adaptor form: self.0.iter().any(|a| a == attr): accepted when the closure compares whole attributes (checked above)
                        recv = simp_deep(v.arg(c, 0, 12))
                        if term_has_field(recv, "ContentAttributes.0") and any(x[0] == "param" and x[1] == 1 for x in walk(recv)):
                            ok = True
        R.ob(rid, mg, "union:" + site, ok, "an attribute is appended only where self does not contain that attribute" if ok else
             "the append is decided by %s — not by `self does not contain the attribute that is appended`" % (seen or "no membership test"), cs.loc())
    eqf = Y.fn(ATTR_SET_ALGEBRA[1])
    ev = FnView(eqf)
    lens = [c for c in eqf.calls() if c.name.endswith("::len")]
    alls = [c for c in eqf.calls() if F.strip_generics(c.name).endswith("::all")]
    R.ob(rid, eqf, "equality", len(lens) >= 2 and len(alls) >= 1, "set equality = equal sizes (%d len calls) and every element contained (%d `all`)" % (len(lens), len(alls)))
    R.floor(rid, "attribute-set operations", n, 2)


def rule_j(R, ctx, rid="C16.j"):
    Y = ctx.yrs
    R.rule(rid, "R-SIB half-open discipline (belief rule, 48 of 48 comparisons on the pinned tree): ranges are [start, end); in the "
                "interval algorithms of yrs/src/ids.rs (insert_with, push_coalesced, remove, merge, exclude, intersect, find_start, "
                "contains_clock) every comparison that reads a range bound compares bounds, cursors and parameters as they are — no "
                "operand is `bound + c` or `bound - c`. Adjacency is `left.end >= right.start`, disjointness `left.end < right.start`, "
                "emptiness `start >= end`: a comparison shifted by one coalesces ranges across a one-id gap (ids that were never "
                "inserted become members) or fails to coalesce touching ones (non-canonical result)")

    def bound_leaf(k):
        return isinstance(k, tuple) and k and k[0] == "proj" and k[2] and re.search(r"Range\.(start|end)$", str(k[2][-1])) is not None

    def has_bound(k):
        if bound_leaf(k):
            return True
        return isinstance(k, tuple) and any(has_bound(x) for x in k if isinstance(x, tuple))

    def shifted(k):
        if isinstance(k, tuple) and k and k[0] in ("Add", "Sub") and len(k) == 3:
            a, b = k[1], k[2]
            if (has_bound(a) and isinstance(b, tuple) and b and b[0] == "k") or (has_bound(b) and isinstance(a, tuple) and a and a[0] == "k"):
                return True
        return False
    n = 0
    for p, fn in sorted(Y.fns.items()):
        if fn.file != "yrs/src/ids.rs" or not fn.mir or "::test" in p:
            continue
        k_ = 0
        for i, j, st in fn.stmts():
            rv = st["rv"]
            if rv.get("bin") not in ("Ge", "Gt", "Le", "Lt", "Eq", "Ne"):
                continue
            a, b = mir_vkey(fn, rv["a"]), mir_vkey(fn, rv["b"])
            if not (has_bound(a) or has_bound(b)):
                continue
            n += 1
            bad = shifted(a) or shifted(b)
            site = "cmp:%s#%d" % (rv["bin"], k_)
            k_ += 1
            if bad:
                R.ob(rid, fn, site, False, "a range bound is compared after being shifted by a constant: half-open ranges need no ±1 — "
                                           "the decision is off by one id", "%s:%s" % (fn.file, st["line"]))
            else:
                R.ob(rid, fn, site, True, "raw bounds compared", "%s:%s" % (fn.file, st["line"]), nontrivial=False)
    R.floor(rid, "comparisons that read a range bound in yrs/src/ids.rs", n, 30)


def _strip(t):
    t = simp_deep(t)
    while isinstance(t, tuple) and t and t[0] in ("deref", "ref", "copy") and len(t) > 1 and isinstance(t[-1], tuple):
        t = simp_deep(t[-1])
    return t


SWEEP_CURSORS = ["yrs::ids::IdRanges::exclude", "yrs::ids::IdRanges::intersect"]


def rule_k(R, ctx, rid="C16.k"):
    Y = ctx.yrs
    R.rule(rid, "R-SCAN sweep cursor: in IdRanges::exclude / intersect the cursor into the other operand's sorted ranges moves past "
                "an entry only behind a comparison of that entry's END with the range at hand (entirely to the left: end <= start; "
                "consumed: end < end of the current range); a hand-over between the two cursors and the initial 0 are the only "
                "other writes. A jump computed otherwise (a search keyed on `start`) steps over an entry that still overlaps the "
                "current range, whose clocks then survive the subtraction; a partition_point jump is accepted when its predicate is "
                "that same end-comparison")
    for path in SWEEP_CURSORS:
        fn = Y.fn(path)
        v = FnView(fn)
        cursors = set()
        for i, j, st in fn.stmts():
            def places(o):
                if isinstance(o, dict):
                    if "p" in o and "l" in o:
                        yield o
                    for x in o.values():
                        yield from places(x)
                elif isinstance(o, list):
                    for x in o:
                        yield from places(x)
            for pl in places(st):
                for pr in pl.get("p", []):
                    if isinstance(pr, dict) and "idx" in pr:
                        r = mir_root(fn, pr["idx"])
                        if r[0] == "local":
                            cursors.add(r[1])
        # cursors handed over to / from an index cursor (i = j) are cursors too
        grew = True
        while grew:
            grew = False
            for i, j, st in fn.stmts():
                rv = st["rv"]
                if isinstance(st["dst"], int) and "use" in rv and isinstance(rv["use"], dict):
                    r = mir_root(fn, rv["use"])
                    if r[0] == "local" and fn.local_ty(r[1]) == "usize" and fn.local_ty(st["dst"]) == "usize" \
                            and len(fn.defs().get(st["dst"], [])) > 1 and len(fn.defs().get(r[1], [])) > 1:
                        if st["dst"] in cursors and r[1] not in cursors:
                            cursors.add(r[1]); grew = True
                        if r[1] in cursors and st["dst"] not in cursors:
                            cursors.add(st["dst"]); grew = True
        R.floor(rid, "index cursors in %s" % path, len(cursors), 1)
        n = 0
        for i, j, st in fn.stmts():
            if not isinstance(st["dst"], int) or st["dst"] not in cursors:
                continue
            rv = st["rv"]
            r = mir_root(fn, rv["use"]) if "use" in rv and isinstance(rv["use"], dict) else ("other",)
            if r[0] == "const":
                continue
            if r[0] == "local" and r[1] in cursors and r[1] != st["dst"]:
                continue   # hand-over i = j / j = i
            # an advance: the value written is cursor + step
            n += 1
            t = simp_deep(v.terms.rvalue(rv, 10))
            site = "advance@%s#%d" % (fn.local_name(st["dst"]) or st["dst"], n)
            ends = [l for l in v.guards(i) if isinstance(l.term, tuple) and l.term[0] == "bin" and l.term[1] in ("Le", "Lt", "Ge", "Gt")
                    and any(x[0] == "field" and x[1].endswith("Range.end") and "[_]" in show(x, 12)
                            for x in (_strip(l.term[2]), _strip(l.term[3])))]
            # the step: second operand of the addition that produced the value
            step = None
            src = rv["use"].get("m", rv["use"].get("c")) if "use" in rv and isinstance(rv["use"], dict) else None
            if isinstance(src, dict) and isinstance(src.get("l"), int):
                ds = fn.defs().get(src["l"], [])
                if len(ds) == 1 and ds[0][0] == "stmt" and "bin" in ds[0][3]["rv"] and ds[0][3]["rv"]["bin"].startswith("Add"):
                    step = ds[0][3]["rv"]["b"]
            elif "bin" in rv and rv["bin"].startswith("Add"):
                step = rv["b"]
            if step is None:
                R.ob(rid, fn, site, False, "the cursor is written with a value that is neither 0, the other cursor, nor cursor + step: %s" % sshow(t))
                continue
            stept = simp_deep(v.terms.operand(step, 10))
            step_call = [] if mir_root(fn, step) == ("const", 1) else \
                ([x for x in walk(stept) if isinstance(x, tuple) and x and x[0] == "call"] or [("call", "<computed step %s>" % sshow(stept), ())])
            ok = bool(ends) and not step_call
            why = "advances one entry behind %s" % ends[0].desc if ok else \
                "advances with no comparison of the passed entry's end among its guards (%s)" % [l.desc for l in v.guards(i)][-2:]
            if step_call:
                pp = [stept] if stept[0] == "call" and F.strip_generics(stept[1]).endswith("::partition_point") else []
                okp = False
                if pp:
                    for x in pp:
                        clo = [a for a in (simp_deep(y) for y in x[2]) if isinstance(a, tuple) and a and a[0] == "agg" and "{closure" in str(a[1])]
                        for a in clo:
                            cf = Y.fns.get(a[1])
                            if cf is None:
                                continue
                            defs = answer_definitions(cf)
                            okp = bool(defs) and all(d[0] == "bin" and d[1] in ("Le", "Lt") and term_has_field(d[2], "Range.end") for d in defs)
                ok = okp
                why = "jumps by a partition_point whose predicate compares the entries' end" if ok else \
                    "jumps by a computed amount (%s) whose predicate is not a comparison of the entries' END with the range at hand" % sshow(t)
            R.ob(rid, fn, site, ok, why, "%s:%s" % (fn.f.get("file", ""), st.get("line")) if hasattr(fn, "f") else None)
        R.floor(rid, "cursor advances in %s" % path, n, 2)


APPEND_ONLY_USERS = {
    "yrs::ids::IdRanges::insert_with": "pieces cut out of the sorted entry list in one left-to-right sweep",
    "yrs::ids::IdRanges::merge": "two-pointer sweep over two sorted lists: pieces are produced in ascending order",
    # not users today; sweeps over the sorted entry list whose pieces ascend, so rewriting their raw appends with the helper is fine
    "yrs::ids::IdRanges::intersect": "sweep over self's sorted entries against other's sorted entries: overlaps are produced in ascending order",
    "yrs::ids::IdRanges::exclude": "sweep over self's sorted entries: surviving pieces are produced in ascending order",
    "yrs::ids::IdRanges::remove": "one pass over the sorted entry list: kept pieces are produced in ascending order",
}


def rule_n(R, ctx, rid="C16.n"):
    Y = ctx.yrs
    R.rule(rid, "R-OWN who may append: push_coalesced looks at the LAST stored range only, so it is right only for pieces that arrive in "
                "ascending order — its callers are a frozen table (the sweeps of insert_with and merge, one line of reason each). "
                "Constructors that take ranges in the caller's order (IdRanges::from_ranges behind IdSet::from_iter) go through the "
                "order-insensitive IdRanges::insert for every element: `from_iter([5..7, 1..3])` must contain clock 1")
    users = callers_of(Y, "yrs::ids::push_coalesced")
    R.floor(rid, "functions using push_coalesced", len(users), 2)
    for root in sorted(users):
        R.ob(rid, Y.fns[root], "append-only-user", root in APPEND_ONLY_USERS,
             APPEND_ONLY_USERS.get(root, "appends with push_coalesced although nothing establishes that its pieces arrive in ascending order "
                                         "(not in the table of sweeps): a range that starts before the last stored one is absorbed or dropped"))
    fr = [f for f in Y.find(r"^yrs::ids::IdRanges(<.*>)?::from_ranges$") if f.mir]
    R.floor(rid, "IdRanges::from_ranges", len(fr), 1)
    for f in fr:
        v = FnView(f)
        ins = f.calls_to("re:^yrs::ids::IdRanges(<.*>)?::insert$")
        in_loop = [c for c in ins if f.cfg().in_loop(c.bb)]
        elem = [c for c in in_loop if term_has_call(v.arg(c, 1, 10), "re:Iterator>::next$") or term_has_call(v.arg(c, 1, 10), "re:Iterator::next$")]
        R.ob(rid, f, "order-insensitive", bool(elem), "every element of the caller's sequence goes through IdRanges::insert: %s" % bool(elem),
             ins[0].loc() if ins else None)


def rule_o(R, ctx, rid="C16.o"):
    from .accessors import _canon
    Y = ctx.yrs
    R.rule(rid, "R-PROV the answer of IdMap::attributions tiles the queried range: the un-attributed pieces it adds are (a) inside the "
                "loop, from a running end that STARTS at the query's first clock (`range.clock` is one of the definitions of the gap's "
                "start) up to the clipped start of the entry at hand, (b) behind the last piece up to range.clock + range.len, and (c) "
                "the whole range when nothing overlaps — a running end that starts at the first entry instead drops the points in "
                "front of it")
    fn = Y.fn("yrs::id_map::IdMap::attributions")
    v = FnView(fn)
    gaps = fn.calls_to("re:AttrRange<.*>::new$", "re:AttrRange::new$")
    R.floor(rid, "un-attributed pieces built in attributions", len(gaps), 3)
    seen = set()
    for cs in gaps:
        t = simp_deep(v.arg(cs, 0, 12))
        if not (t[0] == "agg" and len(t[2]) == 2):
            R.ob(rid, fn, "gap@bb%d" % cs.bb, False, "not a start..end range: %s" % sshow(t))
            continue
        start, end = _canon(t[2][0]), _canon(t[2][1])
        alts = [a.strip() for a in start.split(" | ")]
        whole_end = "(range.clock + range.len)"
        if fn.cfg().in_loop(cs.bb):
            seen.add("leading")
            R.ob(rid, fn, "gap:leading", "range.clock" in alts and not any("map_or" in a or "last(" in a for a in alts),
                 "the running end starts at range.clock: %s" % start if "range.clock" in alts else
                 "the in-loop gap starts at %s — no definition is the query's first clock: the points in front of the first entry are lost" % start, cs.loc())
        elif start == "range.clock":
            seen.add("whole")
            R.ob(rid, fn, "gap:whole", end == whole_end, "whole range: %s..%s" % (start, end), cs.loc())
        else:
            seen.add("trailing")
            R.ob(rid, fn, "gap:trailing", end == whole_end and "range.end" in start, "trailing gap: %s..%s" % (start, end), cs.loc())
    R.ob(rid, fn, "three-gaps", seen == {"leading", "whole", "trailing"}, "gap kinds built: %s" % sorted(seen))


def check(ctx, R):
    from . import shared as _sh
    R.run("C16.o", rule_o, ctx)
    R.run("C16.n", rule_n, ctx)
    R.run("C16.m", lambda R, c: _sh.api_delegations(
        R, c, "C16.m", _sh.IDSET_DELEGATIONS,
        "R-PROV the thin layer of the id sets: every IdSet operation (contains, get, is_empty, len, merge / diff / intersect and "
        "their in-place forms) is the operation of the same name on the inner maps of BOTH operands in their order; IdSet::insert "
        "files clock .. clock + len under id.client; IdMapInner::{merge, diff, intersect} are a clone followed by the in-place form "
        "with the same other operand; contains looks the id's clock up in the ranges of the id's client"), ctx)
    R.run("C16.k", rule_k, ctx)
    R.run("C16.q", rule_q, ctx)
    R.run("C16.r", rule_r, ctx)
    R.run("C16.a", rule_a, ctx)
    R.run("C16.b", rule_b, ctx)
    R.run("C16.c", rule_c, ctx)
    R.run("C16.d", rule_d, ctx)
    R.run("C16.e", rule_e, ctx)
    R.run("C16.f", rule_f, ctx)
    R.run("C16.h", rule_h, ctx)
    R.run("C16.i", rule_i, ctx)
    R.run("C16.j", rule_j, ctx)
    from . import scans
    R.run("C16.g", lambda R, c: scans.loop_scans(R, c, "C16.g", ["yrs::ids::IdRanges::subset_of"]), ctx)
    from . import preds
    R.run("C16.p", lambda R, c: preds.rule(R, c, "C16.p", ["idmap_contains", "blockrange_contains"]), ctx)
    return {}


HASHSET_READERS = ("get", "contains", "len", "is_empty", "iter")


def rule_q(R, ctx, rid="C16.q"):
    """Interning of attributes: a cached handle is never displaced."""
    Y = ctx.yrs
    R.rule(rid, "R-GUARD IdMap::ensure_attrs — the interning step of insert / from_set, which the encoder's by-handle de-duplication relies "
                "on — writes its cache (any HashSet method on self.attrs other than a read) only where HashSet::get(self.attrs, a) "
                "answered None, and it does look the attribute up: replacing the cached handle on every call makes equal maps encode "
                "differently depending on how their attributes were allocated")
    fn = Y.fn("yrs::id_map::IdMap::ensure_attrs")
    v = FnView(fn)
    gets = [c for c in fn.calls() if re.search(r"HashSet::get$", F.strip_generics(c.name)) and sshow(simp_deep(v.arg(c, 0, 8)), 6) == "self.attrs"]
    R.floor(rid, "lookups of the cache in ensure_attrs", len(gets), 1)
    n = 0
    for c in fn.calls():
        m = re.search(r"HashSet::(\w+)$", F.strip_generics(c.name))
        if not m or m.group(1) in HASHSET_READERS or not c.args or sshow(simp_deep(v.arg(c, 0, 8)), 6) != "self.attrs":
            continue
        n += 1
        ok = v.has_guard(c.bb, lambda l: isinstance(l.term, tuple) and term_has_call(l.term, "re:HashSet::get$") and l.polarity == "None")
        R.ob(rid, fn, "cache-write:" + m.group(1), ok, "only after the lookup answered None" if ok else
             "HashSet::%s on the cache is not under `get(..) is None`: a cached handle can be displaced" % m.group(1), c.loc())
    R.floor(rid, "writes of the cache in ensure_attrs", n, 1)


def rule_r(R, ctx, rid="C16.r"):
    """The serde form of an IdSet is read with the lib0 version it is written with."""
    Y = ctx.yrs
    R.rule(rid, "R-SIB (pre-emptive, after round 12) the serde form of IdSet: Serialize hands the bytes of Encode::encode_vN(self) to "
                "serialize_bytes, and every visitor method that rebuilds the set (visit_bytes over its own argument, visit_seq over the "
                "bytes it collected) decodes with Decode::decode_vN of the same N — these functions carry no version suffix, so the "
                "version-purity scan does not see them")
    ser = Y.fn("<yrs::id_set::IdSet as yrs::block::_::_serde::Serialize>::serialize")
    vs = FnView(ser)
    enc = [c for c in ser.calls() if re.search(r"Encode::encode_v[12]$", c.name)]
    sb = [c for c in ser.calls() if c.name.endswith("Serializer::serialize_bytes")]
    R.floor(rid, "encode calls in IdSet::serialize", len(enc), 1)
    if len(enc) != 1 or len(sb) != 1:
        R.ob(rid, ser, "writer", False, "%d encode calls, %d serialize_bytes calls (expected one each)" % (len(enc), len(sb)))
        return
    ver = enc[0].name[-1]
    payload = sshow(simp_deep(vs.arg(sb[0], 1, 8)), 6)
    R.ob(rid, ser, "writer", payload == "Encode::encode_v%s(self)" % ver, "writes %s" % payload, sb[0].loc())
    n = 0
    for fn in Y.find(r"id_set::IdSet as .*Deserialize>::deserialize::IdSetVisitor as .*Visitor>::visit_"):
        decs = [c for c in fn.calls() if re.search(r"Decode::decode_v[12]$", c.name)]
        if not decs:
            continue
        v = FnView(fn)
        for c, site in ordinal_sites(decs):
            n += 1
            ok = c.name.endswith("decode_v" + ver)
            arg = sshow(simp_deep(v.arg(c, 0, 8)), 6)
            if fn.path.endswith("visit_bytes") and arg != "v":
                ok = False
            R.ob(rid, fn, site, ok, "reads v%s from %s" % (c.name[-1], arg) if ok else
                 "the writer emits v%s, this visitor decodes %s with %s" % (ver, arg, c.name.rsplit("::", 1)[-1]), c.loc())
    R.floor(rid, "decode calls in the IdSet visitors", n, 2)
