"""Clauses shared by several properties."""
from ylib import facts as F
from .common import *  # noqa

TXN = "yrs::transaction::TransactionMut"

DELETE_EFFECT_CALLS = (
    "yrs::block::Item::mark_as_deleted",
    "yrs::id_set::IdSet::insert",
    TXN + "::add_changed_type",
    "yrs::types::weak::LinkSource::unlink_all",
    "re:^std::collections::HashMap::(remove|insert)$",
    "re:^std::vec::Vec::push$",
)


def idempotent_delete(R, ctx, rid):
    """Every effect of TransactionMut::delete is guarded by !item.is_deleted() of the parameter item;
    every TransactionMut::delete inside apply_delete is guarded by !block.is_deleted()."""
    Y = ctx.yrs
    fn = Y.fn(TXN + "::delete")
    R.rule(rid, "R-GUARD: in TransactionMut::delete every effect (length decrements, mark_as_deleted, delete_set.insert, "
                "add_changed_type, subdoc/link bookkeeping, pushes to the recursion list) requires `!item.is_deleted()` on every "
                "path; in apply_delete every delete(item) requires `!block.is_deleted()` — deletion is idempotent")
    v = FnView(fn)

    def not_deleted(l):
        if not lit_call(l, "yrs::block::Item::is_deleted", False):
            return False
        a = simp(simp(l.term)[2][0])
        return root_name(a) == "item" and not field_path(a)

    n = 0
    effects = []
    for cs, site in ordinal_sites(fn.calls_to(*DELETE_EFFECT_CALLS)):
        # pushes to merge_blocks after a failed recursive delete are not state changes of this item
        if cs.is_("re:^std::vec::Vec::push$"):
            recv = simp_deep(v.arg(cs, 0))
            if field_path(recv)[-1:] == ["merge_blocks"]:
                continue
        effects.append((cs.bb, site, cs.loc()))
    for fld in ("Branch.block_len", "Branch.content_len"):
        for k, (i, j, s) in enumerate(fn.field_writes(fld)):
            effects.append((i, "write:%s#%d" % (fld, k), "%s:%s" % (fn.file, s["line"])))
    for bb, site, loc in effects:
        n += 1
        ok = v.has_guard(bb, not_deleted)
        R.ob(rid, fn, site, ok, "guards: %s" % v.guard_descs(bb), loc)
    R.floor(rid, "effects in TransactionMut::delete", n, 10)

    ad = Y.fn(TXN + "::apply_delete")
    av = FnView(ad)
    dels = ad.calls_to(TXN + "::delete")
    R.floor(rid, "delete calls in apply_delete", len(dels), 1)
    for cs, site in ordinal_sites(dels):
        ok = av.has_guard(cs.bb, lambda l: lit_call(l, "yrs::block::Block::is_deleted", False)
                          or lit_call(l, "yrs::block::Item::is_deleted", False))
        R.ob(rid, ad, site, ok, "guards: %s" % av.guard_descs(cs.bb), cs.loc())
