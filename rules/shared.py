"""Clauses shared by several properties."""
from ylib import facts as F
from .common import *  # noqa

TXN = "yrs::transaction::TransactionMut"

DELETE_EFFECT_CALLS = (
    "yrs::block::Item::mark_as_deleted",
    "yrs::id_set::IdSet::insert",
    TXN + "::add_changed_type",
    "yrs::types::weak::LinkSource::unlink_all",
    "re:^std::collections::HashMap::(remove|insert)$",
    "re:^std::vec::Vec::push$",
)


def idempotent_delete(R, ctx, rid):
    """Every effect of TransactionMut::delete is guarded by !item.is_deleted() of the parameter item;
    every TransactionMut::delete inside apply_delete is guarded by !block.is_deleted()."""
    Y = ctx.yrs
    fn = Y.fn(TXN + "::delete")
    R.rule(rid, "R-GUARD: in TransactionMut::delete every effect (length decrements, mark_as_deleted, delete_set.insert, "
                "add_changed_type, subdoc/link bookkeeping, pushes to the recursion list) requires `!item.is_deleted()` on every "
                "path; in apply_delete every delete(item) requires `!block.is_deleted()` — deletion is idempotent")
    v = FnView(fn)

    def not_deleted(l):
        if not lit_call(l, "yrs::block::Item::is_deleted", False):
            return False
        a = simp(simp(l.term)[2][0])
        return root_name(a) == "item" and not field_path(a)

    n = 0
    effects = []
    for cs, site in ordinal_sites(fn.calls_to(*DELETE_EFFECT_CALLS)):
        # pushes to merge_blocks after a failed recursive delete are not state changes of this item
        if cs.is_("re:^std::vec::Vec::push$"):
            recv = simp_deep(v.arg(cs, 0))
            if field_path(recv)[-1:] == ["merge_blocks"]:
                continue
        effects.append((cs.bb, site, cs.loc()))
    for fld in ("Branch.block_len", "Branch.content_len"):
        for k, (i, j, s) in enumerate(fn.field_writes(fld)):
            effects.append((i, "write:%s#%d" % (fld, k), "%s:%s" % (fn.file, s["line"])))
    for bb, site, loc in effects:
        n += 1
        ok = v.has_guard(bb, not_deleted)
        R.ob(rid, fn, site, ok, "guards: %s" % v.guard_descs(bb), loc)
    R.floor(rid, "effects in TransactionMut::delete", n, 10)

    ad = Y.fn(TXN + "::apply_delete")
    av = FnView(ad)
    dels = ad.calls_to(TXN + "::delete")
    R.floor(rid, "delete calls in apply_delete", len(dels), 1)
    for cs, site in ordinal_sites(dels):
        ok = av.has_guard(cs.bb, lambda l: lit_call(l, "yrs::block::Block::is_deleted", False)
                          or lit_call(l, "yrs::block::Item::is_deleted", False))
        R.ob(rid, ad, site, ok, "guards: %s" % av.guard_descs(cs.bb), cs.loc())


def unapplied_within_range(R, ctx, rid):
    """every deletion stashed by apply_delete lies inside the incoming range it came from."""
    import json as _json
    import re
    Y = ctx.yrs
    R.rule(rid, "R-PROV stashed deletions stay inside the incoming range: every `unapplied.insert(ID::new(client, S), L)` in "
                "TransactionMut::apply_delete has L = E - S or L = min(_, E - S) with E the end of the incoming range and S the very "
                "clock the stashed range starts at (value numbering over MIR) — a longer remainder is replayed later as a deletion "
                "nobody made, and travels to every replica with the delete set")
    fn = Y.fn("yrs::transaction::TransactionMut::apply_delete")

    def is_range_end(op):
        r = mir_root(fn, op)
        if r[0] == "place":
            try:
                pl = _json.loads(r[1])
            except Exception:
                return False
            pr = [x for x in pl.get("p", []) if isinstance(x, str) and x != "*"]
            return bool(pr) and pr[-1].endswith("Range.end")
        return False

    def diff_from_end(op, skey):
        d = mir_difference(fn, op)
        if not d:
            return False
        e, s = d
        return is_range_end(e) and mir_value_key(fn, s) == skey

    ins = []
    for cs in fn.calls_to("yrs::id_set::IdSet::insert"):
        if len(cs.args) != 3:
            continue
        recv = mir_root(fn, cs.args[0])
        # the receiver is the local set that is returned (not self.delete_set)
        if recv[0] == "local" and "IdSet" in str(fn.local_ty(recv[1])):
            ins.append(cs)
    R.floor(rid, "insertions into the unapplied set in apply_delete", len(ins), 4)
    v = FnView(fn)
    for cs, site in ordinal_sites(ins):
        d = mir_def(fn, cs.args[1])
        if not (d and d[0] == "call" and F.strip_generics(d[1].name).endswith("ID::new") and len(d[1].args) == 2):
            R.ob(rid, fn, site, False, "the stashed id is not built with ID::new(client, clock)", cs.loc())
            continue
        skey = mir_value_key(fn, d[1].args[1])
        L = cs.args[2]
        ok = diff_from_end(L, skey)
        how = "L = end - start"
        if not ok:
            dl = mir_def(fn, L)
            if dl and dl[0] == "call" and re.search(r"(Ord(<.*>)?::min|::min)$", dl[1].name) and len(dl[1].args) == 2:
                ok = any(diff_from_end(a, skey) for a in dl[1].args)
                how = "L = min(_, end - start)"
        R.ob(rid, fn, site, ok,
             "%s with the start the range is stashed at" % how if ok else
             "stashed length %s is not `end of the incoming range - %s` (nor a min with it): the stashed range can run past the "
             "deletion that was received" % (sshow(v.arg(cs, 2, 10), 6), sshow(v.terms.operand(d[1].args[1], 8), 4)), cs.loc())

    # the first and the last block of the range are split exactly at the range boundaries
    sp = fn.calls_to("yrs::block_store::BlockStore::split_block_inner")
    R.floor(rid, "boundary splits in apply_delete", len(sp), 2)
    for cs, site in ordinal_sites(sp):
        d = mir_difference(fn, cs.args[2]) if len(cs.args) == 3 else None
        ok = False
        why = "split offset is not a difference"
        if d:
            b, c = d
            rb = mir_root(fn, b)
            bound = False
            if rb[0] == "place":
                try:
                    pl = _json.loads(rb[1])
                    pr = [x for x in pl.get("p", []) if isinstance(x, str) and x != "*"]
                    bound = bool(pr) and (pr[-1].endswith("Range.end") or pr[-1].endswith("Range.start"))
                except Exception:
                    bound = False
            rc = mir_root(fn, c)
            same_item = False
            if rc[0] == "place":
                try:
                    pl = _json.loads(rc[1])
                    pr = [x for x in pl.get("p", []) if isinstance(x, str) and x != "*"]
                    if len(pr) >= 2 and pr[-1].endswith("ID.clock") and pr[-2].endswith("Item.id"):
                        same_item = True
                except Exception:
                    same_item = False
            ok = bound and same_item
            why = "split offset = <range boundary> - <item>.id.clock: boundary=%s item-clock=%s" % (bound, same_item)
        R.ob(rid, fn, "split:" + site.rsplit("#", 1)[-1], ok, why, cs.loc())



def lookup_slices(R, ctx, rid):
    """id -> block -> slice: the lookups everything else is built on."""
    import re
    from ylib.formula import Formulas, truth_check, fshow, f_or
    Y = ctx.yrs
    R.rule(rid, "R-PROV/R-GUARD id lookups: BlockStore::get_item_clean_start(id) is ItemSlice::new(p, id.clock - p.id.clock, p.len - 1) and "
                "get_item_clean_end(id) is ItemSlice::new(p, 0, id.clock - p.id.clock) with p = get_item(id) (value numbering); the "
                "binary search ClientBlockList::find_index returns an index exactly when start <= clock <= end of that block, moves "
                "`left` past mid exactly when start <= clock and clock > end, and `right` below mid exactly when start > clock (path "
                "formulas of one loop round)")
    for name, want in (("get_item_clean_start", "start"), ("get_item_clean_end", "end")):
        fn = Y.fn("yrs::block_store::BlockStore::" + name)
        v = FnView(fn)
        news = fn.calls_to("yrs::slice::ItemSlice::new")
        ok = False
        why = "%d ItemSlice::new call(s)" % len(news)
        if len(news) == 1 and len(news[0].args) == 3:
            cs = news[0]
            p = mir_root(fn, cs.args[0])
            d = mir_def(fn, cs.args[0])
            from_get = term_has_call(v.arg(cs, 0, 10), "re:BlockStore::get_item$")

            def is_off(op):
                df = mir_difference(fn, op)
                if not df:
                    return False
                a, b = df
                ta, tb = simp_deep(v.terms.operand(a, 8)), simp_deep(v.terms.operand(b, 8))
                return field_path(ta)[-1:] == ["clock"] and any(x[0] == "param" and fn.local_name(x[1]) == "id" for x in walk(ta)) and \
                    field_path(tb)[-1:] == ["clock"] and term_has_call(tb, "re:Item::id$|re:BlockStore::get_item$") or \
                    (field_path(ta)[-1:] == ["clock"] and any(x[0] == "param" and fn.local_name(x[1]) == "id" for x in walk(ta)) and
                     field_path(tb)[-1:] == ["clock"] and not any(x[0] == "param" and fn.local_name(x[1]) == "id" for x in walk(tb)))

            def is_last(op):
                df = mir_difference(fn, op)
                if not df:
                    return False
                a, b = df
                return term_has_call(v.terms.operand(a, 8), "re:Item::len$") and mir_root(fn, b) == ("const", 1)
            if want == "start":
                ok = from_get and is_off(cs.args[1]) and is_last(cs.args[2])
                why = "slice = (p, id.clock - p.clock, p.len - 1): from get_item=%s offset=%s last=%s" % (from_get, is_off(cs.args[1]), is_last(cs.args[2]))
            else:
                ok = from_get and mir_root(fn, cs.args[1]) == ("const", 0) and is_off(cs.args[2])
                why = "slice = (p, 0, id.clock - p.clock): from get_item=%s zero=%s offset=%s" % (from_get, mir_root(fn, cs.args[1]) == ("const", 0), is_off(cs.args[2]))
        R.ob(rid, fn, "slice:" + name, ok, why)
    # binary search
    fn = Y.fn("yrs::block_store::ClientBlockList::find_index")
    fm = Formulas(fn, simp_deep)
    fm.expand = False
    back = sorted(fm.back_edges())
    if not back:
        R.ob(rid, fn, "search", False, "no loop found in find_index")
        return
    TAIL, H = back[-1]
    cfg = fn.cfg()

    def cls(k, t):
        t = simp_deep(t) if isinstance(t, tuple) else t
        if not isinstance(t, tuple) or t[0] != "bin":
            return None
        a, b = simp_deep(t[2]), simp_deep(t[3])

        def kind(x):
            if x[0] == "param" and fn.local_name(x[1]) == "clock":
                return "clock"
            # a (possibly re-assigned) local holding one component of Block::clock_range(): all alternatives agree on which
            comps = set()
            for y in walk(x):
                if y[0] == "field" and y[1] in ("tuple.0", "tuple.1") and term_has_call(y[2], "re:Block::clock_range$"):
                    comps.add(y[1])
            others = [y for y in walk(x) if y[0] in ("param", "const", "bin")]
            if len(comps) == 1 and not others:
                return "start" if comps == {"tuple.0"} else "end"
            if x[0] == "phi" or (x[0] == "local"):
                names_ = {fn.local_name(y[1]) for y in walk(x) if y[0] == "local"}
            return None
        ka, kb = kind(a), kind(b)
        table = {("start", "Le", "clock"): "SLE", ("clock", "Ge", "start"): "SLE", ("start", "Gt", "clock"): "!SLE", ("clock", "Lt", "start"): "!SLE",
                 ("clock", "Le", "end"): "CLE", ("end", "Ge", "clock"): "CLE", ("clock", "Gt", "end"): "!CLE", ("end", "Lt", "clock"): "!CLE"}
        got = table.get((ka, t[1], kb))
        if got:
            return got
        if t[1] in ("Le", "Lt", "Ge", "Gt") and ka is None and kb is None and "clock_range" not in k and "clock" not in [fn.local_name(x[1]) for x in walk(t) if x[0] == "param"]:
            return "LOOP"  # the search-window test left <= right
        return None
    # effects inside the loop: return Some(mid) / left := mid+1 / right := mid-1
    body = set()
    st = [TAIL]
    body = {H, TAIL}
    while st:
        n = st.pop()
        if n == H:
            continue
        for p_ in cfg.pred[n]:
            if p_ not in body:
                body.add(p_)
                st.append(p_)
    rets = [i for i, j, s_ in fn.stmts() if s_["dst"] == 0 and "agg" in s_["rv"] and s_["rv"]["agg"].get("variant") == "Some" and
            (i in body or any(cfg.dominates(b, i) for b in body if b != H))]
    rets = [i for i in rets if cfg.dominates(H, i)]
    names = {}
    for i, j, s_ in fn.stmts():
        if i in body and isinstance(s_["dst"], int) and fn.local_name(s_["dst"]) in ("left", "right") and ("use" in s_["rv"] or "bin" in s_["rv"]):
            names.setdefault(fn.local_name(s_["dst"]), []).append(i)

    def compare(site, blocks, pred, what):
        if not blocks:
            R.ob(rid, fn, site, False, "no %s found in the search loop" % what)
            return
        f = f_or(*[fm.reach_from(H, b) for b in blocks])
        ok, cex, keys = truth_check(f, cls, lambda n: None if not n.get("LOOP", True) else bool(pred(n)), max_atoms=10)
        R.ob(rid, fn, site, ok, "%s: %s" % (what, fshow(f)[:160]) if ok else "%s deviates: %s; formula %s" % (what, cex, fshow(f)[:200]))
    g = lambda n, x: n.get(x, False)
    compare("search:found", rets, lambda n: g(n, "SLE") and g(n, "CLE"), "return Some(mid) iff start <= clock <= end")
    compare("search:go-right", names.get("left", []), lambda n: g(n, "SLE") and not g(n, "CLE"), "left := mid + 1 iff start <= clock and clock > end")
    compare("search:go-left", names.get("right", []), lambda n: not g(n, "SLE"), "right := mid - 1 iff start > clock")



def content_split(R, ctx, rid):
    """ItemContent::splice: each splittable kind is cut at the offset, left part kept, right part returned."""
    Y = ctx.yrs
    R.rule(rid, "R-PROV content split: in ItemContent::splice(offset) every splittable kind (Any, JSON, String, Deleted) keeps the part "
                "before `offset` in place and returns the part from `offset` on, of the same kind: Any/JSON via split_at(v, offset) "
                "(.0 kept, .1 returned), String via split_str(s, offset, encoding), Deleted(len) keeps `offset` and returns "
                "len - offset — an item's clocks are implicit in its content's element count, so a part cut elsewhere re-labels "
                "every element after the cut")
    fn = Y.fn("yrs::block::ItemContent::splice")
    v = FnView(fn)
    OFF = None
    for l in range(1, fn.argc() + 1):
        if fn.local_name(l) == "offset":
            OFF = l
    if OFF is None:
        raise AnchorLost("parameter offset of ItemContent::splice")

    def is_off(t):
        t = simp_deep(t)
        while t[0] == "cast":
            t = simp_deep(t[2])
        return t[0] == "param" and t[1] == OFF
    kept, ret = {}, {}
    for i, j, st in fn.stmts():
        d = st["dst"]
        arms = [l.polarity for l in v.guards(i) if isinstance(l.polarity, str) and simp(l.term)[0] == "param" and simp(l.term)[1] == 1]
        if not arms:
            continue
        t = simp_deep(v.terms.rvalue(st["rv"], 12))
        if isinstance(d, dict) and d.get("l") == 1:
            kept.setdefault(arms[0], []).append((t, st, d))
        elif d == 0:
            ret.setdefault(arms[0], []).append((t, st, d))
    for arm in ("Any", "JSON", "String"):
        ok = False
        why = "arm not found"
        if arm in kept and arm in ret:
            kt, rt = kept[arm][0][0], ret[arm][0][0]
            def comp(t, which):
                for x in walk(t):
                    if x[0] == "field" and x[1] == "tuple.%d" % which and x[2][0] == "call" and \
                            re.search(r"(split_at|split_str)$", x[2][1]) and len(x[2][2]) >= 2 and is_off(x[2][2][1]) and \
                            term_has_field(x[2][2][0], "ItemContent::%s.0" % arm):
                        return True
                return False
            same = any(x[0] == "agg" and x[1].endswith("ItemContent::" + arm) for x in walk(kt)) and \
                any(x[0] == "agg" and x[1].endswith("ItemContent::" + arm) for x in walk(rt))
            ok = comp(kt, 0) and comp(rt, 1) and same
            why = "kept = split(.., offset).0: %s; returned = split(.., offset).1: %s; same kind: %s" % (comp(kt, 0), comp(rt, 1), same)
        elif arm in ret and arm in ("Any", "JSON"):
            # in-place form: `Some(Kind(v.split_off(offset)))` — the vector keeps [..offset] itself and hands out [offset..]
            rt = ret[arm][0][0]
            off_ok = any(x[0] == "call" and re.search(r"Vec::split_off$", F.strip_generics(x[1])) and len(x[2]) >= 2 and is_off(x[2][1]) and
                         term_has_field(x[2][0], "ItemContent::%s.0" % arm) for x in walk(rt))
            same = any(x[0] == "agg" and x[1].endswith("ItemContent::" + arm) for x in walk(rt))
            ok = off_ok and same
            why = "returned = split_off(.., offset), the rest kept in place: %s; same kind: %s" % (off_ok, same)
        R.ob(rid, fn, "arm:" + arm, ok, why)
    # Deleted(len)
    ok = False
    why = "arm not found"
    if "Deleted" in ret:
        rt = ret["Deleted"][0][0]
        subs = [x for x in walk(rt) if x[0] == "bin" and x[1] in ("Sub", "SubWithOverflow") and term_has_field(x[2], "ItemContent::Deleted.0") and is_off(x[3])]
        stores = [(t, st) for arm, lst in kept.items() for (t, st, d) in lst if arm == "Deleted"]
        # `*len = offset` is a store through the matched field, which shows as a write with projection Deleted.0
        lenw = [st for i, j, st in fn.stmts() if isinstance(st["dst"], dict) and st["dst"].get("p") == ["*"] and st["dst"].get("l") != 1
                and "u32" in str(fn.local_ty(st["dst"]["l"])) and any(l.polarity == "Deleted" for l in v.guards(i))]
        kept_ok = any(is_off(v.terms.rvalue(st["rv"], 8)) for st in lenw)
        ok = bool(subs) and kept_ok
        why = "returns Deleted(len - offset): %s; keeps offset: %s" % (bool(subs), kept_ok)
    R.ob(rid, fn, "arm:Deleted", ok, why)



def _arm_returns(fn):
    """(tuple of matched variant names, simp_deep return term) for every definition of the return place."""
    v = FnView(fn)
    out = []
    for i, j, st in fn.stmts():
        if st["dst"] == 0:
            g = tuple(l.polarity for l in v.guards(i) if isinstance(l.polarity, (str, tuple)))
            out.append((g, simp_deep(v.terms.rvalue(st["rv"], 10))))
    for bb, b in enumerate(fn.blocks):
        t = b["t"]
        if "call" in t and t.get("dest") == 0:
            cs = F.CallSite(fn, bb, t)
            g = tuple(l.polarity for l in v.guards(bb) if isinstance(l.polarity, (str, tuple)))
            out.append((g, ("call", cs.name, tuple(simp_deep(v.arg(cs, k, 8)) for k in range(len(cs.args))), bb)))
    return out


def content_tables(R, ctx, rid):
    """per-kind tables of ItemContent: element count, countability, squashability, wire number."""
    Y = ctx.yrs
    R.rule(rid, "R-TABLE content kinds: ItemContent::len is the element count that clocks are assigned from (Deleted(n) -> n, String -> "
                "SplittableString::len(s, kind), Any / JSON -> Vec::len, every other kind -> 1); is_countable is false exactly for "
                "Format and Deleted; try_squash succeeds only for two contents of the same kind among Any, Deleted, JSON, String; "
                "get_ref_number maps each kind to the BLOCK_ITEM_<KIND>_REF_NUMBER constant of its own name")
    # len
    fn = Y.fn("yrs::block::ItemContent::len")
    got = {}
    for g, t in _arm_returns(fn):
        got[g] = t
    def arm(name):
        for g, t in got.items():
            if g == (name,):
                return t
        return None
    d, s_, a, j = arm("Deleted"), arm("String"), arm("Any"), arm("JSON")
    other = [t for g, t in got.items() if g and isinstance(g[0], tuple) and g[0][0] == "not"]
    ok = d is not None and d[0] == "field" and d[1].endswith("ItemContent::Deleted.0") and \
        s_ is not None and s_[0] == "call" and s_[1].endswith("SplittableString::len") and any(x[0] == "param" for x in walk(s_[2][1])) and \
        a is not None and a[0] == "call" and re.search(r"Vec(<.*>)?::len$", a[1]) and term_has_field(a, "ItemContent::Any.0") and \
        j is not None and j[0] == "call" and re.search(r"Vec(<.*>)?::len$", j[1]) and term_has_field(j, "ItemContent::JSON.0") and \
        len(other) == 1 and simp(other[0])[:2] == ("const", 1) and set(other and [g for g in got if g and isinstance(g[0], tuple)][0][0][1]) == {"Any", "Deleted", "JSON", "String"}
    R.ob(rid, fn, "len-table", ok, "ItemContent::len per kind: %s" % {str(g): sshow(t, 4) for g, t in got.items()})
    # is_countable
    fn = Y.fn("yrs::block::ItemContent::is_countable")
    tab = {}
    for g, t in _arm_returns(fn):
        if len(g) == 1 and isinstance(g[0], str):
            tab[g[0]] = simp(t)[1] if simp(t)[0] == "const" else None
    falses = {k for k, val in tab.items() if val == 0}
    trues = {k for k, val in tab.items() if val == 1}
    R.ob(rid, fn, "countable-table", falses == {"Format", "Deleted"} and len(trues) >= 7 and None not in tab.values(),
         "not countable: %s; countable: %s" % (sorted(falses), sorted(trues)))
    # try_squash
    fn = Y.fn("yrs::block::ItemContent::try_squash")
    pairs = {}
    for g, t in _arm_returns(fn):
        val = simp(t)[1] if simp(t)[0] == "const" else None
        pairs[g] = val
    good = {g for g, val in pairs.items() if val == 1}
    R.ob(rid, fn, "squash-table", good == {("Any", "Any"), ("Deleted", "Deleted"), ("JSON", "JSON"), ("String", "String")} and pairs.get((), 0) == 0,
         "squashable pairs: %s" % sorted(good))
    # ref numbers by name
    fn = Y.fn("yrs::block::ItemContent::get_ref_number")
    bad = []
    n = 0
    for g, t in _arm_returns(fn):
        if len(g) == 1 and isinstance(g[0], str):
            n += 1
            name = simp(t)[2] if simp(t)[0] == "const" and len(simp(t)) > 2 else None
            if not (name and str(name).endswith("BLOCK_ITEM_%s_REF_NUMBER" % g[0].upper())):
                bad.append((g[0], name))
    R.ob(rid, fn, "ref-number-names", not bad and n >= 9, "each kind returns the constant of its own name (%d kinds)" % n if not bad else "kind/constant mismatch: %s" % bad)



def map_api(R, ctx, rid):
    """Map::len / clear / Branch::remove: live entries only, and the current entry is what gets deleted."""
    Y = ctx.yrs
    R.rule(rid, "R-GUARD/R-PROV map API over the key table: Map::len counts an entry only under !is_deleted(); Map::clear hands every "
                "entry of the table to TransactionMut::delete; Branch::remove(key) deletes exactly the entry `map.get(key)` returned, "
                "unconditionally once it exists, and reports its last value only if it was live")
    fn = Y.fn("yrs::types::map::Map::len")
    v = FnView(fn)
    incs = [(i, st) for i, j, st in fn.stmts() if st["rv"].get("bin") in ("Add", "AddWithOverflow") and mir_root(fn, st["rv"]["b"]) == ("const", 1)
            and fn.cfg().in_loop(i)]
    ok = bool(incs) and all(any(lit_call(l, "yrs::block::Item::is_deleted", False) for l in v.guards(i)) for i, st in incs)
    R.ob(rid, fn, "len-counts-live", ok, "len += 1 only for entries that are not deleted (%d increment(s))" % len(incs))
    fn = Y.fn("yrs::types::map::Map::clear")
    v = FnView(fn)
    dels = fn.calls_to("yrs::transaction::TransactionMut::delete")
    ok = len(dels) == 1 and fn.cfg().in_loop(dels[0].bb) and term_has_call(v.arg(dels[0], 1, 10), "re:hash_map::Iter.*::next$|re:Iterator>?::next$") and \
        not [l for l in v.guards(dels[0].bb) if not (simp(l.term)[0] == "call" and re.search(r"::next$", simp(l.term)[1]))]
    R.ob(rid, fn, "clear-deletes-all", ok, "every entry the iteration yields is deleted, under no further condition")
    fn = Y.fn("yrs::branch::Branch::remove")
    v = FnView(fn)
    dels = fn.calls_to("yrs::transaction::TransactionMut::delete")
    ok = False
    why = "%d delete call(s)" % len(dels)
    if len(dels) == 1:
        a = simp_deep(v.arg(dels[0], 1, 10))
        same = term_has_call(a, "re:HashMap(<.*>)?::get$") and term_has_field(a, "Branch.map")
        cond = [l.desc for l in v.guards(dels[0].bb) if not (term_has_call(l.term, "re:HashMap(<.*>)?::get$") and not term_has_call(l.term, "re:is_deleted$"))]
        ok = same and not cond
        why = "deletes the entry map.get(key) returned: %s; extra conditions: %s" % (same, cond[:2])
    R.ob(rid, fn, "remove-deletes-current", ok, why)



def trims(R, ctx, rid):
    """trim_start / trim_end of ranges and slices."""
    Y = ctx.yrs
    R.rule(rid, "R-PROV trimming a range or slice: BlockRange::trim_start(count) is clock += count *and* len -= count, trim_end is "
                "len -= count; ItemSlice::trim_start is start += count, trim_end is end -= count; BlockSlice::trim_* hands its own "
                "count to the variant's trim for items and for GC/Skip ranges — a diff that starts inside a GC range is written with "
                "the remaining length, otherwise every later id of that client in the update is shifted")
    want = {
        "yrs::block::BlockRange::trim_start": {"BlockRange.clock": "Add", "BlockRange.len": "Sub"},
        "yrs::block::BlockRange::trim_end": {"BlockRange.len": "Sub"},
        "yrs::slice::ItemSlice::trim_start": {"ItemSlice.start": "Add"},
        "yrs::slice::ItemSlice::trim_end": {"ItemSlice.end": "Sub"},
    }
    for path, fields in want.items():
        fn = Y.fn(path)
        v = FnView(fn)
        got = {}
        for i, j, st in fn.stmts():
            d = st["dst"]
            if isinstance(d, dict) and d["p"] and isinstance(d["p"][-1], str):
                t = simp_deep(v.terms.rvalue(st["rv"], 8))
                b = None
                for x in walk(t):
                    if x[0] == "bin" and x[1].replace("WithOverflow", "") in ("Add", "Sub"):
                        b = x
                        break
                    if x[0] == "call" and re.search(r"::(wrapping|saturating)_(add|sub)$", x[1]) and len(x[2]) == 2:
                        b = ("bin", "Add" if x[1].endswith("add") else "Sub", x[2][0], x[2][1])
                        break
                if b:
                    fld = d["p"][-1].split("::")[-1]
                    cnt = simp_deep(b[3])
                    got[fld] = (b[1].replace("WithOverflow", ""), cnt[0] == "param" and fn.local_name(cnt[1]) == "count" and term_has_field(b[2], fld))
        ok = all(got.get(f, (None, False)) == (op, True) for f, op in fields.items()) and set(got) == set(fields)
        R.ob(rid, fn, "trim:" + path.rsplit("::", 2)[-2] + "::" + path.rsplit("::", 1)[-1], ok,
             "writes %s" % {f: got.get(f) for f in fields} if ok else "expected %s by `count`, found %s" % (fields, got))
    for name in ("trim_start", "trim_end"):
        fn = Y.fn("yrs::slice::BlockSlice::" + name)
        v = FnView(fn)
        calls = [cs for cs in fn.calls() if re.search(r"::(ItemSlice|BlockRange)::%s$" % name, "::" + F.strip_generics(cs.name))]
        kinds = {F.strip_generics(cs.name).rsplit("::", 2)[-2] for cs in calls}
        own = all(len(cs.args) == 2 and simp_deep(v.arg(cs, 1))[0] == "param" and fn.local_name(simp_deep(v.arg(cs, 1))[1]) == "count" for cs in calls)
        R.ob(rid, fn, "dispatch:" + name, kinds == {"ItemSlice", "BlockRange"} and own,
             "BlockSlice::%s forwards count to %s" % (name, sorted(kinds)))
        # every kind of slice is trimmed — the Item arm and BOTH range kinds reach a trim of their payload (a Skip that keeps its
        # length behind an announced later clock shifts every block encoded after it)
        names = ["Item", "GC", "Skip"]
        reached = set()
        for cs in calls:
            ks, used = kinds_reaching(Y, fn, cs.bb, enum="yrs::slice::BlockSlice", place_hint=None, names=names)
            if used:
                reached |= ks
        R.ob(rid, fn, "all-kinds:" + name, reached == set(names),
             "every kind of slice reaches a trim of its payload" if reached == set(names) else
             "no trim is reached for BlockSlice::%s: such a slice keeps its bounds" % sorted(set(names) - reached))


def known_state(R, ctx, rid):
    """what a replica already holds of an incoming update's clients (BlockStore::known_state, used to drop duplicates before
    integration): everything below the end of the client's list, minus every recorded hole."""
    Y = ctx.yrs
    fn = Y.fn("yrs::block_store::BlockStore::known_state")
    v = FnView(fn)
    R.rule(rid, "R-PROV+R-GUARD known state is hole-aware: BlockStore::known_state marks, for every client of the incoming block set "
                "that the store knows, the clocks 0..next_clock(last block) as known and then removes every recorded hole of that "
                "client — remove_range(BlockRange::new(ID(client, skip.start), skip.end - skip.start)) for each element of "
                "skips.get(client).iter(), decided by nothing but the loops having an element; otherwise blocks that fill a hole "
                "are dropped as duplicates before integration (BlockSet::exclude) and the hole stays open for ever")
    ins = fn.calls_to("yrs::id_set::IdSet::insert")
    rem = fn.calls_to("yrs::id_set::IdSet::remove_range")
    R.floor(rid, "known_state: insert of the known prefix", len(ins), 1)
    R.floor(rid, "known_state: removal of recorded holes", len(rem), 1)

    def only_presence(cs):
        bad = []
        for l in v.guards(cs.bb):
            t = simp(l.term)
            if t[0] == "call" and l.polarity == "Some" and re.search(r"(Iterator>::next|HashMap(<.*>)?::get|IdSet::get|IdMapInner(<.*>)?::get)$", F.strip_generics(t[1])):
                continue
            bad.append(l.desc[:90])
        return bad
    for cs, site in ordinal_sites(ins):
        idt = simp_deep(v.arg(cs, 1, 14))
        ln = simp_deep(v.arg(cs, 2, 14))
        zero = idt[0] == "call" and idt[1].endswith("ID::new") and len(idt[2]) == 2 and simp_deep(idt[2][1])[0] == "const" and str(simp_deep(idt[2][1])[1]) in ("0", "0_u32")
        upto = term_has_call(ln, "yrs::block::Block::next_clock") and term_has_call(ln, "yrs::block_store::ClientBlockList::last") and term_has_field(ln, "BlockStore.clients")
        bad = only_presence(cs)
        R.ob(rid, fn, "prefix:" + site, zero and upto and not bad,
             "known prefix = ID(client, 0) .. next_clock(last block of the store's list)" if zero and upto and not bad else
             "known prefix is insert(%s, %s) narrowed by %s" % (sshow(idt, 5), sshow(ln, 5), bad[:2]), cs.loc())
    for cs, site in ordinal_sites(rem):
        a = simp_deep(v.arg(cs, 1, 14))
        ok_shape = a[0] == "call" and a[1].endswith("BlockRange::new") and len(a[2]) == 2
        start_ok = len_ok = False
        if ok_shape:
            idt, ln = simp_deep(a[2][0]), simp_deep(a[2][1])
            if idt[0] == "call" and idt[1].endswith("ID::new") and len(idt[2]) == 2:
                c = simp_deep(idt[2][1])
                start_ok = c[0] == "field" and c[1].endswith("Range.start") and term_has_call(c, "re:Iterator>::next$")
            d = ln
            while d[0] == "field" and d[1] == "tuple.0":
                d = simp_deep(d[2])
            if d[0] == "bin" and d[1].replace("WithOverflow", "") == "Sub":
                x, y = simp_deep(d[2]), simp_deep(d[3])
                len_ok = x[0] == "field" and x[1].endswith("Range.end") and y[0] == "field" and y[1].endswith("Range.start")
        src = term_has_field(simp_deep(v.arg(cs, 1, 18)), "BlockStore.skips") or any(term_has_field(l.term, "BlockStore.skips") for l in v.guards(cs.bb))
        bad = only_presence(cs)
        inloop = fn.cfg().in_loop(cs.bb)
        ok = ok_shape and start_ok and len_ok and src and not bad and inloop
        R.ob(rid, fn, "holes:" + site, ok,
             "every recorded hole of the client is removed from the known state (start = skip.start, len = skip.end - skip.start)" if ok else
             "hole removal is remove_range(%s): start=%s len=%s from-skips=%s per-element=%s narrowed by %s" % (sshow(a, 6), start_ok, len_ok, src, inloop, bad[:2]), cs.loc())


# functions that consume text units one element at a time: (function, effect callee, kinds that must reach it, kinds that must not)
TEXT_UNIT_CONSUMERS = [
    ("yrs::types::text::remove", "yrs::transaction::TransactionMut::delete", {"String", "Embed", "Type"}, {"Format", "Deleted"},
     "remove_range / apply_delta(delete) delete every visible unit in the range: string slices, embedded values and embedded shared types"),
    ("yrs::types::text::find_position", "yrs::block::Item::content_len", {"String", "Embed", "Type"}, {"Format"},
     "an index counts string units, embedded values and embedded shared types (formatting marks take no room)"),
]


def text_units(R, ctx, rid):
    """which content kinds count as a unit of a text: the arms of the per-item `match item.content` in the unit consumers."""
    Y = ctx.yrs
    R.rule(rid, "R-TABLE text units: a text is a sequence of string units, embedded values (Embed) and embedded shared types (Type) "
                "— the three kinds Text::insert / insert_embed create; in every function that consumes units item by item "
                "(text::remove behind remove_range and apply_delta, text::find_position behind every index) the consuming effect is "
                "reachable for all three kinds and for no formatting mark / tombstone content, and only for items that are not "
                "deleted: an arm list that leaves a kind out steps over that element without counting it, so the wrong units "
                "are removed or the index lands elsewhere")
    n = 0
    for path, callee, need, forbid, why in TEXT_UNIT_CONSUMERS:
        fn = Y.fn(path)
        v = FnView(fn)
        css = [c for c in fn.calls_to(callee) if fn.cfg().in_loop(c.bb)]
        R.floor(rid, "%s: %s inside the walk" % (path.rsplit("::", 1)[-1], callee.rsplit("::", 1)[-1]), len(css), 1)
        for cs, site in ordinal_sites(css):
            ks, used = kinds_reaching(Y, fn, cs.bb)
            live = any(lit_call(l, "yrs::block::Item::is_deleted", False) for l in v.guards(cs.bb))
            n += 1
            missing = need - ks
            extra = ks & forbid
            ok = not missing and not extra and live and used >= 1
            R.ob(rid, fn, "units:" + site, ok,
                 "%s under kinds %s, live items only — %s" % (callee.rsplit("::", 1)[-1], sorted(ks), why) if ok else
                 "%s is reached for kinds %s: missing %s, must-not %s, live-only=%s, content switches=%d — %s" %
                 (callee.rsplit("::", 1)[-1], sorted(ks), sorted(missing), sorted(extra), live, used, why), cs.loc())
    R.floor(rid, "text unit consumers", n, 2)


def no_early_exit(R, rid, fn, next_call, what, sorted_by=None):
    """R-SCAN (for-all form): the loop driven by `next_call` visits every element — its only normal exits leave from the block
    that tests the iterator's result (exhaustion) or end in `unreachable`. `sorted_by`: field suffix of the sort key of the
    elements; an exit taken exactly on `element.<key> >= bound` is accepted (every later element is beyond the bound too)."""
    body = loop_blocks(fn, next_call.bb)
    test_bb = next_call.t.get("target")
    bad = []
    lits = F.switch_literals(fn)
    for u, w in loop_exit_edges(fn, next_call.bb):
        if u == test_bb or u == next_call.bb:
            continue
        if "unreachable" in fn.blocks[w]["t"]:
            continue
        if sorted_by:
            ok = False
            for l in lits:
                if l.bb == u and l.to == w and isinstance(l.polarity, bool):
                    t = simp(l.term)
                    if t[0] == "bin":
                        a, b = simp_deep(t[2]), simp_deep(t[3])
                        ka = a[0] == "field" and a[1].endswith(sorted_by)
                        kb = b[0] == "field" and b[1].endswith(sorted_by)
                        if (t[1] in ("Ge", "Gt") and l.polarity is True and ka and not kb) or (t[1] in ("Lt", "Le") and l.polarity is False and ka and not kb) or \
                                (t[1] in ("Le", "Lt") and l.polarity is True and kb and not ka) or (t[1] in ("Gt", "Ge") and l.polarity is False and kb and not ka):
                            ok = True
            if ok:
                continue
        bad.append((u, w, fn.blocks[u]["t"].get("line")))
    R.ob(rid, fn, "visits-all:" + what, not bad,
         "the loop over %s has no exit but exhaustion (%d blocks)" % (what, len(body)) if not bad else
         "the loop over %s can be left early (line %s): elements after the exit are never examined" % (what, ", ".join(str(b[2]) for b in bad)),
         next_call.loc())


def exclude_known(R, ctx, rid):
    """what the receiver already holds is cut out of an incoming update before integration (BlockSet::exclude)."""
    Y = ctx.yrs
    fn = Y.fn("yrs::update::BlockSet::exclude")
    v = FnView(fn)
    R.rule(rid, "R-SCAN+R-PROV duplicates are cut out completely: BlockSet::exclude (the only de-duplication in front of "
                "Update::integrate) examines EVERY known range of every client — neither loop has an exit other than the "
                "exhaustion of its iterator, or, for the sorted known ranges, an exit taken exactly on `range.start >= bound` (a known range that lies before the update's first block says nothing about later ones: "
                "a receiver with an integrated hole has several) — and replaces the covered blocks by one Skip that starts at the known "
                "range's start and has the known range's length, under `start_index < end_index`")
    nexts = [c for c in fn.calls() if re.search(r"Iterator>?::next$", c.name)]
    R.floor(rid, "loops in BlockSet::exclude", len(nexts), 2)
    for cs in nexts:
        recv = simp_deep(v.arg(cs, 0, 10))
        what = "the known ranges of a client" if term_has_call(recv, "re:IdRanges(<.*>)?::iter$") else "the clients"
        no_early_exit(R, rid, fn, cs, what, sorted_by="Range.start" if what.startswith("the known ranges") else None)
    skips = [(i, st) for i, j, st in fn.stmts() if "agg" in st["rv"] and st["rv"]["agg"].get("variant") == "Skip" and str(st["rv"]["agg"].get("adt", "")).endswith("Block")]
    R.floor(rid, "Skip replacement in BlockSet::exclude", len(skips), 1)
    for k, (i, st) in enumerate(skips):
        t = simp_deep(v.terms.rvalue(st["rv"], 14))
        br = None
        for x in walk(t):
            if x[0] == "call" and x[1].endswith("BlockRange::new") and len(x[2]) == 2:
                br = x
                break
        ok = False
        why = "no BlockRange::new"
        if br:
            idt, ln = simp_deep(br[2][0]), simp_deep(br[2][1])
            start_ok = idt[0] == "call" and idt[1].endswith("ID::new") and len(idt[2]) == 2 and simp_deep(idt[2][1])[0] == "field" and simp_deep(idt[2][1])[1].endswith("Range.start")
            len_ok = term_has_call(ln, "re:(ExactSizeIterator|Range)(<.*>)?>?::len$") or (ln[0] in ("cast",) and term_has_call(ln, "re:::len$")) or \
                any(x[0] == "bin" and x[1].replace("WithOverflow", "") == "Sub" and term_has_field(x[2], "Range.end") and term_has_field(x[3], "Range.start") for x in walk(ln))
            guarded = any(simp(l.term)[0] == "bin" and simp(l.term)[1] == "Lt" and l.polarity is True for l in v.guards(i))
            ok = start_ok and len_ok and guarded
            why = "Skip(ID(client, range.start), range.len()) under start_index < end_index" if ok else "start from the known range: %s, length of the known range: %s, guarded: %s" % (start_ok, len_ok, guarded)
        R.ob(rid, fn, "skip#%d" % k, ok, why, "%s:%s" % (fn.file, st["line"]))


NAME_READ_EXCEPTIONS = {
    "yrs::block::Item::new": "copies the parent's name into a freshly created nested branch (the reason a nested branch can carry a name at all)",
}


def branch_identity(R, ctx, rid):
    Y = ctx.yrs
    R.rule(rid, "R-GUARD a branch is nested iff it has an item (belief rule, 4 of 4 readers on the pinned tree): every read of "
                "`Branch.name` that builds an identity — Branch::id, the parent info written by Item::encode / ItemSlice::encode, "
                "StickyIndex::from_type — is reached only where `Branch.item` was tested and is None. A nested branch decoded from an "
                "update with a root parent carries a copy of that root's name (Item::new), so deciding by the name first addresses "
                "the parent root collection instead of the nested one")
    n = 0
    for p, fn in sorted(Y.fns.items()):
        if not fn.mir or "::test" in p or p.rsplit("::", 1)[-1] == "fmt":
            continue
        v = None
        k = 0
        for i, j, st in fn.stmts():
            rv = st["rv"]
            pl = rv.get("ref") or rv.get("discr") or (rv.get("use") or {}).get("c") or (rv.get("use") or {}).get("m")
            if not (isinstance(pl, dict) and F.place_has_field(pl, "Branch.name")) or isinstance(st["dst"], dict):
                continue
            root = Y.root_of(fn).path
            site = "name-read#%d" % k
            k += 1
            if root in NAME_READ_EXCEPTIONS:
                R.inventory(rid, fn, site, "accepted exception: " + NAME_READ_EXCEPTIONS[root], "%s:%s" % (fn.file, st["line"]))
                continue
            v = v or FnView(fn)
            n += 1
            ok = any(term_has_field(l.term, "Branch.item") and l.polarity == "None" for l in v.guards(i))
            R.ob(rid, fn, site, ok, "the name is read only where the branch has no item" if ok else
                 "Branch.name is read without `item is None` on its path: a nested branch that carries its root parent's name is "
                 "taken for that root", "%s:%s" % (fn.file, st["line"]))
    R.floor(rid, "identity reads of Branch.name", n, 3)


def weak_link_flags(R, ctx, rid):
    """the info byte of a weak link says which kind of boundary each side of the quoted range is; writer and reader must agree."""
    from ylib.formula import Formulas, truth_check, fshow, missing_atoms, atoms_of, evaluate
    import itertools
    Y = ctx.yrs
    R.rule(rid, "R-TABLE kind of boundary <-> info bits of a weak link (by truth table over exact path formulas): the writer "
                "TypeRef::encode_weak_link sets QUOTE iff !is_single, PARENT_ROOT iff start or end is a Root scope, START_/END_UNBOUNDED "
                "iff that boundary is NOT Relative (an open side of a root-level or NESTED collection), START_/END_ASSOC iff assoc == "
                "After; the reader decode_weak_link builds, per boundary, Root iff UNBOUNDED && PARENT_ROOT, Nested iff UNBOUNDED && "
                "!PARENT_ROOT, Relative iff !UNBOUNDED (the end of a single-element link is a copy of its start). The stream layout is "
                "the same for Relative and Nested (an id), so a disagreement here is invisible to the grammar comparison: the id of "
                "the nested collection would be read back as the id of an element")
    wf = Y.fn("yrs::types::TypeRef::encode_weak_link")
    fm = Formulas(wf, simp_deep)

    def wcls(k, t):
        t = simp_deep(t) if isinstance(t, tuple) else t
        if not isinstance(t, tuple) or t[0] != "call":
            return None
        side = "S" if term_has_field(t, "quote_start") else ("E" if term_has_field(t, "quote_end") else "")
        if t[1].endswith("StickyIndex::is_relative"):
            return "REL" + side
        if t[1].endswith("StickyIndex::is_root"):
            return "ROOT" + side
        if t[1].endswith("StickyIndex::is_nested"):
            return "NEST" + side
        if t[1].endswith("LinkSource::is_single"):
            return "SINGLE"
        if re.search(r"PartialEq(<.*>)?>?::eq$", t[1]) and term_has_field(t, "StickyIndex.assoc"):
            return "AFTER" + side
        return None
    # required bit as a function of the semantic state (kind of each boundary, single, assoc of each side)
    want_w = {
        "WEAK_REF_FLAGS_QUOTE": lambda s_: not s_["single"],
        "WEAK_REF_FLAGS_PARENT_ROOT": lambda s_: s_["S"] == "Root" or s_["E"] == "Root",
        "WEAK_REF_FLAGS_START_UNBOUNDED": lambda s_: s_["S"] != "Relative",
        "WEAK_REF_FLAGS_END_UNBOUNDED": lambda s_: s_["E"] != "Relative",
        "WEAK_REF_FLAGS_START_ASSOC": lambda s_: s_["afterS"],
        "WEAK_REF_FLAGS_END_ASSOC": lambda s_: s_["afterE"],
    }

    def atom_value(name, s_):
        if name == "SINGLE":
            return s_["single"]
        if name in ("AFTERS", "AFTERE"):
            return s_["after" + name[-1]]
        kind = {"REL": "Relative", "ROOT": "Root", "NEST": "Nested"}[name[:-1]]
        return s_[name[-1]] == kind
    states = [dict(S=a, E=b, single=c, afterS=d_, afterE=e_) for a in ("Relative", "Nested", "Root") for b in ("Relative", "Nested", "Root")
              for c in (False, True) for d_ in (False, True) for e_ in (False, True)]
    seen = set()
    for i, j, st in wf.stmts():
        rv = st["rv"]
        if rv.get("bin") != "BitOr" or not isinstance(rv.get("b"), dict) or not str(rv["b"].get("named", "")).startswith("yrs::types::WEAK_REF_FLAGS_"):
            continue
        name = rv["b"]["named"].rsplit("::", 1)[-1]
        if name not in want_w:
            continue
        seen.add(name)
        f = fm.reach(i)
        ats = atoms_of(f)
        cl = {k: wcls(k, ats[k]) for k in ats}
        free = [k for k in ats if not cl[k] or cl[k][-1] not in "SEL" and cl[k] != "SINGLE"]
        ok = not free
        cex = None
        if ok:
            for s_ in states:
                env = {k: atom_value(cl[k], s_) for k in ats}
                if evaluate(f, env) != bool(want_w[name](s_)):
                    ok = False
                    cex = {k_: s_[k_] for k_ in ("S", "E", "single")}
                    break
        R.ob(rid, wf, "writer:" + name.replace("WEAK_REF_FLAGS_", ""), ok,
             "set exactly for the states of its table row (%d states)" % len(states) if ok else
             "the bit is set under %s — not its table row (unclassified tests: %s; counterexample state %s)" % (fshow(f)[:160], free[:2], cex),
             "%s:%s" % (wf.file, st["line"]))
    R.ob(rid, wf, "writer:bits", seen == set(want_w), "bits written: %s" % sorted(x.replace("WEAK_REF_FLAGS_", "") for x in seen))
    rf = Y.fn("yrs::types::TypeRef::decode_weak_link")
    rm = Formulas(rf, simp_deep)

    def rcls(k, t):
        t = simp_deep(t) if isinstance(t, tuple) else t
        if not isinstance(t, tuple) or t[0] != "bin" or t[1] not in ("Eq", "Ne"):
            return None
        consts = [str(x[2]) for x in walk(t) if x[0] == "const" and len(x) > 2 and "WEAK_REF_FLAGS_" in str(x[2])]
        names_ = {c.rsplit("::", 1)[-1].replace("WEAK_REF_FLAGS_", "") for c in consts}
        if len(names_) != 1:
            return None
        n = names_.pop()
        masked = any(x[0] == "bin" and x[1] == "BitAnd" for x in walk(t))
        if not masked:
            return None
        zero = any(x[0] == "const" and str(x[1]).split("_")[0] == "0" and not (len(x) > 2 and x[2]) for x in (simp_deep(t[2]), simp_deep(t[3])))
        # (flags & C) == C  -> bit set ; (flags & C) == 0 -> bit clear
        pos = (t[1] == "Eq") != zero
        return n if pos else "!" + n
    aggs = [(i, st) for i, j, st in rf.stmts() if "agg" in st["rv"] and str(st["rv"]["agg"].get("adt", "")).endswith("IndexScope")]
    R.floor(rid, "IndexScope constructions in decode_weak_link", len(aggs), 6)
    for i, st in aggs:
        var = st["rv"]["agg"].get("variant")
        f = rm.reach(i)
        ats = atoms_of(f)
        named = {k: rcls(k, ats[k]) for k in ats}
        side = "END" if any(v and v.lstrip("!") == "END_UNBOUNDED" for v in named.values()) else "START"
        U = side + "_UNBOUNDED"
        req = {"Root": lambda e: e[U] and e["PARENT_ROOT"], "Nested": lambda e: e[U] and not e["PARENT_ROOT"],
               "Relative": (lambda e: not e[U]) if side == "START" else (lambda e: (not e[U]) and e["QUOTE"])}[var]
        need = {"Root": [U, "PARENT_ROOT"], "Nested": [U, "PARENT_ROOT"], "Relative": [U] if side == "START" else [U, "QUOTE"]}[var]
        have = {v.lstrip("!") for v in named.values() if v}
        lost = [n for n in need if n not in have]
        dec = [k for k in ats if named[k]]
        oth = [k for k in ats if not named[k]]
        ok = not lost
        cex = None
        if ok:
            for vals in itertools.product([False, True], repeat=len(dec)):
                env = dict(zip(dec, vals))
                e = {}
                cons = True
                for k, val in env.items():
                    n = named[k]
                    vv = (not val) if n.startswith("!") else val
                    n = n.lstrip("!")
                    if n in e and e[n] != vv:
                        cons = False
                    e[n] = vv
                if not cons or not all(n in e for n in need):
                    continue
                # the other atoms (no decode error so far, ...) are quantified existentially
                reach = False
                for ov in itertools.product([False, True], repeat=min(len(oth), 10)):
                    e2 = dict(env)
                    e2.update(dict(zip(oth[:10], ov)))
                    for k in oth[10:]:
                        e2[k] = True
                    if evaluate(f, e2):
                        reach = True
                        break
                # restrict to the bits this boundary's decision may depend on
                if side == "END" and "START_UNBOUNDED" in e:
                    pass
                if reach != bool(req(e)):
                    ok = False
                    cex = {"bits": e, "built": reach, "table": bool(req(e))}
                    break
        R.ob(rid, rf, "reader:%s:%s" % (side, var), ok, "%s boundary: %s built exactly under its table row" % (side.lower(), var) if ok else
             "%s boundary: %s is built under other bit patterns than its table row (missing tests: %s; counterexample %s)" % (side.lower(), var, lost, cex),
             "%s:%s" % (rf.file, st["line"]))


def must_pass_any(fn, frm, to, vias):
    """every path from block `frm` to block `to` passes one of the blocks `vias`."""
    cfg = fn.cfg()
    if frm in vias:
        return True
    seen, st = {frm}, [frm]
    while st:
        x = st.pop()
        for s_ in cfg.succ[x]:
            if s_ in vias:
                continue
            if s_ == to:
                return False
            if s_ not in seen:
                seen.add(s_)
                st.append(s_)
    return True


def format_replacement(R, ctx, rid):
    Y = ctx.yrs
    fn = Y.fn("yrs::types::text::insert_format")
    v = FnView(fn)
    R.rule(rid, "R-PAIR a replaced formatting mark is accounted for: text::insert_format (behind Text::format and delta Retain with "
                "attributes) deletes an existing mark whose key is being formatted — and on EVERY path from the key look-up "
                "(`attrs.get(key) is Some`) to that delete either drops the key from the negated attributes (same value) or records "
                "the mark's value in them (different value): the value the deleted mark set for the text to its right is re-inserted "
                "after the range. A path that deletes without recording (past the end of the range, …) silently unformats what "
                "follows; the delete itself is reached for Format content of live items only")
    dels = [c for c in fn.calls_to("yrs::transaction::TransactionMut::delete") if kinds_reaching(Y, fn, c.bb)[0] == {"Format"}]
    R.floor(rid, "deletes of a formatting mark in insert_format", len(dels), 1)
    acct = [c for c in fn.calls() if re.search(r"HashMap(<.*>)?::(remove|insert)$", F.strip_generics(c.name)) and
            term_has_call(simp_deep(v.arg(c, 0, 12)), "yrs::types::text::insert_attributes")]
    R.floor(rid, "updates of the negated attributes in insert_format", len(acct), 2)
    vias = {c.bb for c in acct}
    for cs, site in ordinal_sites(dels):
        starts = [l.to for l in F.switch_literals(fn) if l.polarity == "Some" and simp(l.term)[0] == "call" and
                  re.search(r"HashMap(<.*>)?::get$", F.strip_generics(simp(l.term)[1])) and fn.cfg().dominates(l.bb, cs.bb)]
        live = any(lit_call(l, "yrs::block::Item::is_deleted", False) for l in v.guards(cs.bb))
        ok = bool(starts) and all(must_pass_any(fn, s_, cs.bb, vias) for s_ in starts) and live
        R.ob(rid, fn, "accounted:" + site, ok,
             "every path from the key look-up to the delete updates the negated attributes (%d update sites)" % len(acct) if ok else
             "a formatting mark is deleted on a path that neither drops its key from nor records its value in the negated attributes "
             "(look-up found: %s, live only: %s)" % (bool(starts), live), cs.loc())
    kinds = {F.strip_generics(c.name).rsplit("::", 1)[-1] for c in acct}
    R.ob(rid, fn, "both-cases", kinds >= {"remove", "insert"}, "negated attributes are updated by %s" % sorted(kinds))


# parameters that carry formatting context into a gap scan by design: function -> parameter names
GAP_CONTEXT_PARAMS = {
    "yrs::transaction::TransactionMut::cleanup_fmt_gap": {"start_attrs", "curr_attrs"},
    "yrs::transaction::TransactionMut::cleanup_fmt_gap_contextless": set(),
}


def gap_scan_state(R, ctx, rid):
    Y = ctx.yrs
    R.rule(rid, "R-PROV a formatting clean-up decides against the marks of ITS gap only: in TransactionMut::cleanup_fmt_gap_contextless "
                "and cleanup_fmt_gap every collection whose look-up / insertion result decides a delete of a mark (`!seen.insert(key)`, "
                "`end_fmts.get(key)`, …) is either created empty inside that function (`HashSet::new()` / `HashMap::new()` local) or is "
                "one of the context parameters the function takes by design (start_attrs, curr_attrs of the context-aware variant): "
                "state that survives from one gap to the next makes the only effective mark of a later gap look like a duplicate — "
                "the clean-up runs after the observers have fired, so the deletion is reported by no event")
    n = 0
    for path, allowed in GAP_CONTEXT_PARAMS.items():
        fn = Y.fn(path)
        v = FnView(fn)
        calls_by_bb = {c.bb: c for c in fn.calls()}
        dels = fn.calls_to("yrs::transaction::TransactionMut::delete")
        R.floor(rid, "mark deletions in %s" % path.rsplit("::", 1)[-1], len(dels), 1)
        for cs, site in ordinal_sites(dels):
            bad = []
            used = []
            for l in v.guards(cs.bb):
                t = simp(l.term)
                # look through comparisons on look-up results: find collection calls anywhere in the literal
                for x in walk(simp_deep(l.term)):
                    if x[0] == "call" and re.search(r"(HashSet|HashMap|BTreeMap|BTreeSet)(<.*>)?::(insert|get|contains|contains_key|remove|get_mut)$", F.strip_generics(x[1])) and len(x) > 3:
                        c = calls_by_bb.get(x[3])
                        if c is None or not c.args:
                            continue
                        r = mir_root(fn, c.args[0])
                        if r[0] == "local" and 1 <= r[1] <= fn.argc():
                            name = fn.local_name(r[1]) or (fn.sig.get("params") or [None] * 9)[r[1] - 1]
                            used.append("param %s" % name)
                            if name not in allowed:
                                bad.append("parameter `%s`" % name)
                        elif r[0] == "local":
                            d = mir_def(fn, c.args[0])
                            fresh = d is not None and d[0] == "call" and re.search(r"::(new|default|with_capacity)$", d[1].name) is not None
                            used.append("local _%d (%s)" % (r[1], "fresh" if fresh else "not created here"))
                            if not fresh:
                                bad.append("local _%d that is not created empty in this function" % r[1])
                        else:
                            used.append(str(r)[:40])
                            if "TransactionMut." in str(r) or "Store." in str(r):
                                bad.append("a field of the transaction/store")
            n += 1
            R.ob(rid, fn, "state:" + site, not bad, "decided against %s" % (sorted(set(used)) or "no collection") if not bad else
                 "the delete is decided against %s: state from other gaps takes part in the duplicate test" % sorted(set(bad)), cs.loc())
    R.floor(rid, "mark deletions checked", n, 2)


def string_column_units(R, ctx, rid):
    Y = ctx.yrs
    R.rule(rid, "R-TABLE the v2 string column counts one unit on both sides: StringEncoder::write announces the length of each string "
                "in the unit StringDecoder::read_str consumes — the writer's count comes from `encode_utf16().count()` (UTF-16 code "
                "units, what Yjs writes), the reader walks chars and subtracts `len_utf16()` per char from the announced length while "
                "it advances the byte offset by `len_utf8()`. Counting chars or bytes on one side agrees for ASCII/BMP text and cuts "
                "every string with a surrogate pair (emoji) short, shifting all later strings of the column")

    def unit_of(t):
        if term_has_call(t, "re:::encode_utf16$") or term_has_call(t, "re:::len_utf16$"):
            return "utf16"
        if term_has_call(t, "re:str>?::chars$") and term_has_call(t, "re:Iterator>?::count$"):
            return "chars"
        if term_has_call(t, "re:::len_utf8$") or term_has_call(t, "re:str>?::len$") or term_has_call(t, "re:::as_bytes$"):
            return "bytes"
        c = simp_deep(t)
        if c[0] == "const":
            return "chars"
        return "?"
    w = Y.fn("yrs::updates::encoder::StringEncoder::write")
    wv = FnView(w)
    ws = [c for c in w.calls() if re.search(r"UIntOptRleEncoder::write_u64$", c.name)]
    R.floor(rid, "length writes in StringEncoder::write", len(ws), 1)
    wu = {unit_of(wv.arg(c, 1, 14)) for c in ws}
    r = Y.fn("yrs::updates::decoder::StringDecoder::read_str")
    rv = FnView(r)
    subs = [c for c in r.calls() if re.search(r"::(saturating_sub|checked_sub|wrapping_sub)$", c.name) and r.cfg().in_loop(c.bb)]
    ru = {unit_of(rv.arg(c, 1, 10)) for c in subs}
    for i, j, st in r.stmts():
        rv_ = st["rv"]
        if str(rv_.get("bin", "")).startswith("Sub") and r.cfg().in_loop(i):
            ru.add(unit_of(rv.terms.operand(rv_["b"], 10)))
    R.floor(rid, "consumption steps in StringDecoder::read_str", len(ru), 1)
    adv = set()
    for i, j, st in r.stmts():
        rv_ = st["rv"]
        if str(rv_.get("bin", "")).startswith("Add") and r.cfg().in_loop(i):
            adv.add(unit_of(rv.terms.operand(rv_["b"], 10)))
    ok = len(wu) == 1 and wu == ru and "?" not in wu
    R.ob(rid, w, "unit", ok, "writer counts %s, reader consumes %s" % (sorted(wu), sorted(ru)) if ok else
         "the writer announces lengths in %s but the reader consumes %s: strings with characters outside that agreement are cut" % (sorted(wu), sorted(ru)))
    R.ob(rid, r, "offset", adv == {"bytes"}, "the reader advances its slice offset in %s (must be bytes: it slices a &str)" % sorted(adv))


ENCODER_SINKS = [
    # (function, the calls its `encoder` out-parameter is handed to, in order; every one unconditional)
    ("yrs::transaction::ReadTxn::encode_state_from_snapshot", [r"Store::encode_state_from_snapshot$"]),
    ("yrs::transaction::ReadTxn::encode_diff", [r"Store::encode_diff$"]),
    ("yrs::transaction::ReadTxn::encode_state_as_update", [r"Store::write_blocks_from$", r"IdSet as .*Encode>::encode$"]),
    ("yrs::transaction::TransactionMut::encode_update", [r"Store::write_blocks_from$", r"IdSet as .*Encode>::encode$"]),
    ("yrs::store::Store::encode_diff", [r"Store::write_blocks_from$", r"IdSet as .*Encode>::encode$"]),
]


def encoder_sinks(R, ctx, rid):
    """R-OWN out-parameter: the thin encode entry points write to the caller's encoder through exactly their designated
    workers — one path, no shortcut that answers from another exporter for some inputs."""
    Y = ctx.yrs
    R.rule(rid, "R-OWN encoder out-parameter: ReadTxn::{encode_state_from_snapshot, encode_diff, encode_state_as_update}, "
                "TransactionMut::encode_update and Store::encode_diff hand their `encoder` to exactly the designated workers "
                "(blocks first, delete set second where there are two), each on every path; no other call receives it — a "
                "fast path through a different exporter writes a different document for the inputs it takes")
    for path, want in ENCODER_SINKS:
        fn = Y.fn(path)
        v = FnView(fn)
        cfg = fn.cfg()
        got = []
        for cs in fn.calls():
            for i in range(len(cs.args)):
                t = simp_deep(v.arg(cs, i))
                if t[0] == "param" and fn.local_name(t[1]) == "encoder":
                    got.append(cs)
                    break
        names = [F.strip_generics(c.name) for c in got]
        ok = len(got) == len(want) and all(re.search(w, n) for w, n in zip(want, names)) \
            and all(cfg.postdominates(c.bb, 0) for c in got) \
            and all(cfg.dominates(a.bb, b.bb) for a, b in zip(got, got[1:]))
        R.ob(rid, fn, "encoder-sinks", ok,
             "encoder is handed to %s, each on every path" % [n.rsplit("::", 2)[-2] + "::" + n.rsplit("::", 1)[-1] for n in names] if ok else
             "encoder is handed to %s (expected %s, each unconditional and in this order)" % (names, want),
             got[0].loc() if got else None)


_W = "BlockIter::new(AsRef::as_ref(self))"
_POS = "text::find_position(AsRef::as_ref(self), txn, index)"
# (function, callee regex, {argument index: canonical value | ("has", fragment)}, guard callee that must be True at the call or None)
API_DELEGATIONS = [
    ("yrs::types::array::Array::get", r"BlockIter::try_forward$", {2: "index"}, None),
    ("yrs::types::array::Array::get", r"BlockIter::read_value$", {}, "try_forward"),
    ("yrs::types::array::Array::insert", r"BlockIter::try_forward$", {2: "index"}, None),
    ("yrs::types::array::Array::insert", r"BlockIter::insert_contents$", {2: "value"}, "try_forward"),
    ("yrs::types::array::Array::insert_range", r"Array::insert$", {0: "self", 2: "index", 3: "RangePrelim::new(values)"}, None),
    ("yrs::types::array::Array::push_back", r"Array::insert$", {0: "self", 2: "Array::len(self, txn)", 3: "value"}, None),
    ("yrs::types::array::Array::push_front", r"Array::insert$", {0: "self", 2: "0", 3: "content"}, None),
    ("yrs::types::array::Array::remove", r"Array::remove_range$", {0: "self", 2: "index", 3: "1"}, None),
    ("yrs::types::array::Array::remove_range", r"BlockIter::try_forward$", {2: "index"}, None),
    ("yrs::types::array::Array::remove_range", r"BlockIter::delete$", {2: "len"}, "try_forward"),
    ("yrs::types::map::Map::get", r"Branch::get$", {0: "AsRef::as_ref(self)", 2: "key"}, None),
    ("yrs::types::map::Map::remove", r"Branch::remove$", {0: "AsRef::as_ref(self)", 2: "key"}, None),
    ("yrs::types::map::Map::insert", r"TransactionMut::create_item$",
     {1: ("has", "Option::cloned(HashMap::get(AsRef::as_ref(self).map, Into::into(key)))"), 2: "value", 3: "Some{Into::into(key)}"}, None),
    ("yrs::types::xml::Xml::insert_attribute", r"TransactionMut::create_item$",
     {1: ("has", "Option::cloned(HashMap::get(AsRef::as_ref(self).map, Into::into(key)))"), 2: "value", 3: "Some{Into::into(key)}"}, None),
    ("yrs::types::xml::Xml::remove_attribute", r"Branch::remove$", {0: "AsRef::as_ref(self)", 2: "AsRef::as_ref(attr_name)"}, None),
    ("yrs::types::xml::Xml::get_attribute", r"Branch::get$", {0: "AsRef::as_ref(self)", 2: "attr_name"}, None),
    ("yrs::types::text::Text::format", r"text::find_position$", {0: "AsRef::as_ref(self)", 2: "index"}, None),
    ("yrs::types::text::Text::format", r"text::insert_format$", {0: "AsRef::as_ref(self)", 2: _POS, 3: "len", 4: "attributes"}, None),
    ("yrs::types::text::Text::insert", r"text::find_position$", {0: "AsRef::as_ref(self)", 2: "index"}, None),
    ("yrs::types::text::Text::insert", r"TransactionMut::create_item$", {1: _POS, 2: "PrelimString{chunk}", 3: "None{}"}, None),
    ("yrs::types::text::Text::insert_embed", r"text::find_position$", {0: "AsRef::as_ref(self)", 2: "index"}, None),
    ("yrs::types::text::Text::insert_embed", r"TransactionMut::create_item$", {1: _POS, 2: "Into::into(content)", 3: "None{}"}, None),
    ("yrs::types::text::Text::insert_embed_with_attributes", r"text::find_position$", {0: "AsRef::as_ref(self)", 2: "index"}, None),
    ("yrs::types::text::Text::insert_embed_with_attributes", r"text::insert$", {0: "AsRef::as_ref(self)", 2: _POS, 3: "Into::into(embed)", 4: "attributes"}, None),
    ("yrs::types::text::Text::insert_with_attributes", r"text::find_position$", {0: "AsRef::as_ref(self)", 2: "index"}, None),
    ("yrs::types::text::Text::insert_with_attributes", r"text::insert$", {0: "AsRef::as_ref(self)", 2: _POS, 3: "PrelimString{chunk}", 4: "attributes"}, None),
    ("yrs::types::text::Text::remove_range", r"text::find_position$", {0: "AsRef::as_ref(self)", 2: "index"}, None),
    ("yrs::types::text::Text::remove_range", r"text::remove$", {1: _POS, 2: "len"}, None),
    ("yrs::types::xml::XmlFragment::insert", r"Branch::insert_at$", {0: "AsRef::as_ref(self)", 2: "index", 3: "xml_node"}, None),
    ("yrs::types::xml::XmlFragment::push_back", r"XmlFragment::insert$", {0: "self", 2: "XmlFragment::len(self, txn)", 3: "xml_node"}, None),
    ("yrs::types::xml::XmlFragment::push_front", r"XmlFragment::insert$", {0: "self", 2: "0", 3: "xml_node"}, None),
    ("yrs::types::xml::XmlFragment::remove", r"XmlFragment::remove_range$", {0: "self", 2: "index", 3: "1"}, None),
    ("yrs::types::xml::XmlFragment::remove_range", r"BlockIter::try_forward$", {2: "index"}, None),
    ("yrs::types::xml::XmlFragment::remove_range", r"BlockIter::delete$", {2: "len"}, "try_forward"),
    ("yrs::types::xml::XmlFragment::get", r"Branch::get_at$", {0: "AsRef::as_ref(self)", 1: "index"}, None),
    ("yrs::types::xml::XmlFragment::len", r"Branch::len$", {0: "AsRef::as_ref(self)"}, None),
    ("yrs::types::array::Array::len", r"Branch::len$", {0: "AsRef::as_ref(self)"}, None),
    ("yrs::branch::Branch::insert_at", r"Branch::index_to_ptr$", {1: "self.start", 2: "index"}, None),
    # preliminary values fill the new type through the type's own methods, element by element
    ("<yrs::types::array::ArrayPrelim as yrs::block::Prelim>::integrate", r"Array::push_back$", {0: "inner_ref", 1: "txn", 2: ("has", "::next(self.0)")}, None),
    ("<yrs::types::map::MapPrelim as yrs::block::Prelim>::integrate", r"Map::insert$", {0: "inner_ref", 1: "txn", 2: ("has", "::next(self.0).0"), 3: ("has", "::next(self.0).1")}, None),
    ("<yrs::types::xml::XmlElementPrelim as yrs::block::Prelim>::integrate", r"Xml::insert_attribute$", {0: "inner_ref", 2: ("has", "::next(self.attributes).0"), 3: ("has", "::next(self.attributes).1")}, None),
    ("<yrs::types::xml::XmlElementPrelim as yrs::block::Prelim>::integrate", r"XmlFragment::push_back$", {0: "inner_ref", 2: ("has", "::next(self.children)")}, None),
    ("<yrs::types::xml::XmlFragmentPrelim as yrs::block::Prelim>::integrate", r"XmlFragment::push_back$", {0: "inner_ref", 2: ("has", "::next(self.0)")}, None),
    ("<yrs::types::text::TextPrelim as yrs::block::Prelim>::integrate", r"Text::push$", {0: "inner_ref", 2: "self.0"}, None),
    ("<yrs::types::xml::XmlTextPrelim as yrs::block::Prelim>::integrate", r"Text::push$", {0: "inner_ref", 2: "self.0"}, None),
    ("<yrs::types::text::DeltaPrelim as yrs::block::Prelim>::integrate", r"Text::apply_delta$", {0: "inner_ref", 2: "self.0"}, None),
    ("<yrs::types::xml::XmlDeltaPrelim as yrs::block::Prelim>::integrate", r"Text::apply_delta$", {0: "inner_ref", 2: "self.delta"}, None),
    # attributes active at the cursor that the caller did NOT name are switched off for the inserted content — and only those
    ("yrs::block::ItemPosition::unset_missing", r"HashMap::contains_key$", {0: "attributes", 1: ("has", "::next(HashMap::iter(")}, None),
    ("yrs::block::ItemPosition::unset_missing", r"HashMap::insert$", {0: "attributes", 1: ("has", "::next(HashMap::iter("), 2: "Null{}"}, "!contains_key"),
    # the running attribute set: a mark overwrites the value of its key, a null mark removes the key
    ("yrs::types::text::update_current_attributes", r"HashMap::insert$", {0: "attrs", 1: "key", 2: "value"}, None),
    ("yrs::types::text::update_current_attributes", r"HashMap::remove$", {0: "attrs", 1: "key"}, None),
]


UNDO_DELEGATIONS = [
    ("yrs::undo::UndoManager::undo_blocking", r"UndoManager::pop_blocking$", {1: "1"}, None),
    ("yrs::undo::UndoManager::redo_blocking", r"UndoManager::pop_blocking$", {1: "0"}, None),
    ("yrs::undo::UndoManager::can_undo", r"::is_empty$", {0: ("has", ".undo_stack")}, None),
    ("yrs::undo::UndoManager::can_redo", r"::is_empty$", {0: ("has", ".redo_stack")}, None),
    ("yrs::undo::UndoManager::include_origin", r"HashSet::insert$", {0: ("has", ".options.tracked_origins"), 1: "Into::into(origin)"}, None),
    ("yrs::undo::UndoManager::exclude_origin", r"HashSet::remove$", {0: ("has", ".options.tracked_origins"), 1: "Into::into(origin)"}, None),
    ("yrs::undo::UndoManager::clear_all", r"UndoManager::clear_internal$", {0: "self", 1: "1", 2: "1"}, None),
]


GC_DELEGATIONS = [
    ("yrs::gc::GCCollector::collect", r"GCCollector::mark_in_scope$", {1: "txn.store", 2: "None{}", 3: "txn.delete_set"}, None),
    ("yrs::gc::GCCollector::collect", r"GCCollector::collect_marked$", {1: "txn"}, None),
    ("yrs::gc::GCCollector::collect_all", r"GCCollector::mark_in_scope$", {1: "txn.store", 2: "Some{txn.merge_blocks}", 3: "delete_set"}, None),
    ("yrs::gc::GCCollector::collect_all", r"GCCollector::mark_all$", {1: "txn"}, None),
    ("yrs::gc::GCCollector::collect_all", r"GCCollector::collect_marked$", {1: "txn"}, None),
    ("yrs::gc::GCCollector::mark", r"HashMap::entry$", {0: "self.marked", 1: "id.client"}, None),
    ("yrs::gc::GCCollector::mark", r"Vec::push$", {1: "id.clock"}, None),
    ("yrs::gc::GCCollector::mark_all", r"Item::gc$", {1: "self", 2: "0"}, "is_deleted"),
]

AWARENESS_DELEGATIONS = [
    ("yrs::sync::awareness::Awareness::clean_local_state", r"Awareness::remove_state$", {0: "self", 1: "Doc::client_id(self.doc)"}, None),
    ("yrs::sync::awareness::Awareness::local_state_raw", r"DashMap::get$", {0: "self.states", 1: "Doc::client_id(self.doc)"}, None),
    ("yrs::sync::awareness::Awareness::meta", r"DashMap::get$", {0: "self.states", 1: "client_id"}, None),
    ("yrs::sync::awareness::Awareness::state", r"DashMap::get$", {0: "self.states", 1: "client_id"}, None),
    ("yrs::sync::awareness::Awareness::set_local_state", r"Awareness::set_local_state_raw$", {0: "self", 1: ("has", "serde_json::to_string(state)")}, None),
    ("yrs::sync::awareness::Awareness::iter", r"DashMap::iter$", {0: "self.states"}, None),
]


_IM = "yrs::ids::IdMapInner::"
IDSET_DELEGATIONS = [
    ("yrs::id_set::IdSet::contains", r"IdMapInner::contains$", {0: "self.0", 1: "id"}, None),
    ("yrs::id_set::IdSet::get", r"IdMapInner::get$", {0: "self.0", 1: "client_id"}, None),
    ("yrs::id_set::IdSet::is_empty", r"IdMapInner::is_empty$", {0: "self.0"}, None),
    ("yrs::id_set::IdSet::len", r"IdMapInner::len$", {0: "self.0"}, None),
    ("yrs::id_set::IdSet::merge", r"IdMapInner::merge$", {0: "self.0", 1: "other.0"}, None, ("other",)),
    ("yrs::id_set::IdSet::merge_with", r"IdMapInner::merge_with$", {0: "self.0", 1: "other.0"}, None, ("other",)),
    ("yrs::id_set::IdSet::diff", r"IdMapInner::diff$", {0: "self.0", 1: "other.0"}, None, ("other",)),
    ("yrs::id_set::IdSet::diff_with", r"IdMapInner::diff_with$", {0: "self.0", 1: "other.0"}, None, ("other",)),
    ("yrs::id_set::IdSet::intersect", r"IdMapInner::intersect$", {0: "self.0", 1: "other.0"}, None, ("other",)),
    ("yrs::id_set::IdSet::intersect_with", r"IdMapInner::intersect_with$", {0: "self.0", 1: "other.0"}, None, ("other",)),
    ("yrs::id_set::IdSet::insert", r"IdMapInner::entry$", {0: "self.0", 1: "id.client"}, None),
    ("yrs::id_set::IdSet::insert", r"IdRanges::insert$", {1: "Range{id.clock, (id.clock + len)}"}, None),
    (_IM + "contains", r"BTreeMap::get$", {0: "self.0", 1: "id.client"}, None),
    (_IM + "contains", r"IdRanges::contains_clock$", {1: "id.clock"}, None),
    (_IM + "get", r"BTreeMap::get$", {0: "self.0", 1: "client_id"}, None),
    (_IM + "merge", r"IdMapInner::merge_with$", {1: "other"}, None),
    (_IM + "diff", r"IdMapInner::diff_with$", {1: "other"}, None),
    (_IM + "intersect", r"IdMapInner::intersect_with$", {1: "other"}, None),
    (_IM + "insert_range", r"BTreeMap::entry$", {0: "self.0", 1: "client_id"}, None),
    (_IM + "insert_range", r"IdRanges::insert_with$", {1: "range", 2: "value"}, None),
    ("yrs::id_map::IdMap::contains", r"IdMapInner::contains$", {0: "self.inner", 1: "id"}, None),
    ("yrs::id_map::IdMap::is_empty", r"IdMapInner::is_empty$", {0: "self.inner"}, None),
    ("yrs::id_map::IdMap::intersect_with", r"IdMapInner::intersect_with$", {0: "self.inner", 1: "other.inner"}, None, ("other.inner",)),
    ("yrs::id_map::IdMap::merge_with", r"IdMapInner::merge_with$", {0: "self.inner", 1: "other.inner"}, None, ("other.inner",)),
    ("yrs::id_map::IdMap::insert", r"IdMapInner::insert_range$", {0: "self.inner", 1: "range.client", 2: "BlockRange::clock_range(range)", 3: "ContentAttributes{attrs}"}, None),
    ("yrs::id_map::IdMap::remove", r"IdMapInner::entry$", {0: "self.inner", 1: "range.client"}, None),
    ("yrs::id_map::IdMap::remove", r"IdRanges::remove$", {1: "BlockRange::clock_range(range)"}, None),
]


READ_DELEGATIONS = [
    ("yrs::types::xml::Xml::siblings", r"xml::Siblings::new$", {0: "AsRef::as_ref(self).item", 1: "txn"}, None),
    ("yrs::types::xml::XmlFragment::children", r"xml::XmlNodes::new$", {0: "BlockIter::new(AsRef::as_ref(self))", 1: "txn"}, None),
    ("yrs::types::xml::XmlFragment::successors", r"xml::TreeWalker::new$", {0: "AsRef::as_ref(self)", 1: "txn"}, None),
    ("yrs::types::xml::XmlFragment::first_child", r"Branch::first$", {0: "AsRef::as_ref(self)"}, None),
    ("yrs::types::xml::XmlElementRef::tag", r"XmlElementRef::try_tag$", {0: "self"}, None),
    ("yrs::types::map::Map::iter", r"map::MapIter::new$", {0: "AsRef::as_ref(self)", 1: "txn"}, None),
    ("yrs::types::map::Map::keys", r"map::Keys::new$", {0: "AsRef::as_ref(self)", 1: "txn"}, None),
    ("yrs::types::map::Map::values", r"map::Values::new$", {0: "AsRef::as_ref(self)", 1: "txn"}, None),
    ("yrs::transaction::TransactionMut::has_deleted", r"IdSet::contains$", {0: "self.delete_set", 1: "id"}, None),
    ("yrs::state_vector::StateVector::contains", r"StateVector::get$", {0: "self", 1: "id.client"}, None),
]

WEAK_DELEGATIONS = [
    # dereferencing walks from the start boundary to the end boundary, in that order, inside the start element's parent
    ("yrs::types::weak::LinkSource::unquote", r"StickyIndex::get_item$", {0: "self.quote_start", 1: "txn"}, None),
    ("yrs::types::weak::LinkSource::unquote", r"weak::Unquote::new$", {0: "txn", 1: ("has", ".parent)"), 2: "self.quote_start", 3: "self.quote_end"}, None),
    # the walk starts at the head of the start element's PARENT: RangeIter looks for the start boundary itself — a walk that starts
    # at the element the sticky index resolves to begins to the right of an excluded start and never finds it
    ("yrs::types::weak::LinkSource::unquote", r"TypePtr::as_branch$", {0: ("has", "StickyIndex::get_item(self.quote_start, txn)")}, None),
    ("yrs::types::weak::Unquote::new", r"iter::BlockIter::new$", {0: "parent.start"}, None),
    ("<yrs::types::weak::WeakRef<yrs::types::text::TextRef> as yrs::types::GetString>::get_string", r"LinkSource::to_string$", {0: "WeakRef::source(self)", 1: "txn"}, None),
    ("<yrs::types::weak::WeakRef<yrs::types::xml::XmlTextRef> as yrs::types::GetString>::get_string", r"LinkSource::to_xml_string$", {0: "WeakRef::source(self)", 1: "txn"}, None),
]


def api_delegations(R, ctx, rid, table=None, what=None):
    """R-PROV the public methods of the shared types hand their own arguments on."""
    from .accessors import _canon
    Y = ctx.yrs
    if table is not None:
        R.rule(rid, what)
        return _delegations(R, Y, rid, table, len(table) - 1)
    R.rule(rid, "R-PROV the methods of Array / Map / Text / XmlFragment / XML attributes are thin: each reaches its worker (BlockIter "
                "walk, find_position, create_item, Branch::get / remove / insert_at, or a sibling method) exactly once, with the "
                "caller's own index / length / key / value in the worker's slots — values rebuilt from MIR and rendered canonically, "
                "so named temporaries do not matter; push_back is insert at len(), push_front insert at 0, remove(i) is "
                "remove_range(i, 1); the positional effect (insert_contents / delete / read_value) runs only where try_forward "
                "answered true. An index shifted by one, the wrong length, the other parameter in a slot are all value changes here")
    return _delegations(R, Y, rid, API_DELEGATIONS, 30)


def _delegations(R, Y, rid, table, floor):
    from .accessors import _canon
    n = 0
    for entry in table:
        path, callee, want, guard = entry[:4]
        untouched = entry[4] if len(entry) > 4 else ()
        fn = Y.fn(path)
        v = FnView(fn)
        css = fn.calls_to("re:" + callee)
        site = callee.rstrip("$").rsplit("::", 1)[-1]
        if len(css) != 1:
            R.ob(rid, fn, site, False, "%d calls of %s (expected one)" % (len(css), callee))
            continue
        cs = css[0]
        n += 1
        bad = []
        for idx, exp in sorted(want.items()):
            got = _canon(v.arg(cs, idx, 12)) if idx < len(cs.args) else "<absent>"
            if isinstance(exp, tuple):
                if exp[1] not in got:
                    bad.append("argument %d = %s lacks %s" % (idx, got, exp[1]))
            elif got != exp:
                bad.append("argument %d = %s — expected %s" % (idx, got, exp))
        for pname in untouched:
            # the operand reaches the worker as the caller passed it: no other call of this function takes it (or a part of it)
            # before the delegation, and the delegation runs on every path
            base = pname.split(".")[0]
            sub = pname.split(".")[1:]
            for other in fn.calls():
                if other is cs or other.bb == cs.bb or not fn.cfg().dominates(other.bb, cs.bb):
                    continue
                for i in range(len(other.args)):
                    a = simp_deep(v.arg(other, i, 8))
                    if root_name(a) == base and (not sub or field_path(a)[:len(sub)] == sub or not field_path(a)):
                        bad.append("%s is handed to %s before the delegation" % (pname, F.strip_generics(other.name).rsplit("::", 1)[-1]))
            if not fn.cfg().postdominates(cs.bb, 0):
                bad.append("the delegation does not run on every path")
        if guard:
            pol = not guard.startswith("!")
            gname = guard.lstrip("!")
            okg = v.has_guard(cs.bb, lambda l: isinstance(l.term, tuple) and l.term[0] == "call" and l.term[1].endswith(gname) and l.polarity is pol)
            if not okg:
                bad.append("not under %s() == %s" % (gname, str(pol).lower()))
        R.ob(rid, fn, site, not bad, "hands on its own arguments" if not bad else "; ".join(bad), cs.loc())
    R.floor(rid, "delegations checked", n, floor)


def map_try_update(R, ctx, rid):
    """Map::try_update writes unless the live current value is the same plain value."""
    from ylib.formula import Formulas, truth_check, fshow, atoms_of
    Y = ctx.yrs
    R.rule(rid, "R-GUARD Map::try_update: the write (Map::insert with the caller's key and value) is skipped exactly when the key has an "
                "entry, that entry is live, holds a plain value, and its last element equals the new value — truth table over the path "
                "formula of the insert; a tombstoned or nested-type entry is always overwritten (a skipped write after a remove leaves "
                "the key absent)")
    fn = Y.fn("yrs::types::map::Map::try_update")
    v = FnView(fn)
    ins = fn.calls_to("yrs::types::map::Map::insert")
    R.floor(rid, "Map::insert in try_update", len(ins), 1)
    if len(ins) != 1:
        R.ob(rid, fn, "single-write", False, "%d insert calls" % len(ins))
        return
    fm = Formulas(fn, simp_deep)
    f = fm.reach(ins[0].bb)

    def classify(k, t):
        if not isinstance(t, tuple):
            return None
        t = simp_deep(t)
        if t[0] == "call":
            nm = F.strip_generics(t[1])
            if nm.endswith("HashMap::get") and k.endswith(" is Some"):
                return "FOUND"
            if nm.endswith("Item::is_deleted") or nm.endswith("ItemPtr::is_deleted"):
                return "DELETED"
            if re.search(r"::last$", nm) and k.endswith(" is Some"):
                return "HAS_LAST"
            if re.search(r"PartialEq.*::eq$", nm):
                return "SAME"
            if re.search(r"PartialEq.*::ne$", nm):
                return "!SAME"
        if t[0] == "field" and t[1].endswith("Item.content") and k.endswith(" is Any"):
            return "PLAIN"
        return None
    names = {classify(k, t) for k, t in atoms_of(f).items()}
    free = [k for k, t in atoms_of(f).items() if classify(k, t) is None]

    def required(e):
        need = ("FOUND", "DELETED", "PLAIN", "HAS_LAST", "SAME")
        if any(n not in e for n in need):
            return None
        skip = e["FOUND"] and not e["DELETED"] and e["PLAIN"] and e["HAS_LAST"] and e["SAME"]
        return not skip
    ok, cex, keys = truth_check(f, classify, required, max_atoms=10)
    have = {"FOUND", "DELETED", "PLAIN", "HAS_LAST", "SAME"} <= {n.lstrip("!") for n in names if n}
    R.ob(rid, fn, "write-decision", ok and have and not free,
         "insert is skipped exactly for a live, plain, equal current value" if ok and have and not free else
         "the write decision differs: %s" % (cex if have and not free else "atoms %s, unrecognised %s" % (sorted(n for n in names if n), free)), ins[0].loc())
    from .accessors import _canon
    a = [_canon(v.arg(ins[0], i, 10)) for i in range(len(ins[0].args))]
    R.ob(rid, fn, "write-args", a[0] == "self" and a[2] == "Into::into(key)" and a[3] == "Into::into(value)", "insert(%s)" % "; ".join(a), ins[0].loc())


def format_balance(R, ctx, rid):
    """R-PAIR opening marks are always closed."""
    Y = ctx.yrs
    R.rule(rid, "R-PAIR formatting marks are balanced: wherever text::insert_attributes integrates the opening marks of an attributed "
                "insertion / format (text::insert, text::insert_format), text::insert_negated_attributes runs on EVERY path to the "
                "function's return (post-dominance) and receives the negated set the opening call returned — an early return in "
                "between (nothing to insert, range exhausted) leaves the opening marks unclosed and re-formats everything to the right")
    n = 0
    for root, css in sorted(callers_of(Y, "yrs::types::text::insert_attributes").items()):
        for cs, site in ordinal_sites(css):
            fn = cs.fn
            v = FnView(fn)
            cfg = fn.cfg()
            n += 1
            closes = fn.calls_to("yrs::types::text::insert_negated_attributes")
            ok = False
            why = "no insert_negated_attributes on every path behind the opening marks"
            for c in closes:
                arg = simp_deep(v.arg(c, 3, 12))
                from_open = any(isinstance(x, tuple) and x and x[0] == "call" and len(x) > 3 and x[3] == cs.bb for x in walk(arg)) or \
                    term_has_call(arg, "yrs::types::text::insert_attributes")
                if cfg.dominates(cs.bb, c.bb) and cfg.postdominates(c.bb, cs.bb) and from_open:
                    ok = True
                    why = "closed on every path by insert_negated_attributes(%s)" % sshow(arg, 4)
            R.ob(rid, fn, site, ok, why, cs.loc())
    R.floor(rid, "callers of insert_attributes", n, 2)


def export_extent(R, ctx, rid):
    """the block export is bounded by what the store holds, not by the gap-aware state vector."""
    Y = ctx.yrs
    R.rule(rid, "R-PROV upper bound of the block export: Store::write_blocks_from (behind update events, encode_diff and the "
                "full-state export) selects, per client, the blocks between the requested clock and the END of the client's block "
                "list — the local bound handed to diff_state_vectors is built from ClientBlockList::clock — and not up to "
                "BlockStore::get_state_vector, which stops at the first gap: blocks integrated behind a Skip (an update of a "
                "client that arrived before an earlier, independent one) lie above the state vector; bounded by it they are "
                "written to no update event and to no sync answer until the gap is filled")
    fn = Y.fn("yrs::store::Store::write_blocks_from")
    v = FnView(fn)
    ds = fn.calls_to("yrs::store::Store::diff_state_vectors")
    R.floor(rid, "diff_state_vectors in write_blocks_from", len(ds), 1)
    for cs, site in ordinal_sites(ds):
        a = simp_deep(v.arg(cs, 0, 14))
        gap_aware = term_has_call(a, "yrs::block_store::BlockStore::get_state_vector")
        extent = term_has_call(a, "yrs::block_store::BlockStore::iter") or term_has_call(a, "yrs::block_store::ClientBlockList::clock") \
            or term_has_call(a, "yrs::block_store::BlockStore::get_clock")
        if not extent:
            # the bound may be assembled by a closure over the block lists
            for c in Y.with_closures(fn):
                if c.path != fn.path and c.calls_to("yrs::block_store::ClientBlockList::clock"):
                    extent = extent or any(isinstance(x, tuple) and x and x[0] == "agg" and x[1] == c.path for x in walk(a))
        R.ob(rid, fn, site + ":local-bound", extent and not gap_aware,
             "local bound = extent of the block lists (%s)" % sshow(a, 5) if extent and not gap_aware else
             "local bound = %s — the gap-aware state vector: blocks behind a Skip are never exported" % sshow(a, 5), cs.loc())


DELTA_DISPATCH = {
    # worker -> (Delta variant, {argument index: source inside that variant})
    "yrs::types::text::insert": ("Inserted", {3: "Inserted.0", 4: "Inserted.1"}),
    "yrs::types::text::remove": ("Deleted", {2: "Deleted.0"}),
    "yrs::types::text::insert_format": ("Retain", {3: "Retain.0", 4: "Retain.1"}),
}


def apply_delta_dispatch(R, ctx, rid):
    """Text::apply_delta: each kind of delta op reaches its own worker with its own payload."""
    Y = ctx.yrs
    R.rule(rid, "R-TABLE dispatch of Text::apply_delta: an Inserted(value, attrs) op reaches text::insert with that value and those "
                "attributes, Deleted(len) reaches text::remove with that length, Retain(len, attrs) reaches text::insert_format with "
                "that length and those attributes — each worker is reachable for its own variant only (kinds_reaching over the Delta "
                "discriminant), exactly once, all three share the one running position, and a missing attribute set means the empty set")
    fn = Y.fn("yrs::types::text::Text::apply_delta")
    v = FnView(fn)
    pos = set()
    for worker, (variant, args) in sorted(DELTA_DISPATCH.items()):
        css = fn.calls_to(worker)
        site = worker.rsplit("::", 1)[-1]
        if len(css) != 1:
            R.ob(rid, fn, site, False, "%d calls of %s (expected one)" % (len(css), worker))
            continue
        cs = css[0]
        kinds, used = kinds_reaching(Y, fn, cs.bb, enum="yrs::types::Delta", place_hint=None, names=["Inserted", "Deleted", "Retain"])
        bad = []
        if kinds != {variant} or not used:
            bad.append("reachable for %s" % sorted(kinds))
        for idx, want in sorted(args.items()):
            t = simp_deep(v.arg(cs, idx, 12))
            srcs = sorted({x[1].rsplit("::", 1)[-1] for x in walk(t) if isinstance(x, tuple) and x and x[0] == "field"
                           and re.search(r"::Delta::(Inserted|Deleted|Retain)\.\d+$", x[1])})
            if srcs != [want]:
                bad.append("argument %d comes from %s — expected %s" % (idx, srcs or sshow(t, 4), want))
        pi = 2 if site != "remove" else 1
        pos.add(mir_root(fn, cs.args[pi]))
        R.ob(rid, fn, site, not bad, "%s -> %s with its own payload" % (variant, site) if not bad else "; ".join(bad), cs.loc())
    R.ob(rid, fn, "one-position", len(pos) == 1, "all three workers advance the same running position: %s" % (len(pos) == 1))


PRELIM_KINDS = {
    "<yrs::types::array::ArrayPrelim as yrs::block::Prelim>::into_content": {"Array"},
    "<yrs::types::map::MapPrelim as yrs::block::Prelim>::into_content": {"Map"},
    "<yrs::types::text::DeltaPrelim as yrs::block::Prelim>::into_content": {"Text"},
    "<yrs::types::text::TextPrelim as yrs::block::Prelim>::into_content": {"Text"},
    "<yrs::types::xml::XmlDeltaPrelim as yrs::block::Prelim>::into_content": {"XmlText"},
    "<yrs::types::xml::XmlElementPrelim as yrs::block::Prelim>::into_content": {"XmlElement"},
    "<yrs::types::xml::XmlFragmentPrelim as yrs::block::Prelim>::into_content": {"XmlFragment"},
    "<yrs::types::xml::XmlTextPrelim as yrs::block::Prelim>::into_content": {"XmlText"},
}
IN_KINDS = {"Text": "Text", "Array": "Array", "Map": "Map", "XmlElement": "XmlElement", "XmlFragment": "XmlFragment",
            "XmlText": "XmlText", "SubDoc": "Doc", "WeakLink": "WeakLink"}   # TypeRef variant -> In variant


def prelim_kinds(R, ctx, rid):
    """a preliminary value creates the shared type of its own kind."""
    Y = ctx.yrs
    R.rule(rid, "R-TABLE kind of the type a preliminary value creates: every Prelim::into_content builds Branch::new(TypeRef::K) with "
                "the K of its own kind (ArrayPrelim → Array, TextPrelim / DeltaPrelim → Text, XmlTextPrelim / XmlDeltaPrelim → XmlText, "
                "…), and the polymorphic `In` builds TypeRef::K exactly for its variant of that kind (Doc → SubDoc) — the kind decides "
                "how every replica reads the nested collection back")
    n = 0
    for path, want in sorted(PRELIM_KINDS.items()):
        fn = Y.fn(path)
        got = set()
        for i, j, st in fn.stmts():
            ag = st["rv"].get("agg") if isinstance(st["rv"], dict) else None
            if ag and str(ag.get("adt", "")).endswith("types::TypeRef"):
                got.add(ag.get("variant"))
        n += 1
        R.ob(rid, fn, "kind", got == want, "creates TypeRef::%s" % sorted(got) if got == want else "creates TypeRef::%s — expected %s" % (sorted(got), sorted(want)))
    fn = Y.fn("<yrs::input::In as yrs::block::Prelim>::into_content")
    names = [v[1] for v in Y.enums.get("yrs::input::In", [])]
    seen = set()
    for i, j, st in fn.stmts():
        ag = st["rv"].get("agg") if isinstance(st["rv"], dict) else None
        if ag and str(ag.get("adt", "")).endswith("types::TypeRef"):
            var = ag.get("variant")
            kinds, used = kinds_reaching(Y, fn, i, enum="yrs::input::In", place_hint=None, names=names)
            seen.add(var)
            n += 1
            ok = var in IN_KINDS and kinds == {IN_KINDS[var]} and used > 0
            R.ob(rid, fn, "kind:" + str(var), ok, "TypeRef::%s for In::%s" % (var, sorted(kinds)) if ok else
                 "TypeRef::%s is built for In::%s — expected In::%s only" % (var, sorted(kinds), IN_KINDS.get(var)))
    expected = {k for k, v in IN_KINDS.items() if v in names}
    R.ob(rid, fn, "all-kinds", expected <= seen, "kinds built: %s" % sorted(seen) if expected <= seen else "never builds TypeRef::%s" % sorted(expected - seen))
    R.floor(rid, "kind constructions checked", n, 12)


def range_boundaries(R, ctx, rid):
    """boundary ids of a range walk are compared as whole ids."""
    import json as _json
    Y = ctx.yrs
    R.rule(rid, "R-SCAN boundary membership by whole id: the range iterators of iter.rs (behind quotations: unquote, materialize, "
                "to_string of links) decide whether a boundary id falls into an item with Item::contains — client and clock — and "
                "with nothing else: the expected number of raw comparisons that read the clock of an id there is zero (positive "
                "control: the contains calls themselves). Clocks of different clients coincide all the time; a clock-only test ends "
                "or starts a quotation at another client's item")
    n_contains = 0
    raw = []
    for p, fn in sorted(Y.fns.items()):
        if fn.file != "yrs/src/iter.rs" or not fn.mir or "::test" in p:
            continue
        n_contains += len([c for c in fn.calls() if re.search(r"::(Item|ItemPtr|ItemSlice)::contains(_id)?$", "::" + F.strip_generics(c.name))])
        v = None
        for i, j, st in fn.stmts():
            rv = st["rv"]
            if rv.get("bin") in ("Le", "Lt", "Ge", "Gt", "Eq", "Ne"):
                v = v or FnView(fn)
                t = v.terms.rvalue(rv, 8)
                if term_has_field(t, "ID.clock"):
                    # arithmetic on the clock is fine once the id is known to lie in the item (offset of the cut)
                    inside = v.has_guard(i, lambda l: isinstance(l.term, tuple) and l.term[0] == "call" and
                                         re.search(r"::contains(_id)?$", F.strip_generics(l.term[1])) is not None and l.polarity is True)
                    if not inside:
                        raw.append((fn, st.get("line"), rv["bin"]))
    R.floor(rid, "Item::contains boundary tests in iter.rs", n_contains, 2)
    for fn, line, op in raw:
        R.ob(rid, fn, "raw-clock-test:%s" % op, False, "compares the clock of an id directly (%s) — the client is not part of the test" % op,
             "%s:%s" % (fn.file, line))
    if not raw:
        R.ob(rid, "yrs::iter", "no-raw-clock-tests", True, "no boundary test in iter.rs reads an id's clock on its own (%d contains tests)" % n_contains)
