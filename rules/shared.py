"""Clauses shared by several properties."""
from ylib import facts as F
from .common import *  # noqa

TXN = "yrs::transaction::TransactionMut"

DELETE_EFFECT_CALLS = (
    "yrs::block::Item::mark_as_deleted",
    "yrs::id_set::IdSet::insert",
    TXN + "::add_changed_type",
    "yrs::types::weak::LinkSource::unlink_all",
    "re:^std::collections::HashMap::(remove|insert)$",
    "re:^std::vec::Vec::push$",
)


def idempotent_delete(R, ctx, rid):
    """Every effect of TransactionMut::delete is guarded by !item.is_deleted() of the parameter item;
    every TransactionMut::delete inside apply_delete is guarded by !block.is_deleted()."""
    Y = ctx.yrs
    fn = Y.fn(TXN + "::delete")
    R.rule(rid, "R-GUARD: in TransactionMut::delete every effect (length decrements, mark_as_deleted, delete_set.insert, "
                "add_changed_type, subdoc/link bookkeeping, pushes to the recursion list) requires `!item.is_deleted()` on every "
                "path; in apply_delete every delete(item) requires `!block.is_deleted()` — deletion is idempotent")
    v = FnView(fn)

    def not_deleted(l):
        if not lit_call(l, "yrs::block::Item::is_deleted", False):
            return False
        a = simp(simp(l.term)[2][0])
        return root_name(a) == "item" and not field_path(a)

    n = 0
    effects = []
    for cs, site in ordinal_sites(fn.calls_to(*DELETE_EFFECT_CALLS)):
        # pushes to merge_blocks after a failed recursive delete are not state changes of this item
        if cs.is_("re:^std::vec::Vec::push$"):
            recv = simp_deep(v.arg(cs, 0))
            if field_path(recv)[-1:] == ["merge_blocks"]:
                continue
        effects.append((cs.bb, site, cs.loc()))
    for fld in ("Branch.block_len", "Branch.content_len"):
        for k, (i, j, s) in enumerate(fn.field_writes(fld)):
            effects.append((i, "write:%s#%d" % (fld, k), "%s:%s" % (fn.file, s["line"])))
    for bb, site, loc in effects:
        n += 1
        ok = v.has_guard(bb, not_deleted)
        R.ob(rid, fn, site, ok, "guards: %s" % v.guard_descs(bb), loc)
    R.floor(rid, "effects in TransactionMut::delete", n, 10)

    ad = Y.fn(TXN + "::apply_delete")
    av = FnView(ad)
    dels = ad.calls_to(TXN + "::delete")
    R.floor(rid, "delete calls in apply_delete", len(dels), 1)
    for cs, site in ordinal_sites(dels):
        ok = av.has_guard(cs.bb, lambda l: lit_call(l, "yrs::block::Block::is_deleted", False)
                          or lit_call(l, "yrs::block::Item::is_deleted", False))
        R.ob(rid, ad, site, ok, "guards: %s" % av.guard_descs(cs.bb), cs.loc())


def unapplied_within_range(R, ctx, rid):
    """every deletion stashed by apply_delete lies inside the incoming range it came from."""
    import json as _json
    import re
    Y = ctx.yrs
    R.rule(rid, "R-PROV stashed deletions stay inside the incoming range: every `unapplied.insert(ID::new(client, S), L)` in "
                "TransactionMut::apply_delete has L = E - S or L = min(_, E - S) with E the end of the incoming range and S the very "
                "clock the stashed range starts at (value numbering over MIR) — a longer remainder is replayed later as a deletion "
                "nobody made, and travels to every replica with the delete set")
    fn = Y.fn("yrs::transaction::TransactionMut::apply_delete")

    def is_range_end(op):
        r = mir_root(fn, op)
        if r[0] == "place":
            try:
                pl = _json.loads(r[1])
            except Exception:
                return False
            pr = [x for x in pl.get("p", []) if isinstance(x, str) and x != "*"]
            return bool(pr) and pr[-1].endswith("Range.end")
        return False

    def diff_from_end(op, skey):
        d = mir_difference(fn, op)
        if not d:
            return False
        e, s = d
        return is_range_end(e) and mir_value_key(fn, s) == skey

    ins = []
    for cs in fn.calls_to("yrs::id_set::IdSet::insert"):
        if len(cs.args) != 3:
            continue
        recv = mir_root(fn, cs.args[0])
        # the receiver is the local set that is returned (not self.delete_set)
        if recv[0] == "local" and "IdSet" in str(fn.local_ty(recv[1])):
            ins.append(cs)
    R.floor(rid, "insertions into the unapplied set in apply_delete", len(ins), 4)
    v = FnView(fn)
    for cs, site in ordinal_sites(ins):
        d = mir_def(fn, cs.args[1])
        if not (d and d[0] == "call" and F.strip_generics(d[1].name).endswith("ID::new") and len(d[1].args) == 2):
            R.ob(rid, fn, site, False, "the stashed id is not built with ID::new(client, clock)", cs.loc())
            continue
        skey = mir_value_key(fn, d[1].args[1])
        L = cs.args[2]
        ok = diff_from_end(L, skey)
        how = "L = end - start"
        if not ok:
            dl = mir_def(fn, L)
            if dl and dl[0] == "call" and re.search(r"(Ord(<.*>)?::min|::min)$", dl[1].name) and len(dl[1].args) == 2:
                ok = any(diff_from_end(a, skey) for a in dl[1].args)
                how = "L = min(_, end - start)"
        R.ob(rid, fn, site, ok,
             "%s with the start the range is stashed at" % how if ok else
             "stashed length %s is not `end of the incoming range - %s` (nor a min with it): the stashed range can run past the "
             "deletion that was received" % (sshow(v.arg(cs, 2, 10), 6), sshow(v.terms.operand(d[1].args[1], 8), 4)), cs.loc())

    # the first and the last block of the range are split exactly at the range boundaries
    sp = fn.calls_to("yrs::block_store::BlockStore::split_block_inner")
    R.floor(rid, "boundary splits in apply_delete", len(sp), 2)
    for cs, site in ordinal_sites(sp):
        d = mir_difference(fn, cs.args[2]) if len(cs.args) == 3 else None
        ok = False
        why = "split offset is not a difference"
        if d:
            b, c = d
            rb = mir_root(fn, b)
            bound = False
            if rb[0] == "place":
                try:
                    pl = _json.loads(rb[1])
                    pr = [x for x in pl.get("p", []) if isinstance(x, str) and x != "*"]
                    bound = bool(pr) and (pr[-1].endswith("Range.end") or pr[-1].endswith("Range.start"))
                except Exception:
                    bound = False
            rc = mir_root(fn, c)
            same_item = False
            if rc[0] == "place":
                try:
                    pl = _json.loads(rc[1])
                    pr = [x for x in pl.get("p", []) if isinstance(x, str) and x != "*"]
                    if len(pr) >= 2 and pr[-1].endswith("ID.clock") and pr[-2].endswith("Item.id"):
                        same_item = True
                except Exception:
                    same_item = False
            ok = bound and same_item
            why = "split offset = <range boundary> - <item>.id.clock: boundary=%s item-clock=%s" % (bound, same_item)
        R.ob(rid, fn, "split:" + site.rsplit("#", 1)[-1], ok, why, cs.loc())
