"""R-PRED: exact formulas of small boolean predicates the properties lean on.

Each entry names a function, a list of (regex over the parameter-normalised rendering of an atom -> atom name, optionally
prefixed with ! for a negated reading) and the required boolean function over the atom names, written from the property's
semantics (not snapshotted from the code). The return value's exact formula (ylib.formula) is compared by truth table:
refactorings that keep the function's truth table pass, any logic change fails, an atom that cannot be classified is a free
variable and fails closed if the result depends on it."""
import re

from ylib import facts as F
from ylib.formula import Formulas, truth_check, fshow
from .common import *  # noqa


def pnorm(t):
    """term with parameters renamed to $1, $2, ... (so that renaming a parameter does not change the rendering)."""
    if isinstance(t, tuple):
        if t and t[0] == "param":
            return ("param", t[1], "$%d" % t[1])
        if t and t[0] == "call":
            return ("call", t[1], tuple(pnorm(a) for a in t[2])) + tuple(t[3:])
        return tuple(pnorm(x) for x in t)
    return t


TABLE = {
    "detect_conflict": {
        "fn": "yrs::block::Item::detect_conflict",
        "why": "an incoming item needs the conflict scan iff it does not slot exactly between its recorded neighbours: no left and "
               "(a right whose left is occupied, or no right at all — the parent's list may be non-empty), or a left whose right is not "
               "the item's right",
        "atoms": [(r"^\$1\.left is Some$", "L"), (r"^\$1\.right is Some$", "R"), (r"^Option::is_some\(\$1\.right\.left\)$", "RL"),
                  (r"^Option::is_none\(\$1\.right\.left\)$", "!RL"), (r"^PartialEq(>)?::ne\(\$1\.left\.right, \$1\.right\)$", "NE"),
                  (r"^PartialEq(>)?::eq\(\$1\.left\.right, \$1\.right\)$", "!NE")],
        "req": lambda n: ((not n["L"]) and ((not n["R"]) or n["RL"])) or (n["L"] and n["NE"]),
    },
    "is_missing": {
        "fn": "yrs::block_store::BlockStore::is_missing",
        "why": "an id is absent iff its clock is at or beyond the client's frontier or lies inside an integrated Skip range",
        "atoms": [(r"^\(\$2\.clock Ge BlockStore::get_clock\(\$1, \$2\.client\)\)$", "GE"),
                  (r"^\(\$2\.clock Lt BlockStore::get_clock\(\$1, \$2\.client\)\)$", "!GE"),
                  (r"^\(BlockStore::get_clock\(\$1, \$2\.client\) Le \$2\.clock\)$", "GE"),
                  (r"^\(BlockStore::get_clock\(\$1, \$2\.client\) Gt \$2\.clock\)$", "!GE"),
                  (r"^IdSet::contains\(\$1\.skips, \$2\)$", "SK")],
        "req": lambda n: n["GE"] or n["SK"],
    },
    "is_visible": {
        "fn": "yrs::state_vector::Snapshot::is_visible",
        "why": "an id is visible in a snapshot iff the snapshot's state vector is beyond its clock and the snapshot's delete set does "
               "not contain it",
        "atoms": [(r"^\(StateVector::get\(\$1\.state_map, \$2\.client\) Gt \$2\.clock\)$", "GT"),
                  (r"^\(\$2\.clock Lt StateVector::get\(\$1\.state_map, \$2\.client\)\)$", "GT"),
                  (r"^\(StateVector::get\(\$1\.state_map, \$2\.client\) Le \$2\.clock\)$", "!GT"),
                  (r"^\(\$2\.clock Ge StateVector::get\(\$1\.state_map, \$2\.client\)\)$", "!GT"),
                  (r"^IdSet::contains\(\$1\.delete_set, \$2\)$", "DS")],
        "req": lambda n: n["GT"] and not n["DS"],
    },
    "has_added": {
        "fn": "yrs::transaction::TransactionMut::has_added",
        "why": "added in this transaction = member of the transaction's insert set",
        "atoms": [(r"^IdSet::contains\(\$1\.insert_set, \$2\)$", "INS")],
        "req": lambda n: n["INS"],
    },
    "has_deleted": {
        "fn": "yrs::transaction::TransactionMut::has_deleted",
        "why": "deleted in this transaction = member of the transaction's delete set",
        "atoms": [(r"^IdSet::contains\(\$1\.delete_set, \$2\)$", "DEL")],
        "req": lambda n: n["DEL"],
    },
    "adjacent_left": {
        "fn": "yrs::slice::ItemSlice::adjacent_left",
        "why": "a slice needs no split on the left iff it starts at offset 0",
        "atoms": [(r"^\(\$1\.start Eq 0\)$", "Z"), (r"^\(\$1\.start Ne 0\)$", "!Z"), (r"^\(\$1\.start Gt 0\)$", "!Z")],
        "req": lambda n: n["Z"],
    },
    "adjacent_right": {
        "fn": "yrs::slice::ItemSlice::adjacent_right",
        "why": "a slice needs no split on the right iff it ends at the item's last element (len - 1)",
        "atoms": [(r"^\(\$1\.end Eq \(Item::len\(\$1\.ptr\) Sub(WithOverflow)? 1\)(\.0)?\)$", "E"),
                  (r"^\(\$1\.end Ne \(Item::len\(\$1\.ptr\) Sub(WithOverflow)? 1\)(\.0)?\)$", "!E")],
        "req": lambda n: n["E"],
    },
    "item_contains": {
        "fn": "yrs::block::Item::contains",
        "why": "an item contains an id iff same client and id.clock in [clock, clock + len)",
        "atoms": [(r"^PartialEq(>)?::eq\(\$1\.id\.client, \$2\.client\)$", "C"),
                  (r"^\(\$2\.clock Ge \$1\.id\.clock\)$", "GE"), (r"^\(\$2\.clock Lt \$1\.id\.clock\)$", "!GE"),
                  (r"^\(\$2\.clock Lt \(\$1\.id\.clock Add(WithOverflow)? Item::len\(\$1\)\)(\.0)?\)$", "LT"),
                  (r"^\(\$2\.clock Ge \(\$1\.id\.clock Add(WithOverflow)? Item::len\(\$1\)\)(\.0)?\)$", "!LT")],
        "req": lambda n: n["C"] and n["GE"] and n["LT"],
    },
    "slice_contains_id": {
        "fn": "yrs::slice::ItemSlice::contains_id",
        "why": "a slice contains an id iff same client and id.clock in [clock + start, clock + end]",
        "atoms": [(r"^PartialEq(>)?::eq\(Item::id\(\$1\.ptr\)\.client, \$2\.client\)$", "C"),
                  (r"^\(\$2\.clock Ge \(Item::id\(\$1\.ptr\)\.clock Add(WithOverflow)? \$1\.start\)(\.0)?\)$", "GE"),
                  (r"^\(\$2\.clock Le \(Item::id\(\$1\.ptr\)\.clock Add(WithOverflow)? \$1\.end\)(\.0)?\)$", "LE")],
        "req": lambda n: n["C"] and n["GE"] and n["LE"],
    },
}


def check_pred(R, ctx, rid, name):
    Y = ctx.yrs
    ent = TABLE[name]
    fn = Y.fn(ent["fn"])
    fm = Formulas(fn, lambda t: pnorm(simp_deep(t)))
    f = fm.local_formula(0)
    pats = [(re.compile(rx), nm) for rx, nm in ent["atoms"]]
    names = sorted({nm.lstrip("!") for _, nm in ent["atoms"]})

    def cls(k, t):
        for rx, nm in pats:
            if rx.search(k):
                return nm
        return None

    def req(n):
        full = {x: n.get(x, False) for x in names}
        return bool(ent["req"](full))
    ok, cex, keys = truth_check(f, cls, req, max_atoms=12)
    unknown = [k for k in keys if cls(k, None) is None]
    R.ob(rid, fn, "formula:" + name, ok,
         "%s = %s (%s)" % (name, fshow(f)[:200], ent["why"][:80]) if ok else
         "%s deviates from its required truth table — %s. counterexample: %s; unclassified conditions: %s; formula = %s" %
         (name, ent["why"], cex, [u[:70] for u in unknown], fshow(f)[:300]))


def rule(R, ctx, rid, names):
    R.rule(rid, "R-PRED exact formulas of the predicates this property leans on (%s): the return value's exact path formula equals "
                "the required boolean function, by truth table — written from the property's semantics; refactorings that keep the "
                "truth table pass" % ", ".join(TABLE[n]["fn"].rsplit("::", 2)[-2] + "::" + TABLE[n]["fn"].rsplit("::", 1)[-1] for n in names))
    for n in names:
        check_pred(R, ctx, rid, n)
