"""R-PRED: exact formulas of small boolean predicates the properties lean on.

Each entry names a function, a list of (regex over the parameter-normalised rendering of an atom -> atom name, optionally
prefixed with ! for a negated reading) and the required boolean function over the atom names, written from the property's
semantics (not snapshotted from the code). The return value's exact formula (ylib.formula) is compared by truth table:
refactorings that keep the function's truth table pass, any logic change fails, an atom that cannot be classified is a free
variable and fails closed if the result depends on it."""
import re

from ylib import facts as F
from ylib.formula import Formulas, truth_check, fshow, missing_atoms
from .common import *  # noqa


def pnorm(t):
    """term with parameters renamed to $1, $2, ... (so that renaming a parameter does not change the rendering)."""
    if isinstance(t, tuple):
        if t and t[0] == "param":
            return ("param", t[1], "$%d" % t[1])
        if t and t[0] == "call":
            return ("call", t[1], tuple(pnorm(a) for a in t[2])) + tuple(t[3:])
        return tuple(pnorm(x) for x in t)
    return t


TABLE = {
    "detect_conflict": {
        "fn": "yrs::block::Item::detect_conflict",
        "why": "an incoming item needs the conflict scan iff it does not slot exactly between its recorded neighbours: no left and "
               "(a right whose left is occupied, or no right at all — the parent's list may be non-empty), or a left whose right is not "
               "the item's right",
        "atoms": [(r"^\$1\.left is Some$", "L"), (r"^\$1\.right is Some$", "R"), (r"^Option::is_some\(\$1\.right\.left\)$", "RL"),
                  (r"^Option::is_none\(\$1\.right\.left\)$", "!RL"), (r"^PartialEq(>)?::ne\(\$1\.left\.right, \$1\.right\)$", "NE"),
                  (r"^PartialEq(>)?::eq\(\$1\.left\.right, \$1\.right\)$", "!NE")],
        "req": lambda n: ((not n["L"]) and ((not n["R"]) or n["RL"])) or (n["L"] and n["NE"]),
    },
    "is_missing": {
        "fn": "yrs::block_store::BlockStore::is_missing",
        "why": "an id is absent iff its clock is at or beyond the client's frontier or lies inside an integrated Skip range",
        "atoms": [(r"^\(\$2\.clock Ge BlockStore::get_clock\(\$1, \$2\.client\)\)$", "GE"),
                  (r"^\(\$2\.clock Lt BlockStore::get_clock\(\$1, \$2\.client\)\)$", "!GE"),
                  (r"^\(BlockStore::get_clock\(\$1, \$2\.client\) Le \$2\.clock\)$", "GE"),
                  (r"^\(BlockStore::get_clock\(\$1, \$2\.client\) Gt \$2\.clock\)$", "!GE"),
                  (r"^IdSet::contains\(\$1\.skips, \$2\)$", "SK")],
        "req": lambda n: n["GE"] or n["SK"],
    },
    "is_visible": {
        "fn": "yrs::state_vector::Snapshot::is_visible",
        "why": "an id is visible in a snapshot iff the snapshot's state vector is beyond its clock and the snapshot's delete set does "
               "not contain it",
        "atoms": [(r"^\(StateVector::get\(\$1\.state_map, \$2\.client\) Gt \$2\.clock\)$", "GT"),
                  (r"^\(\$2\.clock Lt StateVector::get\(\$1\.state_map, \$2\.client\)\)$", "GT"),
                  (r"^\(StateVector::get\(\$1\.state_map, \$2\.client\) Le \$2\.clock\)$", "!GT"),
                  (r"^\(\$2\.clock Ge StateVector::get\(\$1\.state_map, \$2\.client\)\)$", "!GT"),
                  (r"^IdSet::contains\(\$1\.delete_set, \$2\)$", "DS")],
        "req": lambda n: n["GT"] and not n["DS"],
    },
    "has_added": {
        "fn": "yrs::transaction::TransactionMut::has_added",
        "why": "added in this transaction = member of the transaction's insert set",
        "atoms": [(r"^IdSet::contains\(\$1\.insert_set, \$2\)$", "INS")],
        "req": lambda n: n["INS"],
    },
    "has_deleted": {
        "fn": "yrs::transaction::TransactionMut::has_deleted",
        "why": "deleted in this transaction = member of the transaction's delete set",
        "atoms": [(r"^IdSet::contains\(\$1\.delete_set, \$2\)$", "DEL")],
        "req": lambda n: n["DEL"],
    },
    "adjacent_left": {
        "fn": "yrs::slice::ItemSlice::adjacent_left",
        "why": "a slice needs no split on the left iff it starts at offset 0",
        "atoms": [(r"^\(\$1\.start Eq 0\)$", "Z"), (r"^\(\$1\.start Ne 0\)$", "!Z"), (r"^\(\$1\.start Gt 0\)$", "!Z")],
        "req": lambda n: n["Z"],
    },
    "adjacent_right": {
        "fn": "yrs::slice::ItemSlice::adjacent_right",
        "why": "a slice needs no split on the right iff it ends at the item's last element (len - 1)",
        "atoms": [(r"^\(\$1\.end Eq \(Item::len\(\$1\.ptr\) Sub(WithOverflow)? 1\)(\.0)?\)$", "E"),
                  (r"^\(\$1\.end Ne \(Item::len\(\$1\.ptr\) Sub(WithOverflow)? 1\)(\.0)?\)$", "!E")],
        "req": lambda n: n["E"],
    },
    "item_contains": {
        "fn": "yrs::block::Item::contains",
        "why": "an item contains an id iff same client and id.clock in [clock, clock + len)",
        "atoms": [(r"^PartialEq(>)?::eq\(\$1\.id\.client, \$2\.client\)$", "C"),
                  (r"^\(\$2\.clock Ge \$1\.id\.clock\)$", "GE"), (r"^\(\$2\.clock Lt \$1\.id\.clock\)$", "!GE"),
                  (r"^\(\$2\.clock Lt \(\$1\.id\.clock Add(WithOverflow)? Item::len\(\$1\)\)(\.0)?\)$", "LT"),
                  (r"^\(\$2\.clock Ge \(\$1\.id\.clock Add(WithOverflow)? Item::len\(\$1\)\)(\.0)?\)$", "!LT")],
        "req": lambda n: n["C"] and n["GE"] and n["LT"],
    },
    "slice_contains_id": {
        "fn": "yrs::slice::ItemSlice::contains_id",
        "why": "a slice contains an id iff same client and id.clock in [clock + start, clock + end]",
        "atoms": [(r"^PartialEq(>)?::eq\(Item::id\(\$1\.ptr\)\.client, \$2\.client\)$", "C"),
                  (r"^\(\$2\.clock Ge \(Item::id\(\$1\.ptr\)\.clock Add(WithOverflow)? \$1\.start\)(\.0)?\)$", "GE"),
                  (r"^\(\$2\.clock Le \(Item::id\(\$1\.ptr\)\.clock Add(WithOverflow)? \$1\.end\)(\.0)?\)$", "LE")],
        "req": lambda n: n["C"] and n["GE"] and n["LE"],
    },
}

TABLE.update({
    "block_is_deleted": {
        "fn": "yrs::block::Block::is_deleted",
        "why": "a block counts as deleted iff it is a GC range or an item whose DELETED flag is set; a Skip placeholder is not deleted "
               "(apply_delete parks deletions that land on it)",
        "atoms": [(r"^\$1 is GC$", "GC"), (r"^\$1 is Item$", "IT"), (r"^\$1 is Skip$", "SK"),
                  (r"^Item::is_deleted\(\$1 as Item\.0(\.0\.pointer)?\)$", "D")],
        "req": lambda n: n["GC"] or (n["IT"] and n["D"]),
    },
    "slice_is_deleted": {
        "fn": "yrs::slice::BlockSlice::is_deleted",
        "why": "same as Block::is_deleted on a slice",
        "atoms": [(r"^\$1 is GC$", "GC"), (r"^\$1 is Item$", "IT"), (r"^\$1 is Skip$", "SK"),
                  (r"^ItemSlice::is_deleted\(\$1 as Item\.0\)$", "D")],
        "req": lambda n: n["GC"] or (n["IT"] and n["D"]),
    },
    "blockrange_contains": {
        "fn": "yrs::block::BlockRange::contains",
        "why": "a range contains an id iff same client and id.clock in [clock, clock + len)",
        "atoms": [(r"^PartialEq(>)?::eq\(\$1\.client, \$2\.client\)$", "C"),
                  (r"^\(\$2\.clock Ge \$1\.clock\)$", "GE"),
                  (r"^\(\$2\.clock Lt \(\$1\.clock Add(WithOverflow)? \$1\.len\)(\.0)?\)$", "LT")],
        "req": lambda n: n["C"] and n["GE"] and n["LT"],
    },
    "flags_check": {
        "fn": "yrs::block::ItemFlags::check",
        "why": "a flag is set iff all bits of the mask are set in the flag word",
        "atoms": [(r"^\(\(\$1\.0 BitAnd \$2\) Eq \$2\)$", "SET"), (r"^\(\(\$1\.0 BitAnd \$2\) Ne 0\)$", "SET"),
                  (r"^\(\(\$1\.0 BitAnd \$2\) Ne \$2\)$", "!SET")],
        "req": lambda n: n["SET"],
    },
    "branch_is_deleted": {
        "fn": "yrs::branch::Branch::is_deleted",
        "why": "a nested type is deleted iff it has an owning item and that item is deleted (root types never are)",
        "atoms": [(r"^\$1\.item is Some$", "IT"), (r"^Item::is_deleted\(\$1\.item\)$", "D")],
        "req": lambda n: n["IT"] and n["D"],
    },
    "map_contains_key": {
        "fn": "yrs::types::map::Map::contains_key",
        "why": "a key is present iff the map has an entry for it and that entry is live",
        "atoms": [(r"^HashMap::get\(AsRef::as_ref\(\$1\)\.map, \$3\) is Some$", "E"),
                  (r"^Item::is_deleted\(HashMap::get\(AsRef::as_ref\((\$1|self)\)\.map, \$3\)\)$", "D")],
        "req": lambda n: n["E"] and not n["D"],
    },
    "seen": {
        "fn": "yrs::types::text::DiffAssembler::process::seen",
        "why": "an item is part of the rendered text iff it is live (no snapshot) or visible in the given snapshot",
        "atoms": [(r"^\$1 is Some$", "SNAP"), (r"^Item::is_deleted\(\$2\)$", "D"), (r"^Snapshot::is_visible\(\$1, \$2\.id\)$", "V")],
        "req": lambda n: (n["SNAP"] and n["V"]) or ((not n["SNAP"]) and not n["D"]),
    },
    "idmap_contains": {
        "fn": "yrs::ids::IdMapInner::contains",
        "why": "an id is a member iff the client has an entry whose ranges contain the clock",
        "atoms": [(r"^BTreeMap::get\(\$1\.0, \$2\.client\) is Some$", "E"),
                  (r"^IdRanges::contains_clock\(BTreeMap::get\(\$1\.0, \$2\.client\), \$2\.clock\)$", "C")],
        "req": lambda n: n["E"] and n["C"],
    },
    "branch_eq": {
        "fn": "<yrs::branch::Branch as std::cmp::PartialEq>::eq",
        "why": "two branches are the same collection iff item, start, map, block_len and type_ref all agree — Branch::is_parent_of (the "
               "undo manager's scope test) compares branches with it: all empty-start root maps share item = None, start = None and "
               "block_len = 0, only `map` tells them apart",
        "atoms": [(r"^PartialEq>::eq\(\$1\.item, \$2\.item\)$", "I"), (r"^PartialEq>::eq\(\$1\.start, \$2\.start\)$", "S"),
                  (r"^PartialEq>::eq\(\$1\.map, \$2\.map\)$", "M"), (r"^\(\$1\.block_len Eq \$2\.block_len\)$", "L"),
                  (r"^PartialEq>::eq\(\$1\.type_ref, \$2\.type_ref\)$", "T")],
        "req": lambda n: n["I"] and n["S"] and n["M"] and n["L"] and n["T"],
    },
    "link_is_single": {
        "fn": "yrs::types::weak::LinkSource::is_single",
        "why": "a link quotes a single element iff both boundaries are element-relative and name the SAME id (client and clock): "
               "the wire format then omits the end id and the reader copies the start",
        "atoms": [(r"^StickyIndex::scope\(\$1\.quote_start\) is Relative$", "S"), (r"^StickyIndex::scope\(\$1\.quote_end\) is Relative$", "E"),
                  (r"^PartialEq<&B>>::eq\(StickyIndex::scope\(\$1\.quote_start\) as Relative\.0, StickyIndex::scope\(\$1\.quote_end\) as Relative\.0\)$", "SAME"),
                  (r"^PartialEq>::eq\(StickyIndex::scope\(\$1\.quote_start\) as Relative\.0, StickyIndex::scope\(\$1\.quote_end\) as Relative\.0\)$", "SAME")],
        "req": lambda n: n["S"] and n["E"] and n["SAME"],
    },
    "same_type": {
        "fn": "yrs::block::Block::same_type",
        "why": "two blocks are of the same kind iff both GC, both Item or both Skip",
        "atoms": [(r"^\$1 is GC$", "G1"), (r"^\$2 is GC$", "G2"), (r"^\$1 is Item$", "I1"), (r"^\$2 is Item$", "I2"),
                  (r"^\$1 is Skip$", "S1"), (r"^\$2 is Skip$", "S2")],
        "req": lambda n: (n["G1"] and n["G2"]) or (n["I1"] and n["I2"]) or (n["S1"] and n["S2"]),
        "exclusive": [("G1", "I1", "S1"), ("G2", "I2", "S2")],
    },
})


FLAG_PREDICATES = {
    "is_countable": "ITEM_FLAG_COUNTABLE", "is_deleted": "ITEM_FLAG_DELETED", "is_keep": "ITEM_FLAG_KEEP",
    "is_linked": "ITEM_FLAG_LINKED", "is_marked": "ITEM_FLAG_MARKED",
}


def flag_table(R, ctx, rid):
    """each ItemFlags::is_X tests the constant of its own name, and the constants are distinct single bits."""
    Y = ctx.yrs
    R.rule(rid + ".flags", "R-TABLE flag predicates: ItemFlags::is_countable / is_deleted / is_keep / is_linked / is_marked each call "
                           "check(self, ITEM_FLAG_<same name>), every writer set_X / clear_X calls set / clear with ITEM_FLAG_X of its own "
                           "name and nothing else, and those constants are distinct single bits")
    vals = {}
    for meth, const in sorted(FLAG_PREDICATES.items()):
        fn = Y.fns.get("yrs::block::ItemFlags::" + meth)
        if fn is None:
            if meth == "is_linked" and "weak" not in Y.features:
                continue
            raise AnchorLost("yrs::block::ItemFlags::" + meth)
        v = FnView(fn)
        cs = fn.calls_to("yrs::block::ItemFlags::check")
        ok = False
        got = None
        if len(cs) == 1 and len(cs[0].args) == 2:
            t = simp(v.arg(cs[0], 1))
            got = t[2] if t[0] == "const" and len(t) > 2 else None
            ok = got is not None and str(got).endswith(const)
            if t[0] == "const":
                vals[const] = t[1]
        R.ob(rid + ".flags", fn, "mask:" + meth, ok, "%s tests %s" % (meth, got))
    # the writers: set_X / clear_X touch the bit of their own name and nothing else
    nw = 0
    for p_, fn in sorted(Y.fns.items()):
        m = re.match(r"^yrs::block::ItemFlags::(set|clear)_(\w+)$", p_)
        if not m or not fn.mir:
            continue
        op, flag = m.group(1), m.group(2).upper()
        v = FnView(fn)
        cs = fn.calls_to("yrs::block::ItemFlags::" + op)
        others = [c for c in fn.calls() if re.search(r"ItemFlags::(set|clear)$", c.name) and c not in cs]
        got = None
        ok = False
        if len(cs) == 1 and len(cs[0].args) == 2 and not others:
            t = simp(v.arg(cs[0], 1))
            got = t[2] if t[0] == "const" and len(t) > 2 else sshow(t, 4)
            ok = t[0] == "const" and len(t) > 2 and str(t[2]).endswith("ITEM_FLAG_" + flag)
        nw += 1
        R.ob(rid + ".flags", fn, "mask:%s_%s" % (op, m.group(2)), ok, "%s_%s %ss %s" % (op, m.group(2), op, got) if ok else
             "%s_%s %ss %s (and %d other flag call(s)) — not exactly ITEM_FLAG_%s: the wrong bit of the item is changed" % (op, m.group(2), op, got, len(others), flag))
    R.floor(rid + ".flags", "ItemFlags::set_X / clear_X writers", nw, 4)
    ds = list(vals.values())
    R.ob(rid + ".flags", "yrs::block::ItemFlags", "distinct-bits", len(set(ds)) == len(ds) and all(isinstance(x, int) and x > 0 and x & (x - 1) == 0 for x in ds),
         "flag constants %s are distinct single bits" % vals)


def check_pred(R, ctx, rid, name):
    Y = ctx.yrs
    ent = TABLE[name]
    fn = Y.fn(ent["fn"])
    fm = Formulas(fn, lambda t: pnorm(simp_deep(t)))
    f = fm.local_formula(0)
    pats = [(re.compile(rx), nm) for rx, nm in ent["atoms"]]
    names = sorted({nm.lstrip("!") for _, nm in ent["atoms"]})

    def cls(k, t):
        for rx, nm in pats:
            if rx.search(k):
                return nm
        return None

    def req(n):
        full = {x: n.get(x, False) for x in names}
        return bool(ent["req"](full))
    ok, cex, keys = truth_check(f, cls, req, max_atoms=12)
    unknown = [k for k in keys if cls(k, None) is None]
    gone = missing_atoms(f, cls, lambda n: ent["req"]({x: n.get(x, False) for x in names}), names)
    if gone:
        ok = False
        cex = "the predicate no longer tests %s" % gone
    R.ob(rid, fn, "formula:" + name, ok,
         "%s = %s (%s)" % (name, fshow(f)[:200], ent["why"][:80]) if ok else
         "%s deviates from its required truth table — %s. counterexample: %s; unclassified conditions: %s; formula = %s" %
         (name, ent["why"], cex, [u[:70] for u in unknown], fshow(f)[:300]))


def rule(R, ctx, rid, names):
    R.rule(rid, "R-PRED exact formulas of the predicates this property leans on (%s): the return value's exact path formula equals "
                "the required boolean function, by truth table — written from the property's semantics; refactorings that keep the "
                "truth table pass" % ", ".join(TABLE[n]["fn"].rsplit("::", 2)[-2] + "::" + TABLE[n]["fn"].rsplit("::", 1)[-1] for n in names))
    for n in names:
        check_pred(R, ctx, rid, n)
