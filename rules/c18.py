"""C18 — y-sync handshake and awareness: sibling protocols, handler dataflow, clock-guarded merge."""
import re
from ylib import facts as F
from ylib import skel as SK
from ylib.formula import Formulas, truth_check, fshow, atoms_of
from .common import *  # noqa
from .c12 import unwrap_async, drop_identity

P = "yrs::sync::protocol::Protocol"
AP = "yrs::sync::protocol::AsyncProtocol"
HANDLERS = ("handle", "handle_message", "handle_sync_step1", "handle_sync_step2", "handle_update", "handle_auth",
            "handle_awareness_query", "handle_awareness_update", "missing_handle")

SUBS = [
    (r"^yrs::sync::protocol::AsyncProtocol::", "Protocol::"), (r"^yrs::sync::protocol::Protocol::", "Protocol::"),
    (r"^<yrs::doc::Doc as yrs::transact::AsyncTransact<'_>>::", "<Doc as Transact>::"),
    (r"^<yrs::doc::Doc as yrs::transact::AsyncTransact>::", "<Doc as Transact>::"),
    (r"^<yrs::doc::Doc as yrs::transact::Transact>::", "<Doc as Transact>::"),
    (r"^yrs::transact::AsyncTransact::", "Transact::"), (r"^yrs::transact::Transact::", "Transact::"),
    (r"^<.* as std::future::IntoFuture>::into_future$", "ID"), (r"^std::future::IntoFuture::into_future$", "ID"),
    (r"^std::boxed::Box::pin$", "ID"), (r"^std::boxed::Box<T>::pin$", "ID"),
    (r"^<yrs::transact::AcquireTransaction(Mut)? as std::future::IntoFuture>::into_future$", "ID"),
]


def norm(fn):
    s = SK.skel(fn.hir["body"])
    s = unwrap_async(s)
    s = SK.rename(s, SUBS)
    s = drop_identity(s)
    return SK.linearize(flatten(s))


ASYNC_TRAIT_PRELUDE = ("if", ("iflet", "Some(bind)", ("path", "None")), ("ret",), ())


def flatten(s):
    """drop the boilerplate async_trait emits for type inference (`if let Some(__ret) = None::<T> { return __ret; }`)
    and the seq wrappers left behind; every other node keeps its arity."""
    if isinstance(s, tuple):
        t = tuple(flatten(x) for x in s)
        if t == ASYNC_TRAIT_PRELUDE:
            return ()
        if t and t[0] == "seq":
            items = [x for x in t[1:] if x != ()]
            if len(items) == 1:
                return items[0]
            return ("seq",) + tuple(items)
        return t
    return s


def rule_a(R, ctx):
    Y = ctx.yrs
    R.rule("C18.a", "R-SIB Protocol ↔ AsyncProtocol: every default handler of the async trait has the same call skeleton as the blocking "
                    "one modulo `.await`, AsyncTransact↔Transact and the async_trait boxing")
    n = 0
    for h in HANDLERS:
        fa, fb = Y.fn(P + "::" + h), Y.fn(AP + "::" + h)
        sa, sb = norm(fa), norm(fb)
        ds = SK.diff(sa, sb)
        n += 1
        R.touch(fa)
        R.touch(fb)
        R.ob("C18.a", fa, "sibling:" + AP + "::" + h, not ds,
             ("handlers agree (%d calls)" % len(SK.calls_in(sa))) if not ds else "skeletons differ: " + "; ".join("%s: %s vs %s" % d for d in ds[:3]))
    R.floor("C18.a", "handler pairs", n, 9)


def rule_b(R, ctx):
    Y = ctx.yrs
    R.rule("C18.b", "R-PROV handler dataflow: handle_sync_step1(sv) answers SyncStep2(encode_state_as_update_v1(&sv)) with the *received* "
                    "state vector; SyncStep2 / Update payloads are decoded with Update::decode_v1 and reach TransactionMut::apply_update; "
                    "Protocol::start emits SyncStep1(own state vector) followed by the awareness update; handle() feeds every decoded "
                    "message to handle_message and collects every response")
    fn = Y.fn(P + "::handle_sync_step1")
    v = FnView(fn)
    enc = fn.calls_to("yrs::transaction::ReadTxn::encode_state_as_update_v1", "re:ReadTxn>::encode_state_as_update_v1$")
    R.floor("C18.b", "encode_state_as_update_v1 in handle_sync_step1", len(enc), 1)
    for cs, site in ordinal_sites(enc):
        sv = simp(v.arg(cs, 1))
        R.ob("C18.b", fn, site, sv[0] == "param" and sv[1] == 3, "state vector = %s (the received one)" % show(sv), cs.loc())
    ret = v.terms.local(0, 20)
    ok = any(t[0] == "agg" and t[1].endswith("SyncMessage::SyncStep2") and term_has_call(t, "re:encode_state_as_update_v1$") for t in walk(ret))
    R.ob("C18.b", fn, "replies-step2", ok, "returns Some(Message::Sync(SyncStep2(update))): %s" % ok)
    # the reply is the diff on every path: the payload is exactly the encode call's result (no alternative definition) and
    # the call lies on every path to the normal return
    pay = [simp_deep(t[2][0]) for t in walk(ret) if t[0] == "agg" and t[1].endswith("SyncMessage::SyncStep2") and t[2]]
    exact = bool(pay) and all(p[0] == "call" and re.search(r"encode_state_as_update_v1$", F.strip_generics(p[1])) for p in pay)
    cfg = fn.cfg()
    rets = [bb for bb, b in enumerate(fn.blocks) if "ret" in b["t"] and not b.get("cleanup") and bb in cfg.reach]
    # paths that return Err(..) before answering are not replies; the reply construction itself must be dominated by the call
    aggs = [i for i, j, st in fn.stmts() if "agg" in st["rv"] and str(st["rv"]["agg"].get("variant")) == "SyncStep2"]
    dom = bool(enc) and bool(aggs) and all(any(cfg.dominates(c.bb, a) for c in enc) for a in aggs)
    R.ob("C18.b", fn, "step2-is-the-diff", exact and dom,
         "SyncStep2 payload is the result of encode_state_as_update_v1(&sv) on every path" if exact and dom else
         "SyncStep2 payload has a definition other than encode_state_as_update_v1(&sv) (%s): deletions do not advance the state "
         "vector, so a reply that skips the diff loses the delete set" % [sshow(p, 6) for p in pay])
    s2 = Y.fn(P + "::handle_sync_step2")
    sv2 = FnView(s2)
    ap = s2.calls_to("yrs::transaction::TransactionMut::apply_update")
    ok = len(ap) == 1 and simp(sv2.arg(ap[0], 1))[0] == "param" and simp(sv2.arg(ap[0], 1))[1] == 3
    R.ob("C18.b", s2, "applies", ok, "apply_update(<received update>) on a write transaction of awareness.doc()")
    hu = Y.fn(P + "::handle_update")
    R.ob("C18.b", hu, "delegates", len(hu.calls_to(P + "::handle_sync_step2")) == 1, "handle_update -> handle_sync_step2")
    hm = Y.fn(P + "::handle_message")
    hv = FnView(hm)
    for target, variant in ((P + "::handle_sync_step2", "SyncStep2"), (P + "::handle_update", "Update")):
        cs = hm.calls_to(target)
        ok = len(cs) == 1
        why = "%d call(s)" % len(cs)
        if ok:
            upd = hv.arg(cs[0], 2)
            ok = term_has_call(upd, "re:Decode>?::decode_v1$")
            arm = hv.has_guard(cs[0].bb, lambda l: l.polarity == variant)
            ok = ok and arm
            why = "payload decoded with Update::decode_v1: %s ; in the %s arm: %s" % (term_has_call(upd, "re:Decode>?::decode_v1$"), variant, arm)
        R.ob("C18.b", hm, "dispatch:" + variant, ok, why)
    cs = hm.calls_to(P + "::handle_sync_step1")
    ok = len(cs) == 1 and hv.has_guard(cs[0].bb, lambda l: l.polarity == "SyncStep1")
    R.ob("C18.b", hm, "dispatch:SyncStep1", ok, "SyncStep1 -> handle_sync_step1")
    for target, variant in ((P + "::handle_awareness_update", "Awareness"), (P + "::handle_awareness_query", "AwarenessQuery"),
                            (P + "::handle_auth", "Auth"), (P + "::missing_handle", "Custom")):
        cs = hm.calls_to(target)
        ok = len(cs) == 1 and hv.has_guard(cs[0].bb, lambda l: l.polarity == variant)
        R.ob("C18.b", hm, "dispatch:" + variant, ok, "%s -> %s" % (variant, target.rsplit("::", 1)[-1]))
    st = Y.fn(P + "::start")
    stv = FnView(st)
    encs = st.calls_to("re:Message as yrs::updates::encoder::Encode>::encode$")
    kinds = []
    for c in sorted(encs, key=lambda c: c.bb):
        t = stv.arg(c, 0)
        if any(x[0] == "agg" and x[1].endswith("SyncMessage::SyncStep1") for x in walk(t)):
            kinds.append("SyncStep1" if term_has_call(t, "re:state_vector$") else "SyncStep1(?)")
        elif any(x[0] == "agg" and x[1].endswith("Message::Awareness") for x in walk(t)):
            kinds.append("Awareness")
    ordered = len(encs) == 2 and st.cfg().dominates(min(encs, key=lambda c: c.bb).bb, max(encs, key=lambda c: c.bb).bb)
    R.ob("C18.b", st, "start-messages", kinds == ["SyncStep1", "Awareness"] and ordered, "start() encodes %s" % kinds)
    h = Y.fn(P + "::handle")
    hv2 = FnView(h)
    hmcs = h.calls_to(P + "::handle_message")
    push = h.calls_to("re:SmallVec<.*>::push$", "re:::push$")
    ok = len(hmcs) == 1 and len(push) == 1 and term_has_call(hv2.arg(hmcs[0], 2), "re:MessageReader<.*> as std::iter::Iterator>::next$", "re:Iterator>::next$") \
        and term_has_call(hv2.arg(push[0], 1), P + "::handle_message")
    R.ob("C18.b", h, "loop", ok, "every message read is handled and every Some(response) is collected: %s" % ok)


def rule_d(R, ctx):
    Y = ctx.yrs
    fn = Y.fn("yrs::sync::awareness::Awareness::apply_update_internal")
    v = FnView(fn)
    fm = Formulas(fn, simp_deep)
    R.rule("C18.d", "R-GUARD clock-guarded merge in Awareness::apply_update_internal: every write to an existing ClientState's "
                    "clock/data/last_updated is reached only if state.clock < clock || (state.clock == clock && new.is_none() && "
                    "state.data.is_some()); `state.data = None` additionally only if !(client_id == doc.client_id() && state.data.is_some()); "
                    "elsewhere (set_local_state_raw, remove_state) the clock is only incremented")

    def cls(key, term):
        if term is None:
            return None
        if term[0] == "bin" and term[1] == "Lt" and field_path(simp_deep(term[2]))[-1:] == ["clock"]:
            return "LT"
        if term[0] == "bin" and term[1] == "Eq" and field_path(simp_deep(term[2]))[-1:] == ["clock"]:
            return "EQ"
        if term[0] == "call" and callee_match(term[1], "std::option::Option::is_none") and not term_has_field(term, "ClientState.data"):
            return "NEWNONE"
        # `new` is None exactly when entry.json == NULL_STR (the formula engine expands the local through its definitions)
        if term[0] == "call" and term[1].endswith("::eq") and term_has_field(term, "AwarenessUpdateEntry.json"):
            return "NEWNONE"
        if term[0] == "call" and callee_match(term[1], "std::option::Option::is_some") and term_has_field(term, "ClientState.data"):
            return "HASDATA"
        if term[0] == "call" and term[1].endswith("::eq") and term_has_call(term, "yrs::doc::Doc::client_id"):
            return "LOCAL"
        if key.endswith(" is Some") and not term_has_field(term, "ClientState"):
            # `match new { None => .., new => .. }`
            return "!NEWNONE" if "new" in key or True else None
        return None

    n = 0
    for fld in ("ClientState.clock", "ClientState.data", "ClientState.last_updated"):
        for k, (i, j, s) in enumerate(fn.field_writes(fld)):
            n += 1
            f = fm.reach(i)
            ats = atoms_of(f)
            is_none_write = fld.endswith("data") and "rv" in s and simp_deep(v.terms.rvalue(s["rv"], 6))[0] == "agg" and \
                simp_deep(v.terms.rvalue(s["rv"], 6))[1].endswith("Option::None")

            def required(e):
                need = ("LT", "EQ", "NEWNONE", "HASDATA")
                if not all(x in e for x in need):
                    return None
                g = e["LT"] or (e["EQ"] and e["NEWNONE"] and e["HASDATA"])
                if is_none_write:
                    if "LOCAL" not in e:
                        return None
                    g = g and not (e["LOCAL"] and e["HASDATA"])
                return None if g else False

            # restrict atoms to the Occupied arm: other loop/iterator atoms are free
            ok, cex, keys = truth_check(f, lambda k2, t2: cls(k2, t2) if _is_state_atom(k2, t2) else None, required, max_atoms=18)
            names = {cls(a, t) for a, t in ats.items() if _is_state_atom(a, t)}
            have = {x.lstrip("!") for x in names if x}
            need = {"LT", "EQ", "NEWNONE", "HASDATA"} | ({"LOCAL"} if is_none_write else set())
            R.ob("C18.d", fn, "write:%s#%d" % (fld, k), ok and need <= have,
                 ("atoms %s; " % sorted(have)) + ("guard holds on every path" if ok else "a path reaches the write with the guard false: %s" % (cex,)),
                 "%s:%s" % (fn.file, s["line"]))
    R.floor("C18.d", "writes to an existing ClientState in apply_update_internal", n, 4)
    for path in ("yrs::sync::awareness::Awareness::set_local_state_raw", "yrs::sync::awareness::Awareness::remove_state"):
        f2 = Y.fn(path)
        v2 = FnView(f2)
        ws = f2.field_writes("ClientState.clock")
        ok = bool(ws)
        for i, j, s in ws:
            t = v2.terms.rvalue(s["rv"], 8)
            adds = [x for x in walk(t) if x[0] == "bin" and x[1].startswith("Add")]
            ok = ok and bool(adds) and all(simp(a[3])[0] == "const" and simp(a[3])[1] == 1 and field_path(simp_deep(a[2]))[-1:] == ["clock"] for a in adds)
        R.ob("C18.d", f2, "clock+=1", ok, "the only clock write is `state.clock += 1`: %s" % ok)
    # no other writers
    ws = writers_of_field(Y, "ClientState.clock")
    owners = {"yrs::sync::awareness::Awareness::apply_update_internal", "yrs::sync::awareness::Awareness::set_local_state_raw",
              "yrs::sync::awareness::Awareness::remove_state", "yrs::sync::awareness::ClientState::new"}
    for w in sorted(ws):
        R.ob("C18.d", Y.fns[w], "clock-writer", w in owners, "writes ClientState.clock")


def _is_state_atom(key, term):
    if term is None:
        return False
    txt = key
    return ("clock" in txt or "data" in txt or "client_id" in txt or "is_none" in txt or " is Some" in txt or ".json" in txt) and "Iterator" not in txt.split("(")[0]


def rule_e(R, ctx):
    Y = ctx.yrs
    R.rule("C18.e", "R-GUARD first contact is recorded: in Awareness::apply_update_internal the Vacant arm inserts "
                    "ClientState::new(clock, ..) for every entry of the update, whatever it carries — the insertion is decided by the "
                    "map lookup alone, not by whether the entry has data: a `null` removal that is the first thing a peer hears about "
                    "a client must leave its clock behind, or an older state that arrives later is accepted (order-sensitive result, "
                    "clock going backwards)")
    fn = Y.fn("yrs::sync::awareness::Awareness::apply_update_internal")
    v = FnView(fn)
    ins = [cs for cs in fn.calls() if re.search(r"VacantEntry(<.*>)?::insert$", F.strip_generics(cs.name)) or
           (F.strip_generics(cs.name).endswith("VacantEntry::insert"))]
    R.floor("C18.e", "VacantEntry::insert in apply_update_internal", len(ins), 1)
    for cs, site in ordinal_sites(ins):
        def lookup(l):
            t = simp(l.term)
            return t[0] == "call" and (re.search(r"::entry$", t[1]) or re.search(r"Iterator(<.*>)?>?::next$", t[1]))
        extra = [l.desc for l in v.guards(cs.bb) if not lookup(l)]
        val = v.arg(cs, 1, 10)
        carries_clock = term_has_call(val, "re:ClientState::new$")
        R.ob("C18.e", fn, site, not extra and carries_clock,
             "a never-seen client is recorded with its clock unconditionally" if not extra and carries_clock else
             "the first entry for a client is recorded only under %s (ClientState::new: %s)" % (extra[:2], carries_clock), cs.loc())


def rule_g(R, ctx):
    Y = ctx.yrs
    AW = "yrs::sync::awareness::Awareness"
    R.rule("C18.g", "R-PROV the local side of the awareness register: (1) Awareness::update_with_clients stores, under the requested "
                    "client id itself, the clock and the data of THAT client's stored state (`states.get(id).clock`, "
                    "`.data` or the null marker), decided by nothing but `the iterator has an element` and `the client is known`, and "
                    "answers Err for an unknown client; (2) Awareness::update selects exactly the clients whose data is present; (3) a "
                    "local write (set_local_state_raw) stores the new data and bumps the clock by one on an existing state — decided by the map "
                    "lookup alone, whatever the previous data was — and creates "
                    "ClientState(1, now, Some(data)) otherwise; a removal (remove_state) clears the data and bumps the clock by one, and "
                    "records ClientState(1, now, None) for an unknown client — a register whose local writes do not advance the clock is "
                    "ignored by every peer that already holds that clock")
    fn = Y.fn(AW + "::update_with_clients")
    v = FnView(fn)
    ins = [c for c in fn.calls_to("re:^std::collections::HashMap::insert$")]
    R.floor("C18.g", "entries stored by update_with_clients", len(ins), 1)
    for cs, site in ordinal_sites(ins):
        key = simp_deep(v.arg(cs, 1, 12))
        val = simp_deep(v.arg(cs, 2, 14))
        from_req = term_has_call(key, "re:Iterator>?::next$")
        ok_val = val[0] == "agg" and len(val[2]) == 2
        clock_ok = data_ok = False
        if ok_val:
            c0, c1 = simp_deep(val[2][0]), simp_deep(val[2][1])
            clock_ok = c0[0] == "field" and c0[1].endswith("ClientState.clock") and term_has_call(c0, "re:DashMap(<.*>)?::get$") and term_has_field(c0, "Awareness.states")
            data_ok = term_has_field(c1, "ClientState.data") and term_has_call(c1, "re:DashMap(<.*>)?::get$")
        bad = []
        for l in v.guards(cs.bb):
            t = simp(l.term)
            if t[0] == "call" and l.polarity == "Some" and (re.search(r"Iterator>?::next$", t[1]) or re.search(r"DashMap(<.*>)?::get$", F.strip_generics(t[1]))):
                continue
            bad.append(l.desc[:80])
        ok = from_req and clock_ok and data_ok and not bad
        R.ob("C18.g", fn, "entry:" + site, ok, "entry(client) = (stored clock, stored data or null) of that client" if ok else
             "entry key from the request: %s, clock = stored clock: %s, data = stored data: %s, narrowed by %s; value %s" % (from_req, clock_ok, data_ok, bad[:2], sshow(val, 6)), cs.loc())
    errs = [(i, st) for i, j, st in fn.stmts() if "agg" in st["rv"] and st["rv"]["agg"].get("variant") == "Err"]
    errs_ok = bool(errs) and all(any(simp(l.term)[0] == "call" and l.polarity == "None" and re.search(r"DashMap(<.*>)?::get$", F.strip_generics(simp(l.term)[1])) for l in v.guards(i)) for i, st in errs)
    R.ob("C18.g", fn, "unknown-client", errs_ok, "Err(ClientNotFound) exactly where the client is unknown: %s" % errs_ok)
    # (2) update(): the filter closure answers None exactly where data is None
    up = Y.fn(AW + "::update")
    cl = Y.closures.get(up.path, [])
    sel_ok = False
    why = "no filter closure"
    for c in cl:
        cv = FnView(c)
        somes = [(i, st) for i, j, st in c.stmts() if "agg" in st["rv"] and st["rv"]["agg"].get("variant") == "Some"]
        if not somes:
            continue
        sel_ok = all(any(lit_call(l, "std::option::Option::is_none", False) and term_has_field(l.term, "ClientState.data") for l in cv.guards(i)) or
                     any(lit_call(l, "std::option::Option::is_some", True) and term_has_field(l.term, "ClientState.data") for l in cv.guards(i)) or
                     any(isinstance(l.polarity, str) and l.polarity == "Some" and term_has_field(l.term, "ClientState.data") for l in cv.guards(i)) for i, st in somes)
        why = "Some(client) only where data is present: %s" % sel_ok
    R.ob("C18.g", up, "selects-present", sel_ok and bool(up.calls_to(AW + "::update_with_clients")), why)
    # (3) local writes
    for path, data_kind in ((AW + "::set_local_state_raw", "Some"), (AW + "::remove_state", "None")):
        f = Y.fn(path)
        fv = FnView(f)
        bumps = [(i, st) for i, j, st in f.stmts() if isinstance(st["dst"], dict) and st["dst"].get("p") and str(st["dst"]["p"][-1]).endswith("ClientState.clock")]
        bump_ok = bool(bumps)
        for i, st in bumps:
            t = simp_deep(fv.terms.rvalue(st["rv"], 10))
            while t[0] == "field" and t[1] == "tuple.0":
                t = simp_deep(t[2])
            one = t[0] == "bin" and t[1].replace("WithOverflow", "") == "Add" and term_has_field(t[2], "ClientState.clock") and simp_deep(t[3])[0] == "const" and str(simp_deep(t[3])[1]).split("_")[0] == "1"
            # decided by the map lookup alone: whatever the previous data was (a re-set after a removal must advance the clock too)
            narrowed = [l.desc[:80] for l in fv.guards(i) if not (simp(l.term)[0] == "call" and re.search(r"DashMap(<.*>)?::entry$", F.strip_generics(simp(l.term)[1])))]
            bump_ok = bump_ok and one and not narrowed
        R.ob("C18.g", f, "clock+1", bump_ok, "the stored clock advances by exactly one on a local %s (%d store(s))" % ("write" if data_kind == "Some" else "removal", len(bumps)))
        news = [c for c in f.calls_to("yrs::sync::awareness::ClientState::new")]
        new_ok = bool(news)
        for c in news:
            a0 = simp_deep(fv.arg(c, 0, 8))
            a2 = simp_deep(fv.arg(c, 2, 8))
            first = a0[0] == "const" and str(a0[1]).split("_")[0] == "1"
            kind = (a2[0] == "agg" and str(a2[1]).endswith("Some")) if data_kind == "Some" else (a2[0] == "agg" and str(a2[1]).endswith("None"))
            new_ok = new_ok and first and kind
        R.ob("C18.g", f, "first-state", new_ok, "an unknown client gets ClientState(1, now, %s): %s" % (data_kind, new_ok))
        if data_kind == "None":
            clears = [(i, st) for i, j, st in f.stmts() if isinstance(st["dst"], dict) and st["dst"].get("p") and str(st["dst"]["p"][-1]).endswith("ClientState.data")]
            cl_ok = bool(clears) and all(simp_deep(fv.terms.rvalue(st["rv"], 6))[0] == "agg" and str(simp_deep(fv.terms.rvalue(st["rv"], 6))[1]).endswith("None") for i, st in clears)
            R.ob("C18.g", f, "clears-data", cl_ok, "removal stores data = None: %s" % cl_ok)
        else:
            reps = [c for c in f.calls_to("re:^std::option::Option::replace$") if term_has_field(simp_deep(fv.arg(c, 0, 10)), "ClientState.data")]
            R.ob("C18.g", f, "stores-data", bool(reps), "the new data replaces the stored data (%d site(s))" % len(reps))


def rule_h(R, ctx):
    Y = ctx.yrs
    R.rule("C18.h", "R-PROV the awareness handler hands on what it received: Protocol::handle_awareness_update and its async twin pass "
                    "the received AwarenessUpdate to Awareness::apply_update as it came — the argument is the handler's own `update` "
                    "parameter (the closure's capture of it) and the handler makes no other call that could touch it (no removal of "
                    "entries, no filtering). The clock-guarded merge (C18.d) needs to SEE an entry about the local client to defend the "
                    "local state: it keeps the data and bumps the clock past the remote one; an `echo filter` in front of it leaves the "
                    "local clock behind and every later announcement of this peer loses everywhere")
    n = 0
    for p, fn in sorted(Y.fns.items()):
        if not re.search(r"sync::protocol::(Protocol|AsyncProtocol)::handle_awareness_update(::\{closure#0\})?$", p) or not fn.mir:
            continue
        ap = fn.calls_to("yrs::sync::awareness::Awareness::apply_update")
        if not ap:
            continue   # the async wrapper only boxes the closure
        n += 1
        v = FnView(fn)
        others = [c for c in fn.calls() if c not in ap and not re.search(r"(Try|FromResidual)(<.*>)?>?::(branch|from_residual)$", c.name) and
                  not re.search(r"::(poll|into_future|new_unchecked|get_context|deref|deref_mut|as_mut|as_ref)$", c.name)]
        arg = simp_deep(v.arg(ap[0], 1, 10))
        pure = arg[0] == "param" or (arg[0] == "field" and all(x[0] in ("field", "param", "deref", "ref") for x in walk(arg)))
        ok = len(ap) == 1 and pure and not others
        R.ob("C18.h", fn, "hands-on", ok, "apply_update(awareness, %s), no other call" % sshow(arg, 4) if ok else
             "the handler calls %s besides apply_update(%s): the update is touched before the clock-guarded merge sees it" %
             ([F.strip_generics(c.name).rsplit("::", 2)[-2:] for c in others][:3], sshow(arg, 4)), ap[0].loc())
    R.floor("C18.h", "awareness handlers that apply the update", n, 2)
    # the public wrappers in front of the merge hand the update on untouched as well
    m = 0
    for meth in ("apply_update", "apply_update_with", "apply_update_summary", "apply_update_summary_with"):
        fn = Y.fn("yrs::sync::awareness::Awareness::" + meth)
        v = FnView(fn)
        ai = fn.calls_to("yrs::sync::awareness::Awareness::apply_update_internal")
        if len(ai) != 1:
            R.ob("C18.h", fn, "wrapper", False, "%d calls of apply_update_internal" % len(ai))
            continue
        m += 1
        arg = simp_deep(v.arg(ai[0], 1, 10))
        is_param = arg[0] == "param" and fn.local_name(arg[1]) == "update"
        touched = []
        for cs in fn.calls():
            if cs is ai[0] or cs.bb == ai[0].bb:
                continue
            for i in range(len(cs.args)):
                a = simp_deep(v.arg(cs, i, 8))
                if root_name(a) == "update" and not re.search(r"(Try|FromResidual).*::(branch|from_residual)$", cs.name):
                    touched.append("%s(%s)" % (F.strip_generics(cs.name).rsplit("::", 1)[-1], sshow(a, 4)))
        ok = is_param and not touched and fn.cfg().postdominates(ai[0].bb, 0)
        R.ob("C18.h", fn, "wrapper-hands-on", ok, "apply_update_internal(self, update, ..) on every path, the update untouched" if ok else
             "the wrapper %s before the clock-guarded merge sees the update (argument %s)" %
             ("calls %s on it" % touched if touched else "does not pass its own parameter / not on every path", sshow(arg, 4)), ai[0].loc())
    R.floor("C18.h", "public wrappers of the awareness merge", m, 4)


def check(ctx, R):
    from . import wire_rules
    R.run("C18.a", rule_a, ctx)
    R.run("C18.b", rule_b, ctx)
    R.run("C18.c", wire_rules.c18_c, ctx)
    R.run("C18.d", rule_d, ctx)
    R.run("C18.e", rule_e, ctx)
    R.run("C18.g", rule_g, ctx)
    R.run("C18.h", rule_h, ctx)
    from . import shared as _sh
    R.run("C18.i", lambda R, c: _sh.api_delegations(
        R, c, "C18.i", _sh.AWARENESS_DELEGATIONS,
        "R-PROV the thin methods of Awareness: the local-state methods address the entry of the document's own client id "
        "(clean_local_state removes it, local_state_raw reads it, set_local_state stores the serialised state through "
        "set_local_state_raw); meta / state read the entry of the client id they were asked for; iter walks the state table"), ctx)
    from . import c02 as _c02
    R.run("C18.f", lambda R, c: _c02.rule_f(R, c, "C18.f"), ctx)
    return {}
