"""Shared mechanisms: one clause, several properties.

Many properties rest on the same handful of mechanisms (conflict scan, dependency gating and the stash, squash, split,
partial integration, stashed deletions, delete sets, slice encoding, liveness in traversals, flag words). A change to such a
mechanism breaks every property above it, whichever property the author of the change had in mind. The rule that decides a
clause of the mechanism is therefore run under every property that depends on it, with the rule id `<Cxx>.m.<mechanism>.<n>`.
The clause, its truth and its evidence are the same; only the property it is reported under differs."""


def _as(R, ctx, rid, rule, own_id):
    """run a rule that reports under its own fixed id and re-label its obligations with the mechanism id."""
    sub = type(R)(R.prop, R.tier)
    rule(sub, ctx)
    for k, v in sub.rules.items():
        R.rules[rid] = v
    for o in sub.obs:
        o.rule = rid
        R.obs.append(o)
    for f in sub.floors:
        R.floors.append((rid,) + tuple(f[1:]))
    R.analysed_fns |= sub.analysed_fns


def _rules():
    from . import accessors, c01, c02, c03, c04, c05, c06, c07, c08, c09_prims, c12, c13, c16, c17, preds, shared, wire_rules
    return {
        "conflict": [
            lambda R, c, rid: c01.rule_f(R, c, rid),
            lambda R, c, rid: preds.rule(R, c, rid, ["detect_conflict"]),
        ],
        "dependency": [
            lambda R, c, rid: c02.rule_a(R, c, rid),
            lambda R, c, rid: c02.rule_b2(R, c, rid),
            lambda R, c, rid: c02.rule_g(R, c, rid),
            lambda R, c, rid: c02.rule_h(R, c, rid),
            lambda R, c, rid: c02.rule_f(R, c, rid),
            lambda R, c, rid: preds.rule(R, c, rid, ["is_missing"]),
            lambda R, c, rid: c02.rule_b3(R, c, rid),
            lambda R, c, rid: c02.rule_b4(R, c, rid),
            lambda R, c, rid: accessors.state_vector_ops(R, c, rid),
        ],
        "squash": [
            lambda R, c, rid: c03.rule_b(R, c, rid),
            lambda R, c, rid: c12.keep_propagates(R, c, rid),
        ],
        "splice": [
            lambda R, c, rid: c04.rule_e(R, c, rid),
            lambda R, c, rid: c05.rule_e(R, c, rid),
            lambda R, c, rid: preds.rule(R, c, rid, ["adjacent_left", "adjacent_right"]),
            lambda R, c, rid: shared.content_split(R, c, rid),
        ],
        "partial": [
            lambda R, c, rid: c04.rule_i(R, c, rid),
            lambda R, c, rid: c06.rule_g(R, c, rid),
            lambda R, c, rid: c06.rule_h(R, c, rid),
            lambda R, c, rid: shared.trims(R, c, rid),
        ],
        "stash-deletes": [
            lambda R, c, rid: shared.unapplied_within_range(R, c, rid),
            lambda R, c, rid: preds.rule(R, c, rid, ["block_is_deleted"]),
        ],
        "delete-set": [
            lambda R, c, rid: c16.rule_e(R, c, rid),
            lambda R, c, rid: c09_prims.rule_ds_running(R, c, rid),
            lambda R, c, rid: preds.rule(R, c, rid, ["idmap_contains", "block_is_deleted", "slice_is_deleted"]),
            lambda R, c, rid: c16.rule_h(R, c, rid),
            lambda R, c, rid: c16.rule_f(R, c, rid),
            lambda R, c, rid: c16.rule_j(R, c, rid),
            lambda R, c, rid: accessors.blocks_cursor(R, c, rid),
            lambda R, c, rid: c16.rule_k(R, c, rid),
            lambda R, c, rid: shared.api_delegations(R, c, rid, shared.IDSET_DELEGATIONS,
                                                     "R-PROV the thin layer of the id sets (see C16.m): every IdSet / IdMap operation is the operation "
                                                     "of the same name on the inner maps of both operands, each operand handed on as the caller "
                                                     "passed it — no filtering `fast path` in front of the set algebra"),
        ],
        "slice": [
            lambda R, c, rid: c13.rule_c(R, c, rid),
        ],
        "liveness": [
            lambda R, c, rid: c17.rule_c(R, c, rid),
            lambda R, c, rid: c17.rule_d(R, c, rid),
            lambda R, c, rid: shared.gap_scan_state(R, c, rid),
            lambda R, c, rid: c17.rule_b(R, c, rid),
        ],
        "lookup": [
            lambda R, c, rid: shared.lookup_slices(R, c, rid),
            lambda R, c, rid: preds.rule(R, c, rid, ["item_contains", "slice_contains_id", "blockrange_contains"]),
            lambda R, c, rid: accessors.range_accessors(R, c, rid),
            lambda R, c, rid: accessors.binary_searches(R, c, rid),
            lambda R, c, rid: accessors.identity_table(R, c, rid),
            lambda R, c, rid: accessors.range_last_id(R, c, rid),
        ],
        "content": [
            lambda R, c, rid: shared.content_tables(R, c, rid),
            lambda R, c, rid: accessors.read_honours_offset(R, c, rid),
            lambda R, c, rid: accessors.first_last_table(R, c, rid),
            lambda R, c, rid: accessors.kind_preserving(R, c, rid),
        ],
        "version-pairing": [
            lambda R, c, rid: _as(R, c, rid, c08.rule_a, "C08.a"),
        ],
        "export": [
            lambda R, c, rid: c06.rule_b(R, c, rid),
            lambda R, c, rid: c06.rule_f(R, c, rid),
            lambda R, c, rid: _as(R, c, rid, c06.rule_c, "C06.c"),
            lambda R, c, rid: _as(R, c, rid, c02.rule_c, "C02.c"),
            lambda R, c, rid: shared.encoder_sinks(R, c, rid),
            lambda R, c, rid: shared.export_extent(R, c, rid),
            lambda R, c, rid: _as(R, c, rid, c07.rule_e, "C07.e"),
        ],
        "type-api": [
            lambda R, c, rid: shared.api_delegations(R, c, rid),
            lambda R, c, rid: shared.map_try_update(R, c, rid),
            lambda R, c, rid: shared.apply_delta_dispatch(R, c, rid),
            lambda R, c, rid: shared.prelim_kinds(R, c, rid),
        ],
        "map-api": [
            lambda R, c, rid: shared.map_api(R, c, rid),
            lambda R, c, rid: preds.rule(R, c, rid, ["map_contains_key"]),
        ],
        "block-wire": [
            lambda R, c, rid: wire_rules._wire(R, c, rid, ["Block", "Update", "IdSet", "IdRanges", "Range", "Options"]),
            lambda R, c, rid: shared.string_column_units(R, c, rid),
            lambda R, c, rid: accessors.options_codec(R, c, rid),
            lambda R, c, rid: c09_prims.rule_json(R, c, rid),
            lambda R, c, rid: c09_prims.rule_varint(R, c, rid),
            lambda R, c, rid: c09_prims.rule_packed(R, c, rid),
        ],
        "merge": [
            lambda R, c, rid: c08.rule_e(R, c, rid),
            lambda R, c, rid: c08.rule_b(R, c, rid),
            lambda R, c, rid: preds.rule(R, c, rid, ["same_type"]),
            lambda R, c, rid: accessors.variant_preserving(R, c, rid),
            lambda R, c, rid: c08.rule_h(R, c, rid),
            lambda R, c, rid: _as(R, c, rid, c08.rule_a, "C08.a"),
        ],
        "redone": [
            lambda R, c, rid: c12.rule_f(R, c, rid),
        ],
        "block-iter": [
            lambda R, c, rid: c03.rule_g(R, c, rid),
            lambda R, c, rid: c03.rule_h(R, c, rid),
        ],
        "state-vector": [
            lambda R, c, rid: c06.rule_e(R, c, rid),
            lambda R, c, rid: shared.known_state(R, c, rid),
            lambda R, c, rid: shared.exclude_known(R, c, rid),
            lambda R, c, rid: accessors.range_accessors(R, c, rid),
            lambda R, c, rid: accessors.variant_preserving(R, c, rid),
            lambda R, c, rid: _as(R, c, rid, c08.rule_d, "C08.d"),
        ],
        "text-units": [
            lambda R, c, rid: shared.text_units(R, c, rid),
            lambda R, c, rid: shared.format_replacement(R, c, rid),
            lambda R, c, rid: accessors.text_length_unit(R, c, rid),
            lambda R, c, rid: shared.format_balance(R, c, rid),
        ],
        "update-events": [
            lambda R, c, rid: _as(R, c, rid, c07.rule_b, "C07.b"),
            lambda R, c, rid: _as(R, c, rid, c07.rule_c, "C07.c"),
        ],
        "observers": [
            lambda R, c, rid: accessors.fresh_per_round(R, c, rid),
        ],
        "gc-scope": [
            lambda R, c, rid: accessors.gc_scope(R, c, rid),
        ],
        "creation": [
            lambda R, c, rid: _as(R, c, rid, c04.rule_a, "C04.a"),
        ],
        "identity": [
            lambda R, c, rid: shared.branch_identity(R, c, rid),
            lambda R, c, rid: shared.range_boundaries(R, c, rid),
        ],
        "weak-wire": [
            lambda R, c, rid: shared.weak_link_flags(R, c, rid),
        ],
        "flags": [
            lambda R, c, rid: preds.rule(R, c, rid, ["flags_check"]),
            lambda R, c, rid: preds.flag_table(R, c, rid),
        ],
    }


# property -> mechanisms it depends on *in addition to* the clauses its own module already runs
DEPENDS = {
    "C01": ["squash", "splice", "partial", "flags", "stash-deletes", "lookup", "content", "export", "liveness", "block-wire", "merge", "state-vector", "identity", "weak-wire", "update-events", "creation", "delete-set"],
    "C02": ["stash-deletes", "lookup", "export", "block-wire", "merge", "state-vector"],
    "C03": ["splice", "conflict", "lookup", "content", "map-api", "text-units", "creation", "liveness", "type-api"],
    "C04": ["splice", "dependency", "stash-deletes", "lookup", "content", "block-iter", "update-events", "liveness", "block-wire"],
    "C05": ["conflict", "squash", "splice", "dependency", "map-api", "merge", "delete-set", "update-events", "liveness", "type-api", "content"],
    "C06": ["dependency", "delete-set", "slice", "partial", "lookup", "content", "merge", "state-vector", "liveness", "block-wire"],
    "C07": ["delete-set", "slice", "partial", "export", "liveness", "block-wire", "state-vector", "creation"],
    "C08": ["slice", "delete-set", "partial", "block-wire", "state-vector", "merge", "lookup"],
    "C09": ["slice", "partial", "content", "identity", "weak-wire", "block-wire", "version-pairing"],
    "C11": ["liveness", "observers", "lookup"],
    "C12": ["splice", "squash", "lookup", "delete-set", "content"],
    "C13": ["splice", "delete-set", "lookup", "content", "export", "liveness", "state-vector", "block-wire", "gc-scope"],
    "C14": ["splice", "liveness", "lookup", "redone", "block-iter", "identity"],
    "C15": ["squash", "splice", "content", "block-wire", "liveness", "gc-scope"],
    "C16": ["delete-set", "lookup"],
    "C17": ["flags", "content", "map-api", "block-iter", "type-api"],
    "C18": ["dependency", "stash-deletes", "partial", "export", "block-wire", "merge", "state-vector", "lookup"],
    "C20": ["dependency", "splice", "squash", "lookup", "identity", "weak-wire", "liveness"],
}


# mechanisms whose code exists only with cargo feature `weak`
WEAK_ONLY = {"weak-wire"}


def run(R, ctx, prop):
    table = _rules()
    for mech in DEPENDS.get(prop, []):
        if mech in WEAK_ONLY and "weak" not in getattr(ctx.yrs, "features", ()):
            continue   # the anchored code is not compiled in this configuration
        for n, f in enumerate(table[mech]):
            rid = "%s.m.%s.%d" % (prop, mech, n)
            R.run(rid, lambda R_, c_, f=f, rid=rid: f(R_, c_, rid), ctx)
