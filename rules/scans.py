"""R-SCAN — quantifier predicates: functions whose answer is `some element of a collection satisfies P` / `every element
satisfies P`, written as a loop with an early answer, as an iterator adaptor (`any` / `all`), or as a walk along a pointer chain.

The clause decided is the *shape of the quantifier*: the whole collection is scanned (the iterator is the collection's own,
with no adaptor that narrows it), the early answer is given only for an element on which P has the required polarity, and the
default answer is given only after the scan is exhausted. A rewrite that looks at one element (`last()`, `first()`, a single
hop along the chain) or narrows the scan answers differently for every collection with more than one element."""
import re
from ylib import facts as F
from .common import *  # noqa

# iterator constructors that hand out the whole collection
WHOLE = r"(::iter|::iter_mut|::into_iter|::deref|::deref_mut|::as_slice|::as_ref|::borrow|::values|::keys|::inner|::clients|::as_mut_slice)$"

# function -> (quantifier, predicate callee regex, polarity of P for the early answer, collection field that must be scanned)
LOOP_SCANS = {
    "yrs::undo::UndoStack::is_deleted": ("exists", r"IdSet::contains$", True, "UndoStack",
                                         "an id is deleted by the stack iff SOME stack item's deletions contain it (ItemPtr::redo asks "
                                         "this about both stacks to tell its own deletions from foreign ones)"),
    "yrs::ids::IdRanges::subset_of": ("forall", r"IdRanges(<.*>)?::is_range_covered$", False, None,
                                      "subset iff EVERY range of self is covered by other"),
}

# element predicate -> (adaptor that must quantify it, minimum number of sites, why)
ADAPTOR_SCANS = {
    r"Branch::is_parent_of$": ("any", 5, "an item is in the undo scope iff SOME tracked type is one of its ancestors"),
}


def _ret_consts(fn):
    """blocks that assign a constant to the return place: [(bb, bool)] and the other (non-constant) assignments."""
    consts, others = [], []
    for i, j, st in fn.stmts():
        d = st["dst"]
        if d == 0 or (isinstance(d, dict) and d.get("l") == 0 and not d.get("p")):
            rv = st["rv"]
            if isinstance(rv.get("use"), dict) and "k" in rv["use"]:
                consts.append((i, bool(int(rv["use"]["k"])) if str(rv["use"]["k"]).lstrip("-").isdigit() else str(rv["use"]["k"]) == "true"))
            else:
                others.append((i, rv))
    return consts, others


def _narrowing_calls(term):
    """calls inside an iterator-receiver term that are not whole-collection constructors."""
    bad = []
    for t in walk(term):
        if t[0] == "call":
            n = F.strip_generics(t[1])
            if re.search(WHOLE, n) or re.search(r"(Option(<.*>)?::(as_ref|as_deref|unwrap)|::get|::get_mut|::borrow|::lock|::load|::store_mut|::store|Deref(Mut)?>?::deref(_mut)?|Iterator>::next)$", n):
                continue
            bad.append(n.rsplit("::", 2)[-2] + "::" + n.rsplit("::", 1)[-1] if n.count("::") >= 2 else n)
    return bad


def loop_scans(R, ctx, rid, names=None):
    Y = ctx.yrs
    R.rule(rid, "R-SCAN quantifier predicates written as loops: for each function of the frozen table (UndoStack::is_deleted: "
                "exists; IdRanges::subset_of: forall) the early answer is assigned only where the element "
                "predicate has the required polarity on an element handed out by Iterator::next of the collection's own iterator "
                "(no take/skip/rev/last/first/filter between the collection and next), and the default answer only where the "
                "outermost iterator is exhausted (`next() is None`); there is no other definition of the answer")
    n = 0
    for path, (q, pred, pol, coll, why) in sorted(LOOP_SCANS.items()):
        if names and path not in names:
            continue
        fn = Y.fn(path)
        v = FnView(fn)
        consts, others = _ret_consts(fn)
        early = (q == "exists")
        nexts = [c for c in fn.calls() if re.search(r"Iterator>::next$", c.name)]
        if not nexts:
            # the same quantifier written with the iterator adaptor: `coll.iter().any(|x| P(x))` / `.all(|x| P(x))`
            adaptor = "any" if q == "exists" else "all"
            # `find(..).is_some()` / `position(..).is_some()` are `any` spelt differently
            names = ("any", "find", "position") if q == "exists" else ("all",)
            hosts = [c for c in fn.calls() if F.strip_generics(c.name).rsplit("::", 1)[-1] in names and len(c.args) == 2]
            done = False
            for h in hosts:
                d = mir_def(fn, h.args[1])
                cl = Y.fns.get(d[1]["agg"].get("def")) if d and d[0] == "stmt" and isinstance(d[1].get("agg"), dict) and d[1]["agg"].get("kind") == "closure" else None
                if cl is None or not cl.mir:
                    continue
                cret = simp_deep(F.Terms(cl).local(0, 10))
                # exists/True and forall/False both mean: the closure answers P(x) itself; the other two its negation
                plain = cret[0] == "call" and re.search(pred, F.strip_generics(cret[1])) is not None
                neg = cret[0] == "un" and cret[1] == "Not" and simp_deep(cret[2])[0] == "call" and re.search(pred, F.strip_generics(simp_deep(cret[2])[1])) is not None
                want_plain = (q == "exists") == (pol is True)
                bad = _narrowing_calls(simp_deep(v.arg(h, 0, 14)))
                ret = simp_deep(v.terms.local(0, 10))
                is_answer = ret[0] == "call" and len(ret) > 3 and ret[3] == h.bb
                if not is_answer and ret[0] == "call" and ret[1].endswith("Option::is_some") and ret[2]:
                    inner = simp_deep(ret[2][0])
                    is_answer = inner[0] == "call" and len(inner) > 3 and inner[3] == h.bb
                okh = (plain if want_plain else neg) and not bad and is_answer
                n += 1
                done = True
                R.ob(rid, fn, "scan", okh, "%s written as `%s` over the whole collection with the element predicate %s — %s" % (q, adaptor, pred.strip("$"), why)
                     if okh else "`%s` adaptor form, but closure answers P un-negated=%s negated=%s, receiver narrowed by %s, is the answer=%s — %s" % (adaptor, plain, neg, bad[:3], is_answer, why))
                break
            if done:
                continue
            R.ob(rid, fn, "scan", False, "%s: the function no longer iterates (no Iterator::next call): it cannot be a scan of the whole "
                                         "collection — %s" % (q, why))
            continue
        n += 1
        problems = []
        if others:
            problems.append("the answer has a non-constant definition (%d)" % len(others))
        e_sites = [bb for bb, val in consts if val == early]
        d_sites = [bb for bb, val in consts if val != early]
        if not e_sites or not d_sites:
            problems.append("early/default answers missing (early=%d default=%d)" % (len(e_sites), len(d_sites)))
        for bb in e_sites:
            g = v.guards(bb)
            some = any(isinstance(l.polarity, str) and l.polarity == "Some" and term_has_call(simp(l.term), "re:Iterator>::next$") and simp(l.term)[0] == "call" for l in g)
            p_ok = any(simp(l.term)[0] == "call" and re.search(pred, F.strip_generics(simp(l.term)[1])) and l.polarity is pol for l in g)
            if not some:
                problems.append("the early answer `%s` is given outside the scan (no `next() is Some` on its path)" % early)
            if not p_ok:
                problems.append("the early answer `%s` is not decided by %s being %s" % (early, pred.strip("$"), pol))
        # outermost iterator = the next() call whose block dominates every other next()
        outer = [c for c in nexts if all(fn.cfg().dominates(c.bb, o.bb) for o in nexts)]
        for bb in d_sites:
            g = v.guards(bb)
            ex = [l for l in g if isinstance(l.polarity, str) and l.polarity == "None" and simp(l.term)[0] == "call" and re.search(r"Iterator>::next$", simp(l.term)[1])]
            if not ex:
                problems.append("the default answer `%s` is given before the scan is exhausted (no `next() is None` on its path)" % (not early))
            elif outer and not any(len(simp(l.term)) > 3 and simp(l.term)[3] == outer[0].bb for l in ex):
                problems.append("the default answer `%s` is given when an inner iterator is exhausted, not the outermost one" % (not early))
        for c in nexts:
            recv = simp_deep(v.arg(c, 0, 14))
            bad = _narrowing_calls(recv)
            if bad:
                problems.append("the iterator is narrowed by %s" % bad[:3])
        if coll:
            if not any(term_has_field(simp_deep(v.arg(c, 0, 14)), coll) or coll in str(fn.sig) for c in nexts):
                problems.append("no iterator over %s" % coll)
        R.ob(rid, fn, "scan", not problems,
             "%s over the whole collection: early answer %s decided by %s=%s on an element, default after exhaustion — %s" % (q, early, pred.strip("$"), pol, why)
             if not problems else "; ".join(problems) + " — " + why)
    R.floor(rid, "loop scans analysed", n, len([p for p in LOOP_SCANS if not names or p in names]))


def chain_scan(R, ctx, rid):
    Y = ctx.yrs
    fn = Y.fn("yrs::branch::Branch::is_parent_of")
    v = FnView(fn)
    R.rule(rid, "R-SCAN ancestor test: Branch::is_parent_of answers true only where the compared branch equals self, the comparison "
                "sits in a loop, and the loop-carried pointer is re-seeded from the `item` of the branch just compared (one hop up the "
                "tree per round): an item is in an undo scope iff ANY ancestor is the scope type, not only its direct parent")
    consts, others = _ret_consts(fn)
    eqs = [c for c in fn.calls() if re.search(r"PartialEq(<.*>)?>?::eq$", c.name)]
    R.floor(rid, "self comparison in is_parent_of", len(eqs), 1)
    problems = []
    if others:
        problems.append("the answer has a non-constant definition")
    for bb, val in consts:
        if val:
            g = v.guards(bb)
            if not any(simp(l.term)[0] == "call" and re.search(r"PartialEq(<.*>)?>?::eq$", simp(l.term)[1]) and l.polarity is True for l in g):
                problems.append("`true` is answered without the branch comparing equal to self")
    for c in eqs:
        if not fn.cfg().in_loop(c.bb):
            problems.append("the comparison with self is not inside a loop (single hop)")
    # the loop-carried pointer: some statement inside the loop copies `<branch>.item` into a local that reaches the loop head
    hops = [(i, st) for i, j, st in fn.stmts() if fn.cfg().in_loop(i) and isinstance(st["rv"].get("use"), dict)
            and isinstance(st["rv"]["use"].get("c", st["rv"]["use"].get("m")), dict)
            and any(isinstance(x, str) and x.endswith("Branch.item") for x in st["rv"]["use"].get("c", st["rv"]["use"].get("m"))["p"])]
    if not hops:
        problems.append("no hop `ptr = parent.item` inside the loop")
    R.ob(rid, fn, "chain", not problems, "true only on equality with self, inside a loop that hops to parent.item (%d hop site(s))" % len(hops)
         if not problems else "; ".join(problems))


def adaptor_scans(R, ctx, rid):
    Y = ctx.yrs
    R.rule(rid, "R-SCAN scope membership (belief rule, 5 of 5 sites on the pinned tree): every call of Branch::is_parent_of outside "
                "its own definition sits in a closure handed to Iterator::any, whose receiver is the scope collection's own iterator "
                "(nothing narrows it: no take/skip/next/last/filter) — an item is in the undo manager's scope iff SOME tracked type "
                "is one of its ancestors; testing one tracked type, or quantifying with `all`, drops captured changes of every "
                "other tracked type from undo/redo")
    for pred, (adaptor, want, why) in ADAPTOR_SCANS.items():
        n = 0
        for p, fn in sorted(Y.fns.items()):
            if not fn.mir or "::test" in p:
                continue
            users = [c for c in fn.calls() if re.search(pred, F.strip_generics(c.name))]
            if not users:
                continue
            root = Y.fns.get(p.rsplit("::{closure", 1)[0]) or Y.root_of(fn)
            if "{closure" not in p:
                for cs, site in ordinal_sites(users):
                    n += 1
                    R.ob(rid, fn, "direct:" + site, False, "%s is asked about a single collection element outside an `%s` scan — %s" % (pred.strip("$"), adaptor, why), cs.loc())
                continue
            # the closure must be the argument of an `any` call in the enclosing function
            v = FnView(root)
            hosts = []
            for cs in root.calls():
                if len(cs.args) >= 2:
                    d = mir_def(root, cs.args[-1])
                    if d and d[0] == "stmt" and isinstance(d[1].get("agg"), dict) and d[1]["agg"].get("def") == fn.path.replace("crate::", "yrs::"):
                        hosts.append(cs)
            for cs, site in ordinal_sites(users):
                n += 1
                if not hosts:
                    R.ob(rid, fn, "closure:" + site, False, "the closure that asks %s is not handed to an iterator adaptor in %s" % (pred.strip("$"), root.path), cs.loc())
                    continue
                h = hosts[0]
                name = F.strip_generics(h.name)
                is_q = name.endswith("Iterator::" + adaptor) or name.endswith("::" + adaptor)
                recv = simp_deep(v.arg(h, 0, 14))
                bad = _narrowing_calls(recv)
                R.ob(rid, root, "%s@%s" % (adaptor, fn.path.rsplit("::", 1)[-1]), is_q and not bad,
                     "%s over %s" % (adaptor, sshow(recv, 5)) if is_q and not bad else
                     "the scope test is `%s` over %s (narrowed by %s) instead of `%s` over the whole collection — %s" % (name.rsplit("::", 1)[-1], sshow(recv, 5), bad[:3], adaptor, why), h.loc())
        R.floor(rid, "uses of %s" % pred.strip("$"), n, want)
