"""C10 — decoders are total on untrusted bytes: absence of panic / unbounded allocation / unbounded recursion / UB
constructs in the decode cone (instantiated call graph from the public decoding entry points)."""
import json
import os
import re
from collections import defaultdict

from ylib import facts as F
from .common import *  # noqa

HERE = os.path.dirname(os.path.abspath(__file__))
DISCHARGE_TABLE = os.path.join(HERE, "c10_discharged.json")

INTEGRATION_ROOTS = {"yrs::update::Update::integrate", "yrs::transaction::TransactionMut::apply_delete",
                     "yrs::transaction::TransactionMut::apply_update", "yrs::sync::awareness::Awareness::apply_update"}

READ_SOURCES = (
    "re:^yrs::encoding::read::Read::read_", "re:^<.* as yrs::encoding::read::Read>::read_",
    "re:^yrs::updates::decoder::Decoder::read_", "re:^<.* as yrs::updates::decoder::Decoder>::read_",
    "re:^<.* as yrs::encoding::varint::VarInt>::read$", "re:^yrs::encoding::varint::VarInt::read$",
    "re:^<.* as yrs::encoding::varint::SignedVarInt>::read_signed$", "re:^yrs::encoding::varint::SignedVarInt::read_signed$",
    "re:^yrs::encoding::varint::read_var_", "re:^yrs::updates::decoder::DecoderV2::read_(usize|buf)$",
    "re:^yrs::updates::decoder::(UIntOptRle|IntDiffOptRle|Rle|String)Decoder::read_",
)

PANIC_CALLS = [
    ("unwrap", re.compile(r"^std::(option::Option|result::Result)::(unwrap|expect|unwrap_err|expect_err)$")),
    ("index", re.compile(r"^<(std::vec::Vec<.*>|\[T\]|\[.*\]|str|std::string::String|std::collections::VecDeque<.*>|smallvec::SmallVec<.*>|"
                         r"std::collections::HashMap<.*>|std::collections::BTreeMap<.*>|yrs::block_store::ClientBlockList) as std::ops::Index(Mut)?<.*>>::index(_mut)?$")),
    ("slice-op", re.compile(r"^(<\[T\]>::(split_at|split_at_mut|copy_from_slice|clone_from_slice|swap|rotate_left|rotate_right)|"
                            r"std::vec::Vec::(insert|remove|swap_remove|drain|split_off)|std::collections::VecDeque::(insert|remove|drain|split_off)|"
                            r"std::string::String::(insert|insert_str|remove|drain|split_off|replace_range)|<str>::split_at|<str>::split_at_mut)$")),
    ("panic", re.compile(r"(^|::)(core::panicking::|std::rt::panic|std::rt::begin_panic|std::panicking::begin_panic|core::panicking::assert_failed|"
                         r"std::process::abort|std::process::exit|core::panicking::unreachable_display|core::option::expect_failed|core::result::unwrap_failed)")),
]
ALLOC_CALLS = re.compile(r"^(std::vec::Vec::(with_capacity|with_capacity_in|reserve|reserve_exact|resize|resize_with)|"
                         r"std::collections::VecDeque::(with_capacity|reserve|reserve_exact|resize)|"
                         r"std::collections::(HashMap|HashSet)::(with_capacity|with_capacity_and_hasher|reserve)|"
                         r"std::string::String::(with_capacity|reserve|reserve_exact)|smallvec::SmallVec::(with_capacity|reserve|reserve_exact|resize)|"
                         r"std::vec::from_elem|std::iter::repeat_n|<\[T\]>::repeat|std::string::String::repeat|<str>::repeat|"
                         r"yrs::ids::IdRanges::with_capacity)$")
UNCHECKED = re.compile(r"(_unchecked(_mut)?$|::transmute$|::from_raw_parts(_mut)?$|::assume_init$|::unreachable_unchecked$)")


class Site:
    def __init__(self, fn, cls, kind, bb, line, ops=None, cs=None):
        self.fn, self.cls, self.kind, self.bb, self.line, self.ops, self.cs = fn, cls, kind, bb, line, ops or [], cs
        self.ordinal = 0

    @property
    def site(self):
        return "%s#%d" % (self.kind, self.ordinal)

    def loc(self):
        return "%s:%s" % (self.fn.file, self.line)


def cone_of(Y):
    m = Y.mono
    if not m:
        raise AnchorLost("no instantiated call graph in the facts")
    nodes = m["nodes"]
    adj = defaultdict(list)
    for a, b, via in m["edges"]:
        adj[a].append(b)
    roots = m["roots"]
    start = [k for k in range(len(roots)) if roots[k] not in INTEGRATION_ROOTS]
    reach = set()
    st = list(start)
    while st:
        x = st.pop()
        if x in reach:
            continue
        reach.add(x)
        st.extend(adj[x])
    paths = {nodes[k]["path"] for k in reach if nodes[k]}
    # instance-level graph (a polymorphic default method instantiated for two types is two nodes)
    g = defaultdict(set)
    for a in reach:
        if not nodes[a]:
            continue
        for b in adj[a]:
            if nodes[b]:
                g[a].add(b)
    m["_names"] = {k: nodes[k]["path"] for k in reach if nodes[k]}
    return paths, g, m


L1_TYPES = re.compile(r"(DecoderV1|DecoderV2|encoding::read::Cursor|&mut D\b|&mut R\b|RleDecoder|StringDecoder|MessageReader)")


RE_FILES = ("updates/encoder.rs", "encoding/write.rs")


def layer_of(fn):
    sig = fn.sig or {}
    if fn.kind == "closure":
        return None
    name0 = fn.path.rsplit("::", 1)[-1]
    if fn.file.endswith(RE_FILES) or name0.startswith(("write_", "encode")) or name0 in ("to_vec", "flush"):
        return "RE"
    ins = " ".join(sig.get("inputs", []))
    if L1_TYPES.search(ins) or L1_TYPES.search(sig.get("impl_self") or ""):
        return "L1"
    if fn.file.endswith(("encoding/read.rs", "encoding/varint.rs", "updates/decoder.rs")):
        return "L1"
    name = fn.path.rsplit("::", 1)[-1]
    if name in ("decode_v1", "decode_v2", "from_json") or fn.path.startswith("yrs::alt::"):
        return "L1"
    return "L2"


def collect_sites(Y, fn):
    out = []
    if not fn.mir:
        return out
    cfg = fn.cfg()
    for bb, b in enumerate(fn.blocks):
        if b.get("cleanup") or bb not in cfg.reach:
            continue
        t = b["t"]
        if "assert" in t:
            k = t["assert"]
            if k.startswith(("Misaligned", "NullPointer", "InvalidEnum")):
                continue
            cls = "index" if k == "BoundsCheck" else "arith"
            out.append(Site(fn, cls, "assert:" + k, bb, t["line"], t["ops"]))
        elif "call" in t:
            cs = F.CallSite(fn, bb, t)
            nm = F.strip_generics(cs.name)
            for cls, rx in PANIC_CALLS:
                if rx.search(nm):
                    out.append(Site(fn, "explicit" if cls in ("panic", "unwrap") else "index", "call:" + _short(nm), bb, t["line"], cs.args, cs))
                    break
            else:
                if ALLOC_CALLS.search(nm):
                    out.append(Site(fn, "alloc", "alloc:" + _short(nm), bb, t["line"], cs.args, cs))
                elif UNCHECKED.search(nm):
                    out.append(Site(fn, "ub", "unchecked:" + _short(nm), bb, t["line"], cs.args, cs))
    seen = defaultdict(int)
    for s in out:
        s.ordinal = seen[s.kind]
        seen[s.kind] += 1
    return out


def _short(nm):
    nm = re.sub(r"<[^<>]*>", "", nm)
    nm = re.sub(r"<[^<>]*>", "", nm)
    parts = [p for p in nm.split("::") if p]
    return "::".join(parts[-2:])


def const_of(op):
    if isinstance(op, dict) and isinstance(op.get("k"), int) and not isinstance(op.get("k"), bool):
        return op["k"]
    return None


def tainted(term):
    """does the term contain a value read from the wire?"""
    for t in walk(term):
        if t[0] == "call" and any(callee_match(t[1], p) for p in READ_SOURCES):
            return True
    return False


def bounded_counter(fn, v, op):
    """operand is a local whose definitions are constants and `self + const`, and which is compared with a constant
    somewhere in the function (loop bound) — or with a value under a dominating `<` test."""
    pl = op.get("c", op.get("m")) if isinstance(op, dict) else None
    if not isinstance(pl, int):
        return None
    root = fn.copy_root(op)
    if not isinstance(root, int):
        return None
    defs = fn.defs().get(root, [])
    if not defs:
        return None
    steps = []
    for d in defs:
        if d[0] != "stmt":
            return None
        rv = d[3]["rv"]
        if "use" in rv and const_of(rv["use"]) is not None:
            continue
        # x = (x + c).0 appears as use of a tuple field of a checked-add temp
        t = simp_deep(v.terms.rvalue(rv, 6))
        adds = [x for x in walk(t) if x[0] == "bin" and x[1].startswith("Add")]
        if len(adds) == 1 and simp(adds[0][3])[0] == "const" and isinstance(simp(adds[0][3])[1], int):
            steps.append(simp(adds[0][3])[1])
            continue
        return None
    if not steps:
        return None
    # a comparison of this counter with a constant bound
    for l in v.lits:
        t = l.term
        if t[0] == "bin" and t[1] in ("Lt", "Le", "Gt", "Ge"):
            for side, other in ((t[2], t[3]), (t[3], t[2])):
                s = simp(side)
                o = simp(other)
                if s[0] in ("local", "phi") or True:
                    if _mentions_root(fn, v, side, root) and o[0] == "const" and isinstance(o[1], int) and o[1] < (1 << 24):
                        return "counter bounded by the comparison %s (step %s)" % (l.desc[:50], steps)
    return None


def _mentions_root(fn, v, term, root):
    name = fn.local_name(root)
    for x in walk(term):
        if x[0] == "local" and x[1] == root:
            return True
        if x[0] == "phi":
            # the phi of the counter's own definitions
            txt = show(x, 3)
            if name and name in txt:
                return True
    return False


def guarded_lt(fn, v, bb, op_small, op_big=None):
    """a dominating literal `op_small < X` (true) or `op_small >= X` (false) guards the block."""
    ts = simp_deep(v.terms.operand(op_small, 8))
    for l in v.guards(bb):
        t = l.term
        if t[0] == "bin" and t[1] in ("Lt", "Le", "Gt", "Ge", "Ne", "Eq"):
            a, b = simp_deep(t[2]), simp_deep(t[3])
            if (t[1] in ("Lt", "Le") and a == ts and l.polarity is True) or (t[1] in ("Gt", "Ge") and b == ts and l.polarity is True) or \
               (t[1] in ("Ge", "Gt") and a == ts and l.polarity is False) or (t[1] in ("Le", "Lt") and b == ts and l.polarity is False):
                # the test must be re-evaluated on every iteration that reaches the site: no cycle through the site avoids it
                cfg = fn.cfg()
                again = set()
                st = [x for x in cfg.succ[bb] if x != l.bb]
                while st:
                    x = st.pop()
                    if x in again or x == l.bb:
                        continue
                    again.add(x)
                    st.extend(cfg.succ[x])
                if bb in again:
                    continue
                return l.desc
    return None


def guarded_pos(fn, v, bb, op, c):
    """x - c where a literal `x > 0` / `x != 0` / `x >= c` is necessary for the block and re-evaluated on every iteration."""
    ts = simp_deep(v.terms.operand(op, 8))
    for l in v.guards(bb):
        t = l.term
        if t[0] == "bin" and t[1] in ("Gt", "Ge", "Ne", "Eq", "Lt", "Le"):
            a, b = simp_deep(t[2]), simp_deep(t[3])
            kb = b[1] if b[0] == "const" else None
            ok = a == ts and kb is not None and (
                (t[1] == "Gt" and l.polarity is True and kb >= c - 1) or (t[1] == "Ge" and l.polarity is True and kb >= c) or
                (t[1] == "Ne" and l.polarity is True and kb == 0 and c == 1) or (t[1] == "Eq" and l.polarity is False and kb == 0 and c == 1) or
                (t[1] == "Le" and l.polarity is False and kb >= c - 1) or (t[1] == "Lt" and l.polarity is False and kb >= c))
            if ok:
                cfg = fn.cfg()
                again = set()
                st = [x for x in cfg.succ[bb] if x != l.bb]
                while st:
                    x = st.pop()
                    if x in again or x == l.bb:
                        continue
                    again.add(x)
                    st.extend(cfg.succ[x])
                if bb not in again:
                    return l.desc
    return None


def discharge(Y, s, layer):
    """(ok, reason) by sound local patterns; anything else is a candidate."""
    fn = s.fn
    v = FnView(fn)
    k = s.kind
    if k.startswith("assert:"):
        ak = k[7:]
        cs = [const_of(o) for o in s.ops]
        for i, o in enumerate(s.ops):
            if cs[i] is None:
                t = simp(v.terms.operand(o, 4))
                if t[0] == "const" and isinstance(t[1], int) and not isinstance(t[1], bool):
                    cs[i] = t[1]
        if ak == "BoundsCheck":
            if cs[0] is not None and cs[1] is not None and cs[1] < cs[0]:
                return True, "constant index %d < constant length %d" % (cs[1], cs[0])
            if cs[0] is not None:
                t = simp_deep(v.terms.operand(s.ops[1], 8))
                if t[0] == "bin" and t[1] == "BitAnd" and simp(t[3])[0] == "const" and simp(t[3])[1] < cs[0]:
                    return True, "index masked with %d < length %d" % (simp(t[3])[1], cs[0])
                if t[0] == "bin" and t[1] == "Shr" and simp(t[3])[0] == "const" and (256 >> simp(t[3])[1]) <= cs[0]:
                    return True, "u8 index shifted right by %d < length %d" % (simp(t[3])[1], cs[0])
            g = guarded_lt(fn, v, s.bb, s.ops[1])
            if g:
                return True, "index bounded by the dominating test %s" % g[:60]
            return False, "index %s vs length %s" % (sshow(v.terms.operand(s.ops[1], 8), 5), sshow(v.terms.operand(s.ops[0], 8), 4))
        if ak in ("DivisionByZero", "RemainderByZero"):
            ct = simp_deep(v.terms.operand(s.fn.blocks[s.bb]["t"]["cond"], 6))
            if ct[0] == "bin" and ct[1] == "Eq":
                d, z = simp(ct[2]), simp(ct[3])
                if d[0] == "const" and z[0] == "const" and isinstance(d[1], int) and d[1] != z[1]:
                    return True, "constant non-zero divisor %d" % d[1]
            return False, "%s: divisor %s" % (ak, sshow(ct, 5))
        if ak in ("Overflow(Div)", "Overflow(Rem)"):
            if cs[1] is not None and cs[1] != -1:
                return True, "constant divisor %d != -1" % cs[1]
            return False, "%s on %s" % (ak, [sshow(v.terms.operand(o, 8), 5) for o in s.ops])
        if ak.startswith("Overflow(Sh"):
            if cs[1] is not None:
                return True, "constant shift amount %d" % cs[1]
            bc = bounded_counter(fn, v, s.ops[1])
            if bc and _shift_bound_ok(fn, v, s):
                return True, "shift amount is a " + bc
            return False, "shift amount %s" % sshow(v.terms.operand(s.ops[1], 8), 5)
        if ak.startswith("Overflow(") or ak == "OverflowNeg":
            if all(c is not None for c in cs):
                return True, "constant operands"
            if ak in ("Overflow(Add)",) and len(s.ops) == 2:
                for a, b in ((s.ops[0], s.ops[1]), (s.ops[1], s.ops[0])):
                    cb = const_of(b)
                    if cb is not None and cb < (1 << 16):
                        bc = bounded_counter(fn, v, a)
                        if bc:
                            return True, "%s + %d: %s" % (sshow(v.terms.operand(a, 6), 3), cb, bc)
                        g = guarded_lt(fn, v, s.bb, a)
                        if g:
                            return True, "counter + %d under the dominating bound %s" % (cb, g[:50])
                # lengths of in-memory strings/collections
                ta, tb = (simp_deep(v.terms.operand(o, 8)) for o in s.ops)
                if all(_is_mem_len(t) for t in (ta, tb)):
                    return True, "sum of lengths of in-memory buffers (each <= isize::MAX)"
            if ak == "Overflow(Sub)" and cs[1] is not None:
                g = guarded_pos(fn, v, s.bb, s.ops[0], cs[1])
                if g:
                    return True, "x - %d under the per-iteration test %s" % (cs[1], g[:50])
            if layer in ("L2", "RE") and not any(tainted(v.terms.operand(o, 10)) for o in s.ops):
                return None, "%s arithmetic on decoded values (clock/len invariants are not tracked across functions)" % layer
            return False, "%s on %s" % (ak, [sshow(v.terms.operand(o, 8), 5) for o in s.ops])
        return False, ak
    if s.cls == "alloc":
        # capacity argument position: associated constructors take it first, methods on a collection second
        if re.search(r"with_capacity", k):
            size_ops = s.ops[0:1]
        elif "from_elem" in k or "repeat_n" in k or re.search(r"(reserve|reserve_exact|resize|resize_with|repeat)#", k + "#"):
            size_ops = s.ops[1:2]
        else:
            size_ops = s.ops[-1:]
        for o in size_ops:
            t = v.terms.operand(o, 14)
            if const_of(o) is not None:
                return True, "constant capacity"
            if tainted(t) and not term_has_call(t, "re:::min$", "re:^std::cmp::min$"):
                return False, "capacity %s comes from the wire with no bound" % sshow(t, 5)
            ps = [x for x in walk(simp_deep(t)) if x[0] == "param"]
            if ps and not _is_mem_len(simp_deep(t)):
                return "param", (ps[0][1], sshow(t, 5))
        return True, "capacity is derived from in-memory sizes: %s" % [sshow(v.terms.operand(o, 8), 4) for o in size_ops]
    return False, s.kind


def _is_mem_len(t):
    t = simp(t)
    if t[0] == "const":
        return True
    if t[0] == "call" and re.search(r"::(len|capacity|utf16_len|len_utf8|len_utf16|count)$", F.strip_generics(t[1])):
        return True
    if t[0] == "phi":
        return all(_is_mem_len(x) for x in t[1])
    if t[0] == "bin" and t[1].startswith(("Add", "Sub")):
        return _is_mem_len(t[2]) and _is_mem_len(t[3])
    if t[0] == "field" and t[1].endswith((".0", ".1")) and simp(t[2])[0] == "bin":
        return _is_mem_len(simp(t[2]))
    return False


def _shift_bound_ok(fn, v, s):
    """bounded counter used as a shift amount: the bound plus one step must stay below the operand width."""
    width = {"u8": 8, "i8": 8, "u16": 16, "i16": 16, "u32": 32, "i32": 32, "u64": 64, "i64": 64, "usize": 64, "isize": 64, "u128": 128, "i128": 128}
    op = s.ops[0]
    pl = op.get("c", op.get("m")) if isinstance(op, dict) else None
    ty = fn.local_ty(pl) if isinstance(pl, int) else (op.get("ty") if isinstance(op, dict) else None)
    w = width.get(ty)
    if w is None:
        return False
    best = None
    root = fn.copy_root(s.ops[1])
    for l in v.lits:
        t = l.term
        if t[0] == "bin" and t[1] in ("Lt", "Le", "Gt", "Ge"):
            for side, other in ((t[2], t[3]), (t[3], t[2])):
                o = simp(other)
                if isinstance(root, int) and _mentions_root(fn, v, side, root) and o[0] == "const" and isinstance(o[1], int):
                    best = o[1] if best is None else min(best, o[1])
    return best is not None and best < w


NARROW = ("u8", "u16", "u32")


def _narrow_operand(Y, fn, op, depth=3, visiting=frozenset()):
    """is the integer operand provably < 2^32: a constant, a zero-extending cast from u8/u16/u32, or a parameter that every
    caller fills that way."""
    c = const_of(op)
    if c is not None:
        return 0 <= c < (1 << 32), "constant %s" % c
    l = op.get("c", op.get("m")) if isinstance(op, dict) else None
    for _ in range(6):
        if not isinstance(l, int):
            return False, "not a plain local"
        if 1 <= l <= fn.argc():
            if depth <= 0:
                return False, "parameter chain too deep"
            return _narrow_param(Y, fn, l - 1, depth - 1, visiting)
        ds = fn.defs().get(l, [])
        if len(ds) != 1 or ds[0][0] != "stmt":
            return False, "local _%d has %d definitions" % (l, len(ds))
        rv = ds[0][3]["rv"]
        if "cast" in rv and rv.get("kind") == "IntToInt" and rv.get("from") in NARROW:
            return True, "zero-extended from %s" % rv["from"]
        if "use" in rv and isinstance(rv["use"], dict):
            c = const_of(rv["use"])
            if c is not None:
                return 0 <= c < (1 << 32), "constant %s" % c
            l = rv["use"].get("c", rv["use"].get("m"))
            continue
        return False, "defined by %s" % list(rv)[0]
    return False, "copy chain too long"


def _narrow_param(Y, fn, idx, depth=3, visiting=frozenset()):
    """every call of `fn` (by resolved or declared name; for trait methods also calls of the trait method with that name)
    passes a narrow value at position idx."""
    name = fn.path
    if (name, idx) in visiting:
        return True, "forwarded parameter (cycle: decided by the other call sites)"
    visiting = visiting | {(name, idx)}
    meth = name.rsplit("::", 1)[-1]
    pats = [name]
    m = re.match(r"^<(.+) as (.+)>::(\w+)$", name)
    if m:
        pats.append(m.group(2) + "::" + m.group(3))
    n = 0
    for root, css in callers_of(Y, *pats).items():
        for cs in css:
            if idx >= len(cs.args):
                return False, "call %s passes fewer arguments" % cs
            ok, why = _narrow_operand(Y, cs.fn, cs.args[idx], depth, visiting)
            if not ok:
                return False, "%s passes a value that is not bounded by u32::MAX (%s) at %s" % (cs.fn.path, why, cs.loc())
            n += 1
    if n == 0:
        return False, "no call sites of %s found" % name
    return True, "%d call site(s) of %s pass a constant or a value zero-extended from <= 32 bits" % (n, meth)


def check_premise(Y, fn, prem):
    kind = prem[0]
    if kind == "narrow_param":
        ok, why = _narrow_param(Y, fn, prem[1])
        # a wrapper impl that forwards its own parameter (DecoderV1/V2::read_exact -> Cursor::read_exact) is covered by recursion
        return ok, why
    return False, "unknown premise kind %s" % kind


def load_table():
    if os.path.exists(DISCHARGE_TABLE):
        return json.load(open(DISCHARGE_TABLE))["discharged"]
    return {}


def check(ctx, R):
    Y = ctx.yrs
    R.rule("C10.cone", "the decode cone: functions reachable in the instantiated (monomorphic) call graph from every Decode::decode_v1/_v2 "
                       "impl, the decoders' constructors, Any::{decode,from_json}, MessageReader::next, the alt.rs functions and "
                       "Update::{merge_updates,encode_diff,state_vector} (re-encoding of decoded values); L1 = parse layer (takes a "
                       "decoder/cursor), L2 = algebra over decoded values")
    R.rule("C10.arith", "R-PANIC arithmetic: every MIR Assert(Overflow/OverflowNeg/shift) in an L1 function is discharged by a sound local "
                        "pattern (constants, loop counter under a constant or dominating bound, lengths of in-memory buffers) or by a frozen "
                        "table entry with its bound argument; L2 arithmetic on decoded clocks is inventory (struct invariants not tracked)")
    R.rule("C10.index", "R-PANIC indexing: every MIR BoundsCheck and every Index/slice/insert/remove call in the cone has an index that is "
                        "constant, masked, or bounded by a dominating comparison, or a frozen table entry")
    R.rule("C10.explicit", "R-PANIC explicit: no unwrap/expect/panic!/unreachable!/assert! is reachable on attacker-chosen bytes in the cone "
                           "(each site discharged by a frozen reason or reported)")
    R.rule("C10.alloc", "R-ALLOC: no wire-derived integer reaches an allocation size (with_capacity / reserve / resize / vec![x; n]) without "
                        "try_reserve, min(..) or an explicit bound; capacities passed through parameters are followed to the callers")
    R.rule("C10.rec", "R-REC: every call-graph cycle inside the cone has a depth bound independent of input nesting (frozen reasons) ")
    R.rule("C10.ub", "R-UB: no *_unchecked / transmute / from_raw_parts call in the cone operates on input-derived data (frozen reasons)")
    paths, graph, mono = cone_of(Y)
    R.floor("C10.cone", "functions in the decode cone", len(paths), 250)
    table = load_table()
    stats = defaultdict(int)
    layers = {}
    all_sites = []
    for p in sorted(paths):
        fn = Y.fns.get(p)
        if fn is None or not fn.mir:
            continue
        R.touch(fn)
        lay = layer_of(Y.root_of(fn)) or "L2"
        layers[p] = lay
        for s in collect_sites(Y, fn):
            all_sites.append((s, lay))
    # parameters that carry capacities: follow to callers
    for s, lay in all_sites:
        rid = "C10." + s.cls
        key = "%s|%s|%s" % (rid, s.fn.path, s.site)
        stats[s.cls] += 1
        if s.cls in ("arith", "index") and s.kind.startswith("assert:") or s.cls == "alloc":
            ok, why = discharge(Y, s, lay)
            if ok == "param":
                ok, why = _follow_capacity_param(Y, s, why, paths)
            if ok is True:
                R.ob(rid, s.fn, s.site, True, why, s.loc(), nontrivial=not why.startswith("constant"))
                continue
            if ok is None:
                R.inventory(rid, s.fn, s.site, why, s.loc())
                continue
        else:
            why = s.kind
            if s.cls == "index" and s.cs is not None:
                why = "%s(%s)" % (s.kind, ", ".join(sshow(FnView(s.fn).arg(s.cs, i, 8), 4) for i in range(len(s.ops))))
            if lay == "L2" and s.cls == "index" and s.cs is not None and key not in table and len(s.ops) == 2 \
                    and re.search(r"::index(_mut)?$", F.strip_generics(s.cs.name)) and mir_root(s.fn, s.ops[1])[0] == "const":
                # a constant index into a decoded container: sound local pattern = a dominating non-emptiness / length test of
                # that container (decoded containers can be empty: Update::decode creates a client's list before reading its blocks)
                c = mir_root(s.fn, s.ops[1])[1]
                v2 = FnView(s.fn)
                cont = mir_root(s.fn, s.ops[0])
                okg = False
                calls_by_bb = {x.bb: x for x in s.fn.calls()}
                for l in v2.guards(s.bb):
                    for t in walk(l.term):
                        if t[0] == "call" and len(t) > 3 and t[3] in calls_by_bb:
                            gc = calls_by_bb[t[3]]
                            nm = F.strip_generics(gc.name)
                            if gc.args and mir_root(s.fn, gc.args[0]) == cont:
                                if nm.endswith("::is_empty") and l.polarity is False and c == 0:
                                    okg = True
                                if nm.endswith("::len") and l.term[0] == "bin":
                                    okg = True  # a comparison with the container's length
                if okg:
                    R.ob(rid, s.fn, s.site, True, "constant index %s under a dominating non-emptiness / length test of the same container" % c, s.loc())
                else:
                    R.ob(rid, s.fn, s.site, False, "[L2] constant index %s into a decoded container with no dominating non-emptiness test: "
                         "a decoded update can hold a client entry with no blocks (%s)" % (c, why), s.loc())
                continue
            if lay == "L2" and s.cls in ("explicit", "index") and key not in table:
                fed = _fed_from_parse_layer(Y, s, paths, layers)
                if not fed:
                    R.inventory(rid, s.fn, s.site, "L2 site: reachability depends on invariants of decoded block lists that this analysis "
                                "does not track (%s)" % why, s.loc())
                    continue
                why += " — its condition depends on a parameter that parse-layer callers fill from the wire: %s" % fed[:2]
        if key in table:
            ent = table[key]
            if isinstance(ent, dict):
                pok, pwhy = check_premise(Y, s.fn, ent["premise"])
                R.ob(rid, s.fn, s.site, pok, ("frozen discharge: %s [premise checked: %s]" % (ent["why"], pwhy)) if pok else
                     "[%s] %s — the bound argument `%s` rests on a premise that no longer holds: %s" % (lay, why, ent["why"], pwhy), s.loc())
            else:
                R.ob(rid, s.fn, s.site, True, "frozen discharge: " + ent, s.loc())
            continue
        R.ob(rid, s.fn, s.site, False, "[%s] %s" % (lay, why), s.loc())
    # recursion
    sccs = _sccs(graph)
    rec_table = {k: v for k, v in table.items() if k.startswith("C10.rec|")}
    names = mono["_names"]
    sccs = [set(names[k] for k in comp) for comp in sccs]
    uniq = []
    for c in sccs:
        if c not in uniq:
            uniq.append(c)
    sccs = uniq
    for comp in sccs:
        name = sorted(comp)[0]
        key = "C10.rec|%s|cycle(%d)" % (name, len(comp))
        if key in table:
            R.ob("C10.rec", name, "cycle(%d)" % len(comp), True, "frozen discharge: " + str(table[key]))
        else:
            R.ob("C10.rec", name, "cycle(%d)" % len(comp), False, "call-graph cycle in the cone: %s" % sorted(comp)[:6])
    R.floor("C10.rec", "cycles examined", len(sccs), 1)
    rule_total(R, ctx)
    rule_range(R, ctx)
    return {"cone_functions": len(paths), "cone_instances": mono["n_instances"], "cone_local_instances": mono["n_local"],
            "sites_by_class": dict(stats), "layers": {"L1": sum(1 for v in layers.values() if v == "L1"), "L2": sum(1 for v in layers.values() if v == "L2")},
            "unresolved_calls_in_cone": mono["unresolved"][:60], "virtual_calls": mono["virtual"], "truncated": mono["truncated"]}


def rule_total(R, ctx, rid="C10.total"):
    """re-encoding a decoded value to the v1 JSON columns is total: Any::to_json unwraps what `<Any as Serialize>::serialize`
    returns, so that impl must not originate an error of its own."""
    Y = ctx.yrs
    R.rule(rid, "R-PANIC infallible callee behind an unwrap: Any::to_json (EncoderV1::write_json: every embed, format value and "
                "JSON content of a re-encoded update) unwraps the result of `<Any as Serialize>::serialize` into an in-memory "
                "buffer; that impl returns only what the serializer's own calls return — it constructs no Err and calls no "
                "ser::Error::custom — so a value that decoded (v2 carries NaN/±Infinity) can always be written again")
    tj = Y.fn("yrs::any::Any::to_json")
    v = FnView(tj)
    un = [c for c in tj.calls_to("re:^std::result::Result::(unwrap|expect)$")]
    sers = [c for c in tj.calls() if re.search(r"Serialize>::serialize$", F.strip_generics(c.name))]
    R.floor(rid, "serialize call in Any::to_json", len(sers), 1)
    for c, site in ordinal_sites(un):
        t = simp_deep(v.arg(c, 0))
        R.ob(rid, tj, site, t[0] == "call" and re.search(r"Serialize>::serialize$", F.strip_generics(t[1])) is not None,
             "unwraps %s" % sshow(t), c.loc())
    impls = Y.find(r"^<yrs::any::Any as .*Serialize>::serialize$")
    R.floor(rid, "Serialize impl of Any", len(impls), 1)
    for f0 in impls:
        for f in Y.with_closures(f0):
            R.touch(f)
            bad = []
            for c in f.calls():
                nm = F.strip_generics(c.name)
                if re.search(r"ser::Error::custom$|::Error::custom$", nm):
                    bad.append("%s at %s" % (nm, c.loc()))
            for i, j, st in f.stmts():
                ag = st["rv"].get("agg") if isinstance(st["rv"], dict) else None
                if ag and str(ag.get("adt", "")).endswith("result::Result") and ag.get("variant") == "Err":
                    bad.append("constructs Err at line %s" % st.get("line"))
            R.ob(rid, f, "originates-no-error", not bad,
                 "every error this impl returns comes from a serializer call" if not bad else
                 "the impl originates an error of its own (%s); Any::to_json unwraps it" % "; ".join(bad))


RANGE_VALIDATION = {
    # parse-layer function -> number of wire-derived sums that must be range-checked with error propagation, and what the check protects
    "<std::ops::Range<u32> as yrs::updates::decoder::Decode>::decode": (1, "clock + len of a delete-set range stays within u32"),
    "<yrs::update::Update as yrs::updates::decoder::Decode>::decode": (1, "start clock + lengths of a client's decoded blocks stay within u32: every later `clock + len` on decoded blocks (encode_diff, merge_updates, integrate) is unchecked"),
    "<yrs::updates::decoder::DecoderV2 as yrs::updates::decoder::Decoder>::read_ds_clock": (1, "running cursor of the v2 delete set"),
    "<yrs::updates::decoder::DecoderV2 as yrs::updates::decoder::Decoder>::read_ds_len": (2, "running cursor of the v2 delete set"),
    "<yrs::id_map::IdMap<A> as yrs::updates::decoder::Decode>::decode": (2, "ranges of an attributed id map"),
    "yrs::updates::decoder::DecoderV2::read_buf": (1, "end offset of a length-prefixed slice"),
}


def rule_range(R, ctx, rid="C10.range"):
    """the range invariants the algebra layer relies on are established where the bytes are parsed."""
    Y = ctx.yrs
    R.rule(rid, "R-GUARD range invariants are established at the parse layer: the sums of wire values that later code adds unchecked "
                "— clock + len of decoded blocks and delete-set ranges, the running cursors of the v2 delete set, offsets of "
                "length-prefixed slices — are computed with checked_add / checked_sub whose failure is propagated as a decode error "
                "(the value reaches a `?`); a saturating or wrapping sum accepts the payload and the first re-encode, merge or "
                "apply of the decoded value overflows (the L2 arithmetic of C10.arith is inventory precisely because it leans on "
                "these checks)")
    for path, (want, what) in sorted(RANGE_VALIDATION.items()):
        fn = Y.fn(path)
        v = FnView(fn)
        cas = [c for c in fn.calls() if re.search(r"::checked_(add|sub|mul)$", F.strip_generics(c.name))]
        brs = [c for c in fn.calls() if re.search(r"Try>::branch$", F.strip_generics(c.name))]
        n = 0
        for ca in cas:
            if any(any(isinstance(x, tuple) and x and x[0] == "call" and len(x) > 3 and x[3] == ca.bb for x in walk(v.arg(b, 0, 12))) for b in brs):
                n += 1
        soft = [F.strip_generics(c.name).rsplit("::", 1)[-1] for c in fn.calls()
                if re.search(r"<u32>::(saturating|wrapping)_(add|sub)$", F.strip_generics(c.name))]
        R.ob(rid, fn, "validated", n >= want and not soft,
             "%d range-checked sum(s) with error propagation (%s)" % (n, what) if n >= want and not soft else
             "%d of %d range checks with error propagation%s — %s" % (n, want, "; uses %s" % soft if soft else "", what))


def _fed_from_parse_layer(Y, s, paths, layers):
    """for a panic site in a small L2 function: parameters mentioned by its guards that L1 callers fill with wire-derived values."""
    fn = s.fn
    if len(fn.blocks) > 40:
        return []
    v = FnView(fn)
    params = set()
    for l in v.lits:
        if l.bb == s.bb or fn.cfg().dominates(l.bb, s.bb):
            for x in walk(l.term):
                if x[0] == "param":
                    params.add(x[1])
    out = []
    for cp in Y.callers().get(fn.path, set()):
        if cp not in paths or layers.get(Y.root_of(Y.fns[cp]).path) != "L1":
            continue
        cf = Y.fns[cp]
        cv = FnView(cf)
        for cs in cf.calls_to(fn.path):
            for pi in params:
                if pi - 1 < len(cs.args) and tainted(cv.arg(cs, pi - 1, 12)):
                    out.append("%s passes %s" % (cp.rsplit("::", 1)[-1], sshow(cv.arg(cs, pi - 1, 8), 4)))
    return out


def _follow_capacity_param(Y, s, why, paths):
    pidx, txt = why
    callers = Y.callers().get(s.fn.path, set())
    bad = []
    seen = 0
    for cp in callers:
        if cp not in paths:
            continue
        cf = Y.fns[cp]
        cv = FnView(cf)
        for cs in cf.calls_to(s.fn.path):
            if pidx - 1 < len(cs.args):
                seen += 1
                t = cv.arg(cs, pidx - 1, 12)
                if tainted(t) and not term_has_call(t, "re:::min$"):
                    bad.append("%s passes %s" % (cp.rsplit("::", 2)[-2:], sshow(t, 4)))
    if bad:
        return False, "capacity parameter receives a wire-derived count: %s" % bad[:3]
    return True, "capacity parameter (%s) is fed from in-memory sizes by its %d caller site(s) in the cone" % (txt, seen)


def _sccs(graph):
    index = {}
    low = {}
    st = []
    on = set()
    out = []
    counter = [0]

    def strong(v):
        stack = [(v, iter(sorted(graph.get(v, ()), key=str)))]
        index[v] = low[v] = counter[0]
        counter[0] += 1
        st.append(v)
        on.add(v)
        while stack:
            node, it = stack[-1]
            adv = False
            for w in it:
                if w not in index:
                    index[w] = low[w] = counter[0]
                    counter[0] += 1
                    st.append(w)
                    on.add(w)
                    stack.append((w, iter(sorted(graph.get(w, ()), key=str))))
                    adv = True
                    break
                elif w in on:
                    low[node] = min(low[node], index[w])
            if not adv:
                stack.pop()
                if stack:
                    low[stack[-1][0]] = min(low[stack[-1][0]], low[node])
                if low[node] == index[node]:
                    comp = set()
                    while True:
                        w = st.pop()
                        on.discard(w)
                        comp.add(w)
                        if w == node:
                            break
                    if len(comp) > 1 or node in graph.get(node, ()):
                        out.append(comp)

    for v in sorted(graph, key=str):
        if v not in index:
            strong(v)
    return out
