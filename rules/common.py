"""Shared rule helpers (R-ORDER, R-PAIR, R-GUARD, R-PROV, R-OWN primitives)."""
import re

from ylib import facts as F
from ylib.facts import (AnchorLost, callee_match, guards_of, necessary, show, strip_generics,
                        switch_literals, term_has_call, term_has_field, walk)

# calls that are transparent for provenance purposes (smart-pointer / borrow plumbing)
TRANSPARENT = (
    "re:^<.* as std::ops::Deref>::deref$",
    "re:^<.* as std::ops::DerefMut>::deref_mut$",
    "re:^<.* as std::clone::Clone>::clone$",
    "re:^<.* as std::borrow::Borrow<.*>>::borrow$",
    "re:^<.* as std::borrow::BorrowMut<.*>>::borrow_mut$",
    "re:^<.* as std::convert::AsRef<.*>>::as_ref$",
    "re:^<.* as std::convert::AsMut<.*>>::as_mut$",
    "re:^std::option::Option::as_ref$",
    "re:^std::option::Option::as_mut$",
    "re:^std::option::Option::as_deref$",
    "re:^std::option::Option::as_deref_mut$",
    "re:^std::option::Option::unwrap$",
    "re:^std::option::Option::unwrap_unchecked$",
    "re:^<.* as std::convert::Into<.*>>::into$",
    "re:^<.* as std::convert::From<.*>>::from$",
    "re:^<.* as std::iter::IntoIterator>::into_iter$",
    "re:^std::ptr::NonNull::as_ref$",
    "re:^std::ptr::NonNull::as_mut$",
)


def simp(t):
    """strip transparent calls, refs, derefs, casts, Some-downcasts: the 'entity' a term denotes."""
    while isinstance(t, tuple):
        k = t[0]
        if k == "call" and len(t[2]) >= 1 and any(callee_match(t[1], p) for p in TRANSPARENT):
            t = t[2][0]
        elif k in ("ref", "deref"):
            t = t[1]
        elif k == "cast":
            t = t[2]
        elif k == "variant" and t[1] in ("Some", "Ok"):
            t = t[2]
        elif k == "field" and t[1].endswith(("Option::Some.0", "Result::Ok.0")):
            t = t[2]
        else:
            break
    return t


def simp_deep(t):
    """simp applied recursively."""
    t = simp(t)
    if not isinstance(t, tuple):
        return t
    k = t[0]
    if k == "call":
        return ("call", t[1], tuple(simp_deep(a) for a in t[2]), t[3])
    if k == "bin":
        return ("bin", t[1], simp_deep(t[2]), simp_deep(t[3]))
    if k in ("un",):
        return (k, t[1], simp_deep(t[2]))
    if k in ("field", "variant", "proj"):
        return (k, t[1], simp_deep(t[2]))
    if k in ("discr", "index"):
        return (k, simp_deep(t[1]))
    if k == "agg":
        return ("agg", t[1], tuple(simp_deep(a) for a in t[2]), t[3])
    if k == "phi":
        alts = []
        for a in t[1]:
            s = simp_deep(a)
            if s not in alts:
                alts.append(s)
        return alts[0] if len(alts) == 1 else ("phi", tuple(alts))
    return t


def sshow(t, depth=7):
    return show(simp_deep(t), depth)


def root_name(t):
    """name of the parameter / local a (simplified) term is rooted in, following fields."""
    t = simp(t)
    while isinstance(t, tuple):
        if t[0] in ("param", "local"):
            return t[2]
        if t[0] in ("field", "variant", "proj"):
            t = simp(t[2])
        elif t[0] in ("index", "discr"):
            t = simp(t[1])
        else:
            return None
    return None


def field_path(t):
    """list of field names (innermost last) from the root of a simplified term."""
    out = []
    t = simp(t)
    while isinstance(t, tuple) and t[0] in ("field", "variant", "proj", "index"):
        if t[0] == "field":
            out.append(t[1].rsplit(".", 1)[-1])
            t = simp(t[2])
        elif t[0] == "index":
            t = simp(t[1])
        else:
            t = simp(t[2])
    out.reverse()
    return out


def lit_call(l, pat, polarity=None):
    """literal tests the result of a call to `pat` (possibly through transparent wrappers)."""
    t = simp(l.term)
    if t[0] == "call" and callee_match(t[1], pat):
        return polarity is None or l.polarity == polarity
    return False


def lit_mentions_call(l, pat, polarity=None):
    if term_has_call(l.term, pat):
        return polarity is None or l.polarity == polarity
    return False


def lit_variant(l, field_suffix, variant):
    """literal tests that a place ending in field `field_suffix` is enum variant `variant`."""
    t = simp(l.term)
    if t[0] == "field" and t[1].endswith(field_suffix):
        return l.polarity == variant
    return False


class FnView:
    """a function plus cached literals/terms; closures of the function are separate views."""

    def __init__(self, fn):
        self.fn = fn
        self._lits = None
        self._terms = None

    @property
    def lits(self):
        if self._lits is None:
            self._lits = switch_literals(self.fn)
        return self._lits

    @property
    def terms(self):
        if self._terms is None:
            self._terms = F.Terms(self.fn)
        return self._terms

    def guards(self, bb):
        return guards_of(self.fn, bb, self.lits)

    def arg(self, cs, i, depth=24):
        return self.terms.operand(cs.args[i], depth)

    def guard_descs(self, bb):
        return [l.desc for l in self.guards(bb)]

    def has_guard(self, bb, pred):
        return any(pred(l) for l in self.guards(bb))

    def necessary_any(self, bb, pred):
        """the disjunction of all literals satisfying pred is necessary for bb."""
        ls = [l for l in self.lits if pred(l)]
        if not ls:
            return False
        return necessary(self.fn, bb, ls)


def must_fn(facts, path):
    return facts.fn(path)


def sites(fn, *pats):
    return fn.calls_to(*pats)


def require_calls(R, rule, fn, pats, minimum, what):
    cs = fn.calls_to(*pats)
    if len(cs) < minimum:
        R.ob(rule, fn, "anchor:" + what, False,
             "expected at least %d call(s) to %s in %s, found %d (anchor lost)" % (minimum, what, fn.path, len(cs)),
             nontrivial=False)
    return cs


def ordinal_sites(cs_list):
    """stable site descriptors: callee name + ordinal among equal callees in the function (no lines)."""
    seen = {}
    out = []
    for c in sorted(cs_list, key=lambda c: (c.bb,)):
        n = strip_generics(c.name)
        i = seen.get(n, 0)
        seen[n] = i + 1
        out.append((c, "%s#%d" % (n, i)))
    return out


def dominated_by_call(fn, site_bb, pats):
    """is there a call matching pats whose block dominates site_bb (and is not site_bb itself)?"""
    cfg = fn.cfg()
    for c in fn.calls_to(*pats):
        if c.bb != site_bb and cfg.dominates(c.bb, site_bb):
            return c
    return None


def writers_of_field(facts, field_suffix):
    """functions (root, non-closure) containing a write to a place ending in the given field."""
    out = {}
    for fn in facts.fns.values():
        if not fn.mir:
            continue
        ws = fn.field_writes(field_suffix)
        if ws:
            out.setdefault(facts.root_of(fn).path, []).extend((fn, w) for w in ws)
    return out


def callers_of(facts, *pats):
    """root functions containing a call matching pats -> list of call sites."""
    out = {}
    for fn in facts.fns.values():
        if not fn.mir:
            continue
        cs = fn.calls_to(*pats)
        if cs:
            out.setdefault(facts.root_of(fn).path, []).extend(cs)
    return out


def ownership_closed(facts, writers, owners):
    """R-OWN with ownership closure: a writer not in `owners` is accepted iff all of its callers
    are owners or accepted (private helper extracted from an owner). Returns list of offenders."""
    owners = set(owners)
    callers = facts.callers()
    accepted = set(owners)
    changed = True
    pending = [w for w in writers if w not in accepted]
    while changed:
        changed = False
        for w in list(pending):
            cs = {facts.root_of(facts.fns[c]).path for c in callers.get(w, set()) if c in facts.fns}
            cs.discard(w)
            if cs and cs <= accepted:
                accepted.add(w)
                pending.remove(w)
                changed = True
    return pending


# ------------------------------------------------------------------ R-SIB
from ylib import skel as SK  # noqa: E402

V12 = [(r"V[12]\b", "V#"), (r"_v[12]\b", "_v#"), (r"_v[12]_", "_v#_"), (r"v[12]$", "v#")]


def sibling(R, rule, facts, path_a, path_b, subs=V12, allowed=(), facts_b=None):
    """R-SIB: the HIR call skeletons of the two functions are equal modulo `subs`
    (regex renamings applied to both) and the explicitly allowed leaf differences."""
    fa = facts.fn(path_a)
    fb = (facts_b or facts).fn(path_b)
    if fa.hir is None or fb.hir is None:
        raise AnchorLost("no HIR for %s / %s" % (path_a, path_b))
    sa = SK.linearize(SK.rename(SK.skel(fa.hir["body"]), subs))
    sb = SK.linearize(SK.rename(SK.skel(fb.hir["body"]), subs))
    ds = SK.diff(sa, sb)
    allowed = set(allowed)
    bad = [d for d in ds if (d[1], d[2]) not in allowed]
    R.touch(fa)
    R.touch(fb)
    ncalls = len(SK.calls_in(sa))
    R.ob(rule, fa, "sibling:" + path_b, not bad,
         ("skeletons agree (%d calls compared)" % ncalls) if not bad else
         "skeletons differ: " + "; ".join("%s: %s vs %s" % d for d in bad[:4]),
         nontrivial=True)
    return not bad


def flat_defs(fn, op, terms=None, depth=24, _seen=None, chain=()):
    """leaf definitions of an operand, following copies / reborrows / transparent wrappers through locals
    with any number of definitions. Returns [(term, bbs)] where bbs is the tuple of blocks of the
    definitions passed on the way to (and including) the leaf definition."""
    terms = terms or F.Terms(fn)
    _seen = _seen if _seen is not None else set()
    pl = op.get("c", op.get("m")) if isinstance(op, dict) else None
    if pl is None:
        return [(terms.operand(op, depth), chain)]
    if isinstance(pl, dict):
        if all(p == "*" for p in pl["p"]):
            pl = pl["l"]
        else:
            return [(terms.place(pl, depth), chain)]
    l = pl
    if l in _seen:
        return []
    _seen.add(l)
    ds = fn.defs().get(l, [])
    if not ds:
        return [(terms.local(l, depth), chain)]
    out = []
    for d in ds:
        if d[0] == "stmt":
            rv = d[3]["rv"]
            src = None
            if "use" in rv and isinstance(rv["use"], dict) and ("c" in rv["use"] or "m" in rv["use"]):
                src = rv["use"]
            elif "ref" in rv or "rawptr" in rv:
                src = {"c": rv.get("ref", rv.get("rawptr"))}
            elif "cast" in rv and isinstance(rv["cast"], dict) and ("c" in rv["cast"] or "m" in rv["cast"]):
                src = rv["cast"]
            if src is not None:
                out.extend(flat_defs(fn, src, terms, depth, _seen, chain + (d[1],)))
                continue
            out.append((terms.rvalue(rv, depth), chain + (d[1],)))
        else:
            c = d[2]
            if any(callee_match(c.name, p) for p in TRANSPARENT) and c.args:
                out.extend(flat_defs(fn, c.args[0], terms, depth, _seen, chain + (c.bb,)))
            else:
                out.append((("call", c.name, tuple(terms.operand(a, depth) for a in c.args), c.bb), chain + (c.bb,)))
    return out


# ---------------------------------------------------------------- MIR value roots (identity of values through copies / borrows)
def mir_root(fn, op, limit=24):
    """follow single-definition copy / move / borrow / reborrow / tuple.0-of-checked-arithmetic chains of an operand (or place)
    back to the local that holds the value: returns ("local", l) | ("const", k) | ("place", json) ."""
    import json as _json
    if isinstance(op, dict) and "k" in op:
        return ("const", op["k"])
    pl = op.get("c", op.get("m")) if isinstance(op, dict) and ("c" in op or "m" in op) else op
    for _ in range(limit):
        if isinstance(pl, dict):
            if "l" not in pl:
                return ("place", _json.dumps(pl, sort_keys=True))
            if all(p == "*" for p in pl.get("p", [])):
                pl = pl["l"]
                continue
            return ("place", _json.dumps(pl, sort_keys=True))
        if not isinstance(pl, int):
            return ("place", str(pl))
        if 1 <= pl <= fn.argc():
            return ("local", pl)
        ds = fn.defs().get(pl, [])
        if len(ds) != 1 or ds[0][0] != "stmt":
            return ("local", pl)
        rv = ds[0][3]["rv"]
        if "use" in rv and isinstance(rv["use"], dict):
            if "k" in rv["use"]:
                return ("const", rv["use"]["k"])
            pl = rv["use"].get("c", rv["use"].get("m"))
            continue
        if "ref" in rv:
            pl = rv["ref"]
            continue
        return ("local", pl)
    return ("local", pl)


def mir_def(fn, op):
    """the single definition of the root of an operand: ("stmt", rv) | ("call", CallSite) | None."""
    r = mir_root(fn, op)
    if r[0] != "local":
        return None
    ds = fn.defs().get(r[1], [])
    if len(ds) != 1:
        return None
    d = ds[0]
    return ("stmt", d[3]["rv"]) if d[0] == "stmt" else ("call", d[2])


def mir_difference(fn, op):
    """if the operand is x - y (checked, plain, wrapping or saturating): the two operands."""
    d = mir_def(fn, op)
    if d is None:
        # tuple.0 of a checked operation
        r = mir_root(fn, op)
        if r[0] == "place":
            import json as _json
            try:
                pl = _json.loads(r[1])
            except Exception:
                return None
            if pl.get("p") == ["tuple.0"]:
                d = mir_def(fn, {"c": pl["l"]})
        if d is None:
            return None
    if d[0] == "stmt" and d[1].get("bin") in ("Sub", "SubWithOverflow", "SubUnchecked"):
        return d[1]["a"], d[1]["b"]
    if d[0] == "call" and re.search(r"::(wrapping_sub|saturating_sub)$", F.strip_generics(d[1].name)) and len(d[1].args) == 2:
        return d[1].args[0], d[1].args[1]
    return None


def mir_sum(fn, op):
    d = mir_def(fn, op)
    if d is None:
        r = mir_root(fn, op)
        if r[0] == "place":
            import json as _json
            try:
                pl = _json.loads(r[1])
            except Exception:
                return None
            if pl.get("p") == ["tuple.0"]:
                d = mir_def(fn, {"c": pl["l"]})
        if d is None:
            return None
    if d[0] == "stmt" and d[1].get("bin") in ("Add", "AddWithOverflow", "AddUnchecked"):
        return d[1]["a"], d[1]["b"]
    if d[0] == "call" and re.search(r"(::(wrapping_add|saturating_add)|Add(<.*>)?::add)$", d[1].name) and len(d[1].args) == 2:
        return d[1].args[0], d[1].args[1]
    return None


def mir_value_key(fn, op, depth=6):
    """value-numbering key of an integer operand: equal keys => equal values at any point where the leaf locals hold the same
    values (copies followed; arithmetic on single-definition temporaries expanded; calls and multi-definition locals are leaves)."""
    import json as _json
    r = mir_root(fn, op)
    if r[0] == "const":
        return ("k", r[1])
    if depth <= 0:
        return r
    if r[0] == "place":
        try:
            pl = _json.loads(r[1])
        except Exception:
            return r
        if pl.get("p") == ["tuple.0"] and isinstance(pl.get("l"), int):
            ds = fn.defs().get(pl["l"], [])
            if len(ds) == 1 and ds[0][0] == "stmt" and "bin" in ds[0][3]["rv"]:
                rv = ds[0][3]["rv"]
                return (rv["bin"].replace("WithOverflow", ""), mir_value_key(fn, rv["a"], depth - 1), mir_value_key(fn, rv["b"], depth - 1))
        return r
    if r[0] == "local":
        ds = fn.defs().get(r[1], [])
        if len(ds) == 1 and ds[0][0] == "stmt":
            rv = ds[0][3]["rv"]
            if "bin" in rv and not rv["bin"].endswith("WithOverflow"):
                return (rv["bin"], mir_value_key(fn, rv["a"], depth - 1), mir_value_key(fn, rv["b"], depth - 1))
            if "cast" in rv:
                return ("cast", rv.get("ty"), mir_value_key(fn, rv["cast"], depth - 1))
    return r


def mir_vkey(fn, op, depth=6):
    """value key of an operand with places normalised: the base local of a place is rooted through copies of references,
    `Index::index(x, i)` bases become ("idx", key(x), key(i)), deref / as_slice / inner / clone wrappers are looked through;
    equal keys => same value as long as the leaf locals are unchanged in between."""
    return _vnorm(fn, mir_value_key(fn, op, depth), depth)


def _vnorm(fn, k, depth):
    import json as _json
    if isinstance(k, tuple) and k and k[0] == "place":
        try:
            pl = _json.loads(k[1])
        except Exception:
            return k
        proj = tuple(str(x) for x in pl.get("p", []) if x != "*")
        return ("proj", _vbase(fn, pl.get("l"), depth), proj)
    if isinstance(k, tuple) and k and k[0] == "local":
        return _vbase(fn, k[1], depth)
    if isinstance(k, tuple):
        return tuple(_vnorm(fn, x, depth) if isinstance(x, tuple) else x for x in k)
    return k


def _vbase(fn, l, depth):
    if depth <= 0 or not isinstance(l, int):
        return ("local", l)
    r = mir_root(fn, {"c": l})
    if r[0] == "place":
        return _vnorm(fn, r, depth - 1)
    if r[0] == "local":
        ds = fn.defs().get(r[1], [])
        if len(ds) == 1 and ds[0][0] != "stmt":
            c = ds[0][2]
            if re.search(r"Index(Mut)?(<.*>)?>?::index(_mut)?$", c.name) and len(c.args) == 2:
                return ("idx", mir_vkey(fn, c.args[0], depth - 1), mir_vkey(fn, c.args[1], depth - 1))
            if re.search(r"Deref(Mut)?(<.*>)?>?::deref(_mut)?$|::as_slice$|::inner$|::inner_mut$|::clone$", c.name) and c.args:
                return mir_vkey(fn, c.args[0], depth - 1)
        return ("local", r[1])
    return r


def mir_strict_order_guards(fn, view, bb):
    """the strict orderings `x < y` that hold on every path to block bb: set of (key(x), key(y)) from the necessary branch
    literals whose switch operand is a single comparison (Lt/Gt taken, Ge/Le refused)."""
    out = set()
    for l in view.guards(bb):
        sw = fn.blocks[l.bb]["t"].get("switch")
        sd = mir_def(fn, sw) if sw else None
        while sd and sd[0] == "stmt" and sd[1].get("un") == "Not":   # the literal's polarity is already that of the un-negated term
            sd = mir_def(fn, sd[1].get("a", sd[1].get("x")))
        if not (sd and sd[0] == "stmt" and sd[1].get("bin") in ("Lt", "Gt", "Le", "Ge")) or not isinstance(l.polarity, bool):
            continue
        a, b = mir_vkey(fn, sd[1]["a"]), mir_vkey(fn, sd[1]["b"])
        op = sd[1]["bin"]
        if op == "Lt" and l.polarity:
            out.add((a, b))
        elif op == "Gt" and l.polarity:
            out.add((b, a))
        elif op == "Ge" and not l.polarity:
            out.add((a, b))
        elif op == "Le" and not l.polarity:
            out.add((b, a))
    return out


def answer_definitions(fn, depth=14):
    """the definitions of what a function answers: for Result-returning functions the payload of every `Ok(..)` that reaches
    the return place, otherwise the returned value itself. Each is returned as a simp_deep term; a top-level `phi` means the
    answer has more than one definition (a shortcut path next to the main one)."""
    v = FnView(fn)
    ret = v.terms.local(0, depth)
    oks = [t for t in walk(ret) if t[0] == "agg" and t[1].endswith("Result::Ok") and t[2]]
    if oks:
        return [simp_deep(t[2][0]) for t in oks]
    return [simp_deep(ret)]


def single_answer(R, rid, fn, must_call, what):
    """R-PROV: the function's answer has exactly one definition and it is computed by `must_call` (regex)."""
    defs = answer_definitions(fn)
    bad = [d for d in defs if d[0] == "phi" or not term_has_call(d, "re:" + must_call)]
    R.ob(rid, fn, "single-answer", bool(defs) and not bad,
         "%s on every path: %s" % (what, sshow(defs[0], 5)) if defs and not bad else
         "the answer has a definition that is not %s (%s): a shortcut next to the main path answers something else for some inputs" %
         (what, [sshow(d, 6) for d in bad][:2]))


ITEM_CONTENT_KINDS = ("Any", "Binary", "Deleted", "Doc", "JSON", "Embed", "Format", "String", "Type", "Move")


def kinds_reaching(Y, fn, bb, enum="yrs::block::ItemContent", place_hint="content", names=None):
    """the variants of `enum` under which block bb can execute: for every switch on the discriminant of a value of that enum
    that dominates bb, the variants whose edge reaches bb without passing through the switch again; intersected over the
    switches. Returns (set of variant names, number of switches used)."""
    names = names or [v["name"] if isinstance(v, dict) else (v[1] if isinstance(v, (list, tuple)) else v) for v in Y.enums.get(enum, [])] or list(ITEM_CONTENT_KINDS)
    allk = set(names)
    cfg = fn.cfg()
    by = {}
    for l in F.switch_literals(fn):
        if isinstance(l.polarity, bool):
            continue
        pol = l.polarity
        listed = [pol] if isinstance(pol, str) else list(pol[1]) if isinstance(pol, tuple) and len(pol) > 1 else []
        if not listed or not all(x in allk for x in listed):
            continue
        if place_hint and place_hint not in show(simp(l.term), 8).lower():
            continue
        by.setdefault(l.bb, []).append(l)
    result = set(allk)
    used = 0
    for S, lits in by.items():
        if S == bb or not cfg.dominates(S, bb):
            continue
        used += 1
        allowed = set()
        for l in lits:
            # reach bb from the edge target without going through S again
            seen, todo = set(), [l.to]
            hit = False
            while todo:
                x = todo.pop()
                if x in seen or x == S:
                    continue
                seen.add(x)
                if x == bb:
                    hit = True
                    break
                todo.extend(cfg.succ[x])
            if hit:
                if isinstance(l.polarity, str):
                    allowed.add(l.polarity)
                else:
                    allowed |= allk - set(l.polarity[1])
        result &= allowed
    return result, used



def item_key(fn, t, depth=14):
    """rendering of the term of an item handle that is stable across copies: reference / deref wrappers stripped, local names
    numbers and parameters wild — `φ(*.start | *.right)`, `*.left`, `*.right`; equal strings for the same access path, different
    ones for a neighbour (`*.left` vs `*`, `.left` vs `.right`). Deliberately coarse: it tells paths apart, not base variables."""
    argc = fn.argc()

    def strip(t):
        t = simp_deep(t)
        while isinstance(t, tuple) and t and t[0] in ("ref", "deref"):
            t = simp_deep(t[1] if len(t) == 2 else t[-1])
        return t

    def wild(t):
        if isinstance(t, tuple):
            if t and t[0] in ("local", "param"):
                return ("local", 0, "*")   # a parameter copied into a local is rendered either way: bases are wild, paths are kept
            return tuple(wild(x) for x in t)
        return t
    return show(wild(strip(t)), depth)


def tested_item_keys(fn, v, bb, is_vis):
    """item_key of every argument of the calls behind the necessary liveness literals of block bb."""
    out = set()
    for l in v.guards(bb):
        if is_vis(l):
            t = simp(l.term)
            if t[0] == "call":
                for a in t[2]:
                    out.add(item_key(fn, a))
    return out


def content_owner_keys(fn, terms):
    """item_key of every item whose `.content` is read inside the given terms."""
    out = set()
    for t in terms:
        for x in walk(t):
            if x[0] == "field" and x[1].endswith("Item.content"):
                out.add(item_key(fn, x[2]))
    return out


def loop_blocks(fn, header):
    """natural loop of `header`: the header plus every block that reaches one of its back edges (a predecessor the header
    dominates) without passing through the header. Inner loops are included, enclosing loops are not."""
    cfg = fn.cfg()
    body = {header}
    todo = [u for u in cfg.pred[header] if cfg.dominates(header, u)]
    while todo:
        x = todo.pop()
        if x in body:
            continue
        body.add(x)
        todo.extend(cfg.pred[x])
    return body


def loop_exit_edges(fn, header):
    """edges that leave the loop through `header` on the normal CFG: [(from, to)]."""
    cfg = fn.cfg()
    body = loop_blocks(fn, header)
    return [(u, w) for u in sorted(body) for w in cfg.succ[u] if w not in body]
