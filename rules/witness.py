"""W-CF compile-fail witnesses (rustdoc `compile_fail,E0xxx` + compiling twins), thorough tier only."""
import os
import re
import shutil
import subprocess

VERIF = os.path.dirname(os.path.dirname(os.path.abspath(__file__)))


def run_witnesses(ctx):
    src = os.path.join(VERIF, "witness")
    run = os.path.join(VERIF, ".cache", "witness_run")
    shutil.rmtree(run, ignore_errors=True)
    os.makedirs(os.path.join(run, "src"))
    os.makedirs(os.path.join(run, ".cargo"))
    toml = open(os.path.join(src, "Cargo.toml")).read().replace("/repo/yrs", os.path.join(ctx.repo, "yrs"))
    open(os.path.join(run, "Cargo.toml"), "w").write(toml)
    shutil.copy(os.path.join(src, "src", "lib.rs"), os.path.join(run, "src", "lib.rs"))
    shutil.copy(os.path.join(ctx.repo, "Cargo.lock"), os.path.join(run, "Cargo.lock"))
    open(os.path.join(run, ".cargo", "config.toml"), "w").write("[net]\noffline = true\n")
    env = dict(os.environ, CARGO_NET_OFFLINE="true", CARGO_TARGET_DIR=os.path.join(VERIF, ".cache", "witness_target"))
    p = subprocess.run(["cargo", "+nightly", "test", "--doc", "--offline"], cwd=run, env=env, stdout=subprocess.PIPE, stderr=subprocess.STDOUT)
    out = p.stdout.decode(errors="replace")
    res = []
    for m in re.finditer(r"^test src/lib\.rs - (\w+) \(line (\d+)\)( - compile fail)? \.\.\. (\w+)", out, flags=re.M):
        res.append((m.group(1), int(m.group(2)), bool(m.group(3)), m.group(4) == "ok"))
    return p.returncode, res, out


def c11_c(R, ctx):
    R.rule("C11.c", "W-CF compile-fail witnesses: a user program in which a type observer, a deep observer or an update observer "
                    "mutates a shared type through the &TransactionMut it is handed fails to type-check with E0308, while the twin that "
                    "only reads compiles (rustdoc compile_fail with error code, run under cargo +nightly test --doc against /repo's yrs)")
    rc, res, out = run_witnesses(ctx)
    if not res:
        R.ob("C11.c", "ywitness", "doctests", False, "no doctest result parsed (cargo exit %d): %s" % (rc, out[-300:]))
        return
    names = {}
    for name, line, cf, ok in res:
        names.setdefault(name, []).append((cf, ok))
    for name, items in sorted(names.items()):
        fails = [ok for cf, ok in items if cf]
        twins = [ok for cf, ok in items if not cf]
        R.ob("C11.c", "ywitness::" + name, "witness", bool(fails) and all(fails) and bool(twins) and all(twins),
             "violating program rejected with the expected error code: %s ; compiling twin accepted: %s" % (fails, twins))
    R.floor("C11.c", "witness pairs", len(names), 4)
