"""C05 — map entries are causal LWW registers: structural clauses."""
from ylib import facts as F
from ylib.formula import Formulas, truth_check, fshow
from .common import *  # noqa

TXN = "yrs::transaction::TransactionMut"


def rule_a(R, ctx):
    Y = ctx.yrs
    R.rule("C05.a", "R-PROV new entry goes right of the current one: every TransactionMut::create_item call with parent_sub = Some(key) "
                    "receives an ItemPosition whose left is branch.map.get(key) (cloned) for the same key and whose right is None")
    n = 0
    for root, css in sorted(callers_of(Y, TXN + "::create_item").items()):
        for cs, site in ordinal_sites(css):
            fn = cs.fn
            v = FnView(fn)
            psub = simp_deep(v.arg(cs, 3))
            if psub[0] == "agg" and psub[1].endswith("Option::None"):
                continue
            n += 1
            if not (psub[0] == "agg" and psub[1].endswith("Option::Some")):
                R.ob("C05.a", fn, site, False, "parent_sub argument %s is neither Some(_) nor None: cannot be classified" % show(psub), cs.loc())
                continue
            key = simp_deep(psub[2][0])
            pos = simp_deep(v.arg(cs, 1))
            aggs = [t for t in walk(pos) if t[0] == "agg" and t[1] == "yrs::block::ItemPosition"]
            if not aggs:
                R.ob("C05.a", fn, site, False, "ItemPosition is not built locally: %s" % show(pos, 6), cs.loc())
                continue
            a = aggs[0]
            vals = dict(zip(a[3], a[2]))
            left = vals["left"]
            right = simp_deep(vals["right"])
            gets = [t for t in walk(left) if t[0] == "call" and callee_match(t[1], "std::collections::HashMap::get")]
            ok_left = False
            why = "left = %s" % sshow(left, 7)
            for g in gets:
                recv = simp_deep(g[2][0])
                k = simp_deep(g[2][1])
                if field_path(recv)[-1:] == ["map"] and k == key:
                    ok_left = True
            ok_right = right[0] == "agg" and right[1].endswith("Option::None")
            R.ob("C05.a", fn, site + ":left", ok_left, why + " ; key = %s" % show(key, 5), cs.loc())
            R.ob("C05.a", fn, site + ":right", ok_right, "right = %s" % show(right, 5), cs.loc())
    R.floor("C05.a", "create_item sites with a map key", n, 2)


def rule_b(R, ctx):
    Y = ctx.yrs
    fn = Y.fn(TXN + "::integrate_item")
    v = FnView(fn)
    R.rule("C05.b", "R-GUARD+R-PAIR winner bookkeeping in integrate_item: parent.map.insert(key, item_ptr) happens only when the new "
                    "item has no right neighbour and has a parent_sub; the overridden left entry is deleted in the same region "
                    "(guarded by item.left is Some); the trailing delete(item_ptr) is guarded by Item::needs_deletion, whose result is "
                    "exactly `parent item deleted || (parent_sub.is_some() && right.is_some())`")
    ins = [c for c in fn.calls_to("std::collections::HashMap::insert") if field_path(simp_deep(v.arg(c, 0)))[-1:] == ["map"]]
    R.floor("C05.b", "parent.map.insert in integrate_item", len(ins), 1)
    for cs, site in ordinal_sites(ins):
        g = v.guards(cs.bb)
        no_right = any(simp(l.term)[0] == "field" and simp(l.term)[1].endswith("Item.right") and l.polarity == "None" for l in g)
        has_sub = any(term_has_field(l.term, "Item.parent_sub") and l.polarity == "Some" for l in g)
        from .c04 import _is_item_ptr
        val_ok = _is_item_ptr(v.arg(cs, 2))
        R.ob("C05.b", fn, site, no_right and has_sub and val_ok,
             "map.insert(_, %s) under guards %s" % (sshow(v.arg(cs, 2), 4), [l.desc for l in g]), cs.loc())
        # paired delete(left) in the same region
        dels = fn.calls_to(TXN + "::delete")
        paired = []
        for d in dels:
            arg = simp_deep(v.arg(d, 1))
            if field_path(arg)[-1:] == ["left"] and fn.cfg().dominates(cs.bb, d.bb):
                gd = v.guards(d.bb)
                extra = [l for l in gd if l.desc not in {x.desc for x in g}]
                only_left_some = all((term_has_field(l.term, "Item.left") and l.polarity == "Some") or
                                     lit_mentions_call(l, "yrs::block::ItemFlags::is_linked") for l in extra)
                if only_left_some and any(term_has_field(l.term, "Item.left") and l.polarity == "Some" for l in extra):
                    paired.append(d)
        R.ob("C05.b", fn, site + ":delete-overridden", bool(paired),
             "delete(item.left) dominated by the map insert and guarded only by `item.left is Some`: %d site(s)" % len(paired), cs.loc())
    # trailing delete(item_ptr)
    tail = [d for d in fn.calls_to(TXN + "::delete") if _is_item_ptr_arg(v, d)]
    R.floor("C05.b", "delete(item_ptr) in integrate_item", len(tail), 1)
    for cs, site in ordinal_sites(tail):
        ok = v.has_guard(cs.bb, lambda l: lit_call(l, "yrs::block::Item::needs_deletion", True))
        R.ob("C05.b", fn, site + ":needs_deletion", ok, "guards: %s" % v.guard_descs(cs.bb), cs.loc())
    nd = Y.fn("yrs::block::Item::needs_deletion")
    fm = Formulas(nd, simp_deep)
    f = fm.local_formula(0)

    def classify(key, term):
        if term is None:
            return None
        if term[0] == "call" and callee_match(term[1], "yrs::block::Item::is_deleted"):
            return "PD"
        if term[0] == "call" and callee_match(term[1], "std::option::Option::is_some"):
            p = field_path(term[2][0])
            if p[-1:] == ["parent_sub"]:
                return "SUB"
            if p[-1:] == ["right"]:
                return "RIGHT"
        if key.endswith(" is Some") and term_has_field(term, "Branch.item"):
            return "PI"
        return None

    def required(e):
        if not all(k in e for k in ("PD", "SUB", "RIGHT", "PI")):
            return None
        return (e["PI"] and e["PD"]) or (e["SUB"] and e["RIGHT"])

    ok, cex, keys = truth_check(f, classify, required)
    R.ob("C05.b", nd, "formula", ok and len(keys) == 4, "needs_deletion = %s%s" % (fshow(f), "" if ok else " ; counterexample %s" % (cex,)))


def _is_item_ptr_arg(v, d):
    from .c04 import _is_item_ptr
    return _is_item_ptr(v.arg(d, 1))


def rule_c(R, ctx):
    Y = ctx.yrs
    fn = Y.fn(TXN + "::delete")
    v = FnView(fn)
    R.rule("C05.c", "R-PAIR subtree deletion: when TransactionMut::delete removes an item holding a nested type, both the child list "
                    "(start chain, live items) and every map entry (map.values()) are pushed to the recursion list, and every "
                    "element of that list is passed to delete()")
    pushes = fn.calls_to("std::vec::Vec::push")
    src_start = src_map = False
    rec_local = None
    for cs in pushes:
        recv = v.arg(cs, 0)
        val = v.arg(cs, 1)
        if field_path(simp_deep(recv))[-1:] == ["merge_blocks"]:
            continue
        in_type_arm = v.has_guard(cs.bb, lambda l: term_has_field(l.term, "Item.content") and l.polarity == "Type")
        if not in_type_arm:
            continue
        if term_has_field(val, "Branch.start") or term_has_field(val, "Item.right"):
            src_start = True
            rec_local = fn.copy_root(cs.args[0])
        if term_has_call(val, "std::collections::HashMap::values") and term_has_field(val, "Branch.map"):
            src_map = True
    R.ob("C05.c", fn, "collect:children", src_start, "live children of the nested type are queued for deletion: %s" % src_start)
    R.ob("C05.c", fn, "collect:map-entries", src_map, "map entries of the nested type are queued for deletion: %s" % src_map)
    rec = [c for c in fn.calls_to(TXN + "::delete")]
    ok = False
    for cs in rec:
        a = v.arg(cs, 1)
        if term_has_call(a, "re:^<\\[T\\]>::iter$") or term_has_call(a, "re:slice::Iter<.*> as std::iter::Iterator>::next$") or \
                term_has_call(a, "re:Iterator>::next$"):
            # the loop is not conditional on anything but the iterator
            g = [l for l in v.guards(cs.bb)]
            ok = all(term_has_call(l.term, "re:Iterator>::next$") for l in g)
    R.ob("C05.c", fn, "recurse:all", ok, "every queued element is passed to delete() unconditionally: %s" % ok)


def rule_d(R, ctx):
    Y = ctx.yrs
    R.rule("C05.d", "R-PAIR map pointer fix-up: the functions that drop or split an item which may be the current entry of a map key "
                    "(ClientBlockList::squash_left, squash_left_range_compaction, ItemPtr::splice) rewrite Branch.map[key] in the same "
                    "function, guarded by the entry actually pointing at the affected item")
    for path in ("yrs::block_store::ClientBlockList::squash_left", "yrs::block_store::ClientBlockList::squash_left_range_compaction"):
        fn = Y.fn(path)
        v = FnView(fn)
        gm = [c for c in fn.calls_to("std::collections::HashMap::get_mut") if field_path(simp_deep(v.arg(c, 0)))[-1:] == ["map"]]
        R.floor("C05.d", "map.get_mut in %s" % path.rsplit("::", 1)[-1], len(gm), 1)
        fixed = False
        why = "no write through the map entry"
        for i, j, s in fn.stmts():
            dst = s["dst"]
            if isinstance(dst, dict) and dst["p"] == ["*"]:
                base = v.terms.local(dst["l"], 10)
                if term_has_call(base, "std::collections::HashMap::get_mut"):
                    val = v.terms.rvalue(s["rv"], 10)
                    g = v.guards(i)
                    eq = any(lit_mentions_call(l, "re:PartialEq(<.*>)?>::eq$", True) for l in g)
                    keyed = any(term_has_field(l.term, "Item.parent_sub") for l in g)
                    from_left = "left" in sshow(val, 8)
                    fixed = eq and keyed
                    why = "*entry = %s under %s" % (sshow(val, 6), [l.desc for l in g][-3:])
        R.ob("C05.d", fn, "map-fixup", fixed, why)
        drains = [c for c in fn.calls_to("std::vec::Vec::drain") if field_path(simp_deep(v.arg(c, 0)))[-1:] == ["inner"]]
        R.floor("C05.d", "inner.drain in %s" % path.rsplit("::", 1)[-1], len(drains), 1)
    sp = Y.fn("yrs::block::ItemPtr::splice")
    sv = FnView(sp)
    ins = [c for c in sp.calls_to("std::collections::HashMap::insert") if field_path(simp_deep(sv.arg(c, 0)))[-1:] == ["map"]]
    R.floor("C05.d", "map.insert in ItemPtr::splice", len(ins), 1)
    for cs, site in ordinal_sites(ins):
        g = sv.guards(cs.bb)
        ok = any(term_has_field(l.term, "Item.parent_sub") and l.polarity == "Some" for l in g) and \
            any(lit_call(l, "std::option::Option::is_none", True) and term_has_field(l.term, "Item.right") for l in g)
        R.ob("C05.d", sp, site, ok, "guards: %s" % [l.desc for l in g], cs.loc())


def overwritten_before(fn, v, test_bb, field_suffix, owner_root):
    """sites that overwrite `<owner>.<field>` (plain write, Option::replace/insert/take on it) in a block that dominates test_bb."""
    cfg = fn.cfg()
    out = []
    for i, j, s in fn.field_writes(field_suffix):
        dst = s["dst"]
        base = simp_deep(v.terms.place({"l": dst["l"], "p": dst["p"][:-1]} if len(dst["p"]) > 1 else dst["l"]))
        if root_name(base) == owner_root and not term_has_field(base, "Item.left") and not term_has_field(base, "Item.right") \
                and i != test_bb and cfg.dominates(i, test_bb):
            out.append("%s:%s" % (fn.file, s["line"]))
    for cs in fn.calls_to("re:^std::option::Option::(replace|insert|get_or_insert|get_or_insert_with|take)$", "re:^std::mem::(replace|take|swap)$"):
        a0 = simp_deep(v.arg(cs, 0))
        fp = field_path(a0)
        if fp[-1:] == [field_suffix.rsplit(".", 1)[-1]] and root_name(a0) == owner_root and len(fp) == 1 and cs.bb != test_bb and cfg.dominates(cs.bb, test_bb):
            out.append(cs.loc())
    return out


def rule_e(R, ctx, rid="C05.e"):
    Y = ctx.yrs
    R.rule(rid, "R-ORDER the 'is this the right-most entry' tests read the neighbour pointer before it is overwritten: in "
                    "ItemPtr::splice no write / Option::replace of self.right dominates the `item.right.is_none()` test that guards the "
                    "map pointer fix-up (otherwise the test is vacuously false and Branch.map[key] keeps pointing at the left half); "
                    "in integrate_item the `item.right` test guarding parent.map.insert follows the final assignment of item.right")
    sp = Y.fn("yrs::block::ItemPtr::splice")
    sv = FnView(sp)
    tests = [l for l in sv.lits if lit_call(l, "std::option::Option::is_none") and term_has_field(l.term, "Item.right")]
    R.floor(rid, "item.right.is_none() test in splice", len(tests), 1)
    for k, l in enumerate(tests[:1]):
        # block where is_none is called
        call_bb = simp(l.term)[3]
        owner = root_name(simp(l.term)[2][0])
        ow = overwritten_before(sp, sv, call_bb, "Item.right", owner)
        R.ob(rid, sp, "right-read-before-write#%d" % k, not ow,
             "self.right is overwritten at %s before the right-most test reads it" % ow if ow else "the test reads the old right neighbour")


def check(ctx, R):
    R.run("C05.e", rule_e, ctx)
    from . import c02
    R.run("C05.f", lambda R, c: c02.rule_g(R, c, "C05.f"), ctx)
    from . import preds
    R.run("C05.p", lambda R, c: preds.rule(R, c, "C05.p", ["is_missing", "map_contains_key"]), ctx)
    from . import shared as _sh
    R.run("C05.g", lambda R, c: _sh.unapplied_within_range(R, c, "C05.g"), ctx)
    R.run("C05.a", rule_a, ctx)
    R.run("C05.b", rule_b, ctx)
    R.run("C05.c", rule_c, ctx)
    R.run("C05.d", rule_d, ctx)
    return {}
