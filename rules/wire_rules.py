"""R-WIRE rule instances shared by C06/C08/C13/C14/C18/C20: the same engine as C09, restricted to the pairs the property anchors."""
from ylib import wire as W
from . import c09


def _wire(R, ctx, rid, names):
    wc = c09.rule_wire(R, ctx, rid, only=set(names))
    return wc


def _counts(R, ctx, wc, rid, fns):
    sub = type(R)(R.prop, R.tier)
    c09.rule_counts(sub, ctx, wc, rid)
    R.rules.update(sub.rules)
    n = 0
    for o in sub.obs:
        if o.fn in fns:
            R.obs.append(o)
            n += 1
    R.floor(rid, "count obligations for %s" % sorted(f.rsplit("::", 1)[-1] for f in fns), n, len(fns))


def c06_a(R, ctx):
    wc = _wire(R, ctx, "C06.a", ["Update", "Block"])
    _counts(R, ctx, wc, "C06.a.count", {"yrs::store::Store::write_blocks_from", "yrs::store::Store::write_blocks_to",
                                         "yrs::update::Update::encode_diff", "<yrs::update::Update as yrs::updates::decoder::Decode>::decode"})


def c08_c(R, ctx):
    wc = _wire(R, ctx, "C08.c", ["Update"])
    _counts(R, ctx, wc, "C08.c.count", {"yrs::update::Update::encode_diff", "<yrs::update::Update as yrs::updates::decoder::Decode>::decode"})


def c13_b(R, ctx):
    from . import c09_flags
    _wire(R, ctx, "C13.b", ["Block"])
    c09_flags.rule_flags(R, ctx, rid="C13.b.flags", only=("yrs::slice::ItemSlice::encode",))


def c13_d(R, ctx):
    wc = _wire(R, ctx, "C13.d", ["Snapshot", "Update"])
    _counts(R, ctx, wc, "C13.d.count", {"yrs::store::Store::write_blocks_to"})


def c14_a(R, ctx):
    _wire(R, ctx, "C14.a.wire", ["StickyIndex", "IndexScope", "Assoc"])


def c18_c(R, ctx):
    _wire(R, ctx, "C18.c", ["Message", "SyncMessage", "AwarenessUpdate"])


def c20_d(R, ctx):
    _wire(R, ctx, "C20.d", ["TypeRef"])
