"""R-WIRE rule instances shared by C06/C08/C09/C13/C14/C18/C20 (filled in by the wire engine)."""


def c06_a(R, ctx):
    pass


def c08_c(R, ctx):
    pass


def c13_b(R, ctx):
    pass


def c13_d(R, ctx):
    pass


def c14_a(R, ctx):
    pass


def c18_c(R, ctx):
    pass


def c20_d(R, ctx):
    pass
