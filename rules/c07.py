"""C07 — update events are a complete, minimal replication log: structural clauses."""
from ylib import facts as F
from ylib.formula import Formulas, truth_check, fshow
from .common import *  # noqa

TXN = "yrs::transaction::TransactionMut"


def same_item(a, b):
    """two simplified terms denote the same item (same root local / parameter)."""
    ra, rb = root_name(a), root_name(b)
    return ra is not None and ra == rb


def rule_a(R, ctx):
    Y = ctx.yrs
    R.rule("C07.a", "R-PAIR every state change is recorded in the transaction's sets: every Item::mark_as_deleted site is paired, in "
                    "the same control region, with delete_set.insert(<that item's id>, <its len>); every BlockStore::push of an "
                    "Item/GC block from integration code is paired with insert_set.insert of the same range")
    n = 0
    for root, css in sorted(callers_of(Y, "yrs::block::Item::mark_as_deleted").items()):
        for cs, site in ordinal_sites(css):
            fn = cs.fn
            v = FnView(fn)
            n += 1
            item = simp_deep(v.arg(cs, 0))
            ins = [c for c in fn.calls_to("yrs::id_set::IdSet::insert") if field_path(simp_deep(v.arg(c, 0)))[-1:] == ["delete_set"]]
            ok = False
            why = "no delete_set.insert in the same region"
            cfg = fn.cfg()
            for c in ins:
                same_region = (cfg.dominates(cs.bb, c.bb) and cfg.postdominates(c.bb, cs.bb)) or \
                              (cfg.dominates(c.bb, cs.bb) and cfg.postdominates(cs.bb, c.bb)) or c.bb == cs.bb
                idt = simp_deep(v.arg(c, 1))
                id_ok = (field_path(idt)[-1:] == ["id"] and same_item(idt, item)) or \
                        (idt[0] == "call" and same_item(idt[2][0], item))
                if same_region and id_ok:
                    ok = True
                    why = "delete_set.insert(%s, %s) in the same region" % (show(idt, 4), sshow(v.arg(c, 2), 4))
            R.ob("C07.a", fn, site, ok, why, cs.loc())
    R.floor("C07.a", "mark_as_deleted call sites", n, 2)
    for path, what in ((TXN + "::integrate_item", "Item"), (TXN + "::integrate_gc", "GC")):
        fn = Y.fn(path)
        v = FnView(fn)
        pushes = fn.calls_to("yrs::block_store::BlockStore::push")
        R.floor("C07.a", "BlockStore::push in " + path, len(pushes), 1)
        for cs, site in ordinal_sites(pushes):
            ins = [c for c in fn.calls_to("yrs::id_set::IdSet::insert") if field_path(simp_deep(v.arg(c, 0)))[-1:] == ["insert_set"]]
            cfg = fn.cfg()
            ok = any(cfg.dominates(c.bb, cs.bb) and cfg.postdominates(cs.bb, c.bb) for c in ins)
            R.ob("C07.a", fn, site, ok, "insert_set.insert paired with the push: %s" % ok, cs.loc())
            if what == "GC":
                dins = [c for c in fn.calls_to("yrs::id_set::IdSet::insert") if field_path(simp_deep(v.arg(c, 0)))[-1:] == ["delete_set"]]
                ok2 = any(cfg.dominates(c.bb, cs.bb) for c in dins)
                R.ob("C07.a", fn, site + ":delete_set", ok2, "a GC range is also recorded in delete_set: %s" % ok2, cs.loc())
    # no other code pushes Item/GC blocks into the store
    owners = {TXN + "::integrate_item", TXN + "::integrate_gc", TXN + "::integrate_skip"}
    pushers = set(callers_of(Y, "yrs::block_store::BlockStore::push"))
    for p in sorted(pushers):
        R.ob("C07.a", Y.fns[p], "pusher", p in owners, "calls BlockStore::push" + ("" if p in owners else " outside the integration functions"))


def rule_b(R, ctx):
    Y = ctx.yrs
    R.rule("C07.b", "R-SIB: emit_update_v1/_v2, UpdateEvent::new_v1/_v2 and encode_update_v1/_v2 have equal skeletons")
    sibling(R, "C07.b", Y, "yrs::store::StoreEvents::emit_update_v1", "yrs::store::StoreEvents::emit_update_v2")
    sibling(R, "C07.b", Y, "yrs::event::UpdateEvent::new_v1", "yrs::event::UpdateEvent::new_v2")
    sibling(R, "C07.b", Y, TXN + "::encode_update_v1", TXN + "::encode_update_v2")
    eu = Y.fn(TXN + "::encode_update")
    v = FnView(eu)
    wb = eu.calls_to("yrs::store::Store::write_blocks_from")
    ok = len(wb) == 1 and term_has_call(v.arg(wb[0], 1), TXN + "::before_state")
    R.ob("C07.b", eu, "blocks-from-before-state", ok, "write_blocks_from(%s)" % (sshow(v.arg(wb[0], 1)) if wb else "?"))
    enc = [c for c in eu.calls_to("re:Encode>::encode$") if field_path(simp_deep(v.arg(c, 0)))[-1:] == ["delete_set"]]
    ok = bool(enc) and bool(wb) and eu.cfg().dominates(wb[0].bb, enc[0].bb)
    R.ob("C07.b", eu, "then-delete-set", ok, "self.delete_set.encode(encoder) after the blocks: %s" % ok)
    # ... and nothing else: the transaction's delete set ITSELF is written, whole, on every path — a set derived from it
    # (filtered, diffed against the insert set, ...) omits deletions a follower has no other way to learn
    all_enc = [c for c in eu.calls() if re.search(r"Encode>?::encode$", c.name) and c not in wb]
    derived = [c for c in all_enc if c not in enc]
    cond = [c for c in enc if v.guards(c.bb)]
    R.ob("C07.b", eu, "delete-set-whole", len(enc) == 1 and not derived and not cond,
         "exactly one delete-set write, of TransactionMut.delete_set itself, unconditional" if len(enc) == 1 and not derived and not cond else
         "the delete set written is not always the transaction's own: %d write(s) of self.delete_set (%d conditional), %d of something else (%s)" %
         (len(enc), len(cond), len(derived), [sshow(simp_deep(v.arg(c, 0, 10)), 5) for c in derived][:2]))


def rule_c(R, ctx):
    Y = ctx.yrs
    R.rule("C07.c", "R-GUARD emission condition: in StoreEvents::emit_update_v1/_v2 the observer trigger is reached iff "
                    "has_subscribers() && (!txn.delete_set.is_empty() || txn.after_state() != txn.before_state())")
    for ver in ("v1", "v2"):
        fn = Y.fn("yrs::store::StoreEvents::emit_update_" + ver)
        v = FnView(fn)
        trig = fn.calls_to("re:^yrs::observer::Observer<.*>::trigger$", "re:::trigger$")
        R.floor("C07.c", "trigger in emit_update_" + ver, len(trig), 1)
        fm = Formulas(fn, simp_deep)

        def classify(key, term):
            if term is None or term[0] != "call":
                return None
            if term[1].endswith("::has_subscribers"):
                return "SUB"
            if term[1].endswith("::is_empty") and term_has_field(term, "TransactionMut.delete_set"):
                return "DSE"
            if term[1].endswith("::ne") and term_has_call(term, TXN + "::after_state") and term_has_call(term, TXN + "::before_state"):
                return "NE"
            if term[1].endswith("::eq") and term_has_call(term, TXN + "::after_state") and term_has_call(term, TXN + "::before_state"):
                return "!NE"
            return None

        for cs, site in ordinal_sites(trig):
            f = fm.reach(cs.bb)
            ok, cex, keys = truth_check(f, classify, lambda e: (e["SUB"] and ((not e["DSE"]) or e["NE"]))
                                        if all(k in e for k in ("SUB", "DSE", "NE")) else None)
            R.ob("C07.c", fn, site, ok and len(keys) == 3, "trigger reached iff %s%s" % (fshow(f), "" if ok else " ; counterexample %s" % (cex,)), cs.loc())


def rule_d(R, ctx):
    Y = ctx.yrs
    fn = Y.fn(TXN + "::commit")
    v = FnView(fn)
    cfg = fn.cfg()
    R.rule("C07.d", "R-ORDER commit ordering and once-only: in TransactionMut::commit the `committed` latch (early return, then set) "
                    "dominates everything; call_observers ≺ cleanup_fmt ≺ GC/squash ≺ emit_update_v1, emit_update_v2; each emit "
                    "appears once, outside any loop")
    e1 = fn.calls_to("yrs::store::StoreEvents::emit_update_v1")
    e2 = fn.calls_to("yrs::store::StoreEvents::emit_update_v2")
    R.ob("C07.d", fn, "emit-once", len(e1) == 1 and len(e2) == 1, "emit_update_v1 ×%d, emit_update_v2 ×%d" % (len(e1), len(e2)))
    if len(e1) != 1 or len(e2) != 1:
        return
    for cs in e1 + e2:
        R.ob("C07.d", fn, "not-in-loop:" + cs.name.rsplit("::", 1)[-1], not cfg.in_loop(cs.bb), "emit is not on a cycle of the CFG")
    R.ob("C07.d", fn, "same-region", cfg.dominates(e1[0].bb, e2[0].bb) and cfg.postdominates(e2[0].bb, e1[0].bb),
         "v1 and v2 are emitted together (v2 post-dominates v1)")
    # latch
    latch = [l for l in v.lits if simp(l.term)[0] == "field" and simp(l.term)[1].endswith("TransactionMut.committed")]
    ok = bool(latch) and latch[0].bb == 0 or (bool(latch) and cfg.dominates(latch[0].bb, e1[0].bb))
    guarded = v.has_guard(e1[0].bb, lambda l: simp(l.term)[0] == "field" and simp(l.term)[1].endswith("TransactionMut.committed") and l.polarity is False)
    R.ob("C07.d", fn, "latch", ok and guarded, "emit requires committed == false at entry: %s" % guarded)
    # the emission is decided by the latch and by the presence of the event registry alone: whether any shared type changed
    # (`changed`), whether observers were called, ... says nothing about whether the state vector or the delete set moved —
    # blocks integrated under an already deleted parent enter no type's change list
    for cs in e1 + e2:
        extra = []
        for l in v.guards(cs.bb):
            t = simp(l.term)
            if t[0] == "field" and t[1].endswith("TransactionMut.committed"):
                continue
            if l.polarity == "Some" and term_has_field(simp_deep(l.term), "Store.events"):
                continue
            if l.polarity == "None" and t[0] == "call" and re.search(r"Iterator>?::next$", t[1]):
                continue   # a preceding loop (squash passes) ran to exhaustion
            extra.append(l.desc[:90])
        R.ob("C07.d", fn, "unconditional:" + cs.name.rsplit("::", 1)[-1], not extra,
             "reached under the latch and `store.events is Some` only" if not extra else
             "the emission is additionally decided by %s: transactions that move the state vector or the delete set without "
             "satisfying it emit no update" % extra[:2], cs.loc())
    sets = [(i, j, s) for i, j, s in fn.field_writes("TransactionMut.committed")]
    ok = len(sets) >= 1 and all(s["rv"].get("use", {}).get("k") == 1 for i, j, s in sets) and all(cfg.dominates(i, e1[0].bb) for i, j, s in sets)
    R.ob("C07.d", fn, "latch-set", ok, "committed := true before anything is emitted: %s" % ok)
    order = [
        ("call_observers", fn.calls_to(TXN + "::call_observers")),
        ("cleanup_fmt", fn.calls_to(TXN + "::cleanup_fmt")),
        ("gc", fn.calls_to("yrs::gc::GCCollector::collect")),
        ("ds-squash", fn.calls_to("re:try_squash_with$")),
        ("block-squash", fn.calls_to("yrs::block_store::ClientBlockList::squash_left")),
    ]
    for name, cs in order:
        R.ob("C07.d", fn, "present:" + name, len(cs) >= 1, "%d call(s)" % len(cs))
        for c in cs:
            # c precedes the emit: emit is reachable from c, c is not reachable from emit
            after = e1[0].bb in cfg.reachable_from(c.bb)
            before = c.bb in cfg.reachable_from(e1[0].bb)
            R.ob("C07.d", fn, "order:%s<emit@bb%d" % (name, 0), after and not before, "%s precedes the update emission" % name, c.loc())
    co = order[0][1]
    cf = order[1][1]
    if co and cf:
        R.ob("C07.d", fn, "order:observers<cleanup", cf[0].bb in cfg.reachable_from(co[0].bb) and co[0].bb not in cfg.reachable_from(cf[0].bb),
             "call_observers precedes cleanup_fmt")


def rule_e(R, ctx):
    Y = ctx.yrs
    R.rule("C07.e", "R-PROV: TransactionMut::before_state lowers the store's state vector with insert_set.clock_start through set_min "
                    "(Skip-safe lower bound); after_state raises it with clock_end through set_max")
    for name, setter, bound in (("before_state", "set_min", "clock_start"), ("after_state", "set_max", "clock_end")):
        fn = Y.fn(TXN + "::" + name)
        found = False
        others = sorted({F.strip_generics(x.name).rsplit("::", 1)[-1] for c in Y.with_closures(fn) for x in c.calls()
                         if re.search(r"StateVector::(set_min|set_max|inc_by|merge)$", F.strip_generics(x.name))})
        why = "%s does not fold the insert set into the store's state vector with %s(%s): it calls %s" % (name, setter, bound, others or "no updater")
        for c in Y.with_closures(fn):
            if c.kind != "closure":
                continue
            cv = FnView(c)
            sm = c.calls_to("yrs::state_vector::StateVector::" + setter)
            base = c.calls_to("yrs::block_store::BlockStore::get_state_vector")
            for cs in sm:
                val = cv.arg(cs, 2)
                ok = term_has_call(val, "re:::" + bound + "$") and term_has_field(val, "TransactionMut.insert_set")
                recv = cv.arg(cs, 0)
                found = ok and bool(base) and term_has_call(recv, "yrs::block_store::BlockStore::get_state_vector")
                why = "%s(%s) on %s" % (setter, sshow(val, 6), sshow(recv, 4))
        R.ob("C07.e", fn, setter, found, why)


def rule_k(R, ctx, rid="C07.k"):
    import json as _json
    Y = ctx.yrs
    R.rule(rid, "R-TABLE subscription ↔ event list: every Doc::observe_X / observe_X_with / unobserve_X touches exactly the event list "
                "`X_events` of StoreEvents (update_v1 ↔ update_v1_events, update_v2 ↔ update_v2_events, …) with subscribe / "
                "subscribe_with / unsubscribe respectively, and emit_update_v1 / _v2 trigger the list of their own version — a v2 "
                "subscriber registered on the v1 list receives v1 payloads")
    n = 0
    for p, fn in sorted(Y.fns.items()):
        m = re.match(r"^yrs::doc::Doc::(un)?observe_(\w+?)(_with)?$", p)
        if not m or not fn.mir:
            continue
        fields = set()
        for i, j, st in fn.stmts():
            for mm in re.finditer(r"StoreEvents\.(\w+)", _json.dumps(st)):
                fields.add(mm.group(1))
        want_call = "unsubscribe" if m.group(1) else ("subscribe_with" if m.group(3) else "subscribe")
        calls = sorted({F.strip_generics(c.name).rsplit("::", 1)[-1] for c in fn.calls()
                        if re.search(r"Observer::(subscribe|subscribe_with|unsubscribe)$", F.strip_generics(c.name))})
        n += 1
        ok = fields == {m.group(2) + "_events"} and calls == [want_call]
        R.ob(rid, fn, "event-list", ok, "%s on %s" % (calls, sorted(fields)) if ok else
             "%s on %s — expected %s on ['%s_events']" % (calls, sorted(fields), want_call, m.group(2)))
    R.floor(rid, "observe / unobserve wrappers of Doc", n, 18)
    for ver in ("v1", "v2"):
        fn = Y.fn("yrs::store::StoreEvents::emit_update_" + ver)
        fields = set()
        for i, j, st in fn.stmts():
            for mm in re.finditer(r"StoreEvents\.(\w+)", _json.dumps(st)):
                fields.add(mm.group(1))
        R.ob(rid, fn, "event-list", fields == {"update_%s_events" % ver}, "triggers %s" % sorted(fields))


def check(ctx, R):
    R.run("C07.a", rule_a, ctx)
    R.run("C07.b", rule_b, ctx)
    R.run("C07.c", rule_c, ctx)
    R.run("C07.d", rule_d, ctx)
    R.run("C07.e", rule_e, ctx)
    from . import c09_prims
    R.run("C07.f", lambda R, c: c09_prims.rule_ds_running(R, c, "C07.f"), ctx)
    def _answers(R, c):
        R.rule("C07.g", "R-PROV single definition of the event payload: encode_update_vN returns the bytes of the EncoderVN that "
                        "write_blocks_from(before_state) and the delete set were written to, on every path")
        for ver in ("1", "2"):
            single_answer(R, "C07.g", c.yrs.fn("yrs::transaction::TransactionMut::encode_update_v" + ver), r"EncoderV%s::new$" % ver, "the bytes of its EncoderV%s" % ver)
    R.run("C07.g", _answers, ctx)
    from . import c13 as _c13, c16 as _c16
    R.run("C07.h", lambda R, c: _c13.rule_c(R, c, "C07.h"), ctx)
    R.run("C07.i", lambda R, c: _c16.rule_e(R, c, "C07.i"), ctx)
    from . import shared as _shx
    R.run("C07.j", lambda R, c: _shx.export_extent(R, c, "C07.j"), ctx)
    R.run("C07.k", rule_k, ctx)
    return {}
