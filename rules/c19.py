"""C19 — the C API is a faithful projection: ABI agreement with libyrs.h, wrapper→API mapping, scalar pass-through, tag tables."""
import json
import os
import re

from ylib import facts as F
from ylib.cheader import Header
from ylib.facts import hir_walk
from .common import *  # noqa

HERE = os.path.dirname(os.path.abspath(__file__))
TABLE = os.path.join(HERE, "c19_table.json")

# Rust type name -> name the header uses for the same opaque/struct type (cbindgen renames): reason = cbindgen.toml [export.rename]
RENAMES = {
    "Doc": "YDoc", "Transaction": "TransactionInner", "TransactionInner": "TransactionInner", "c_void": "void",
    "Subscription": "YSubscription", "LinkSource": "LinkSource", "Weak": "LinkSource",
}


def load_renames(repo):
    out = dict(RENAMES)
    p = os.path.join(repo, "yffi", "cbindgen.toml")
    if os.path.exists(p):
        sect = False
        for line in open(p):
            line = line.strip()
            if line.startswith("["):
                sect = line == "[export.rename]"
                continue
            m = re.match(r'"(\w+)"\s*=\s*"(\w+)"', line)
            if sect and m:
                out.setdefault(m.group(1), m.group(2))
    return out


def rust_class(t):
    k = t["k"]
    if k == "int":
        return {"k": "int", "n": t["n"]}
    if k == "bool":
        return {"k": "int", "n": "bool"}
    if k == "float":
        return {"k": "float", "n": t["n"]}
    if k == "unit":
        return {"k": "void"}
    if k in ("ptr", "ref"):
        return {"k": "ptr", "const": not t["mut"], "to": rust_class(t["to"])}
    if k == "fnptr":
        return {"k": "fnptr", "ret": rust_class(t["output"]), "args": [rust_class(a) for a in t["inputs"]]}
    if k == "adt":
        if t["name"] == "Option" and t.get("targs"):
            inner = t["targs"][0]
            if inner["k"] in ("fnptr", "ref", "ptr"):
                return rust_class(inner)  # nullable pointer optimisation
        if t["name"] == "c_void":
            return {"k": "void"}
        return {"k": "named", "name": RENAMES.get(t["name"], t["name"]), "repr_c": t.get("repr_c"), "transparent": t.get("transparent")}
    return {"k": "other", "s": t.get("s")}


def same_class(r, c, path=""):
    """None if the Rust class r and the C class c agree, else a description of the first difference."""
    if r["k"] != c["k"]:
        return "%s: Rust %s vs C %s" % (path or "type", show_cls(r), show_cls(c))
    k = r["k"]
    if k in ("int", "float"):
        if r["n"] != c["n"]:
            # bool is passed as uint8_t by convention in this API? (no: report)
            return "%s: Rust %s vs C %s" % (path or "type", r["n"], c["n"])
        return None
    if k == "ptr":
        if r["const"] != c["const"]:
            return "%s: pointer constness differs (Rust %s, C %s)" % (path or "type", "const" if r["const"] else "mut", "const" if c["const"] else "mut")
        return same_class(r["to"], c["to"], (path + "*") if path else "*")
    if k == "named":
        rn, cn = r["name"], c["name"]
        if rn == cn or ("Y" + rn) == cn or rn == ("Y" + cn):
            return None
        return "%s: Rust %s vs C %s" % (path or "type", rn, cn)
    if k == "fnptr":
        if len(r["args"]) != len(c["args"]):
            return "%s: callback arity %d vs %d" % (path, len(r["args"]), len(c["args"]))
        d = same_class(r["ret"], c["ret"], path + "(cb ret)")
        if d:
            return d
        for i, (a, b) in enumerate(zip(r["args"], c["args"])):
            d = same_class(a, b, path + "(cb arg %d)" % i)
            if d:
                return d
        return None
    return None


def show_cls(c):
    k = c["k"]
    if k in ("int", "float"):
        return c["n"]
    if k == "ptr":
        return ("const " if c["const"] else "") + show_cls(c["to"]) + "*"
    if k == "named":
        return c["name"]
    if k == "fnptr":
        return "fn(%s)->%s" % (",".join(show_cls(a) for a in c["args"]), show_cls(c["ret"]))
    return k


def exported(yffi):
    return {f.path.rsplit("::", 1)[-1]: f for f in yffi.fns.values() if f.sig and f.sig.get("no_mangle") and f.kind == "fn"}


def rule_a(R, ctx):
    Y = ctx.yffi
    R.rule("C19.a", "R-ABI header ↔ Rust signature: every #[no_mangle] extern \"C\" function of yffi has a prototype of the same name in "
                    "tests-ffi/include/libyrs.h with the same arity and, position by position, the same type class (integer width and "
                    "signedness, float width, pointer constness and pointee, by-value struct name, callback arity and argument classes); "
                    "every prototype in the header is implemented")
    h = Header(os.path.join(ctx.repo, "tests-ffi/include/libyrs.h"))
    RENAMES.update(load_renames(ctx.repo))
    RENAMES["Transaction"] = "TransactionInner"   # header: `typedef struct TransactionInner YTransaction`
    ex = exported(Y)
    R.floor("C19.a", "exported extern \"C\" functions", len(ex), 200)
    R.floor("C19.a", "prototypes in libyrs.h", len(h.protos), 200)
    for name, fn in sorted(ex.items()):
        if not fn.sig["abi"].startswith("C"):
            R.ob("C19.a", fn, "abi", False, "exported with ABI %s" % fn.sig["abi"])
            continue
        p = h.protos.get(name)
        if p is None:
            R.ob("C19.a", fn, "prototype", False, "no prototype for %s in libyrs.h" % name)
            continue
        ret, params = p
        rin = [rust_class(t) for t in fn.sig["inputs_j"]]
        cin = [h.classify(t) for t, _ in params]
        diffs = []
        if len(rin) != len(cin):
            diffs.append("arity: Rust %d vs C %d" % (len(rin), len(cin)))
        else:
            for i, (a, b) in enumerate(zip(rin, cin)):
                d = same_class(a, b, "param %d (%s)" % (i, fn.sig["params"][i] if i < len(fn.sig["params"]) else "?"))
                if d:
                    diffs.append(d)
        d = same_class(rust_class(fn.sig["output_j"]), h.classify(ret), "return")
        if d:
            diffs.append(d)
        R.ob("C19.a", fn, "signature", not diffs, "; ".join(diffs) if diffs else
             "%s(%s) -> %s" % (name, ", ".join(show_cls(a) for a in rin), show_cls(rust_class(fn.sig["output_j"]))))
    for name in sorted(set(h.protos) - set(ex)):
        R.ob("C19.a", "libyrs.h", "unimplemented:" + name, False, "prototype %s has no #[no_mangle] implementation in yffi" % name)
    # parameter names agree too (a swapped pair of same-typed parameters shows up here)
    for name, fn in sorted(ex.items()):
        p = h.protos.get(name)
        if p is None:
            continue
        cn = [n for _, n in p[1]]
        rn = fn.sig["params"]
        if len(cn) == len(rn):
            R.ob("C19.a", fn, "param-names", cn == rn, "Rust %s / header %s" % (rn, cn), nontrivial=False)
    return h


def direct_api_calls(Y, fn):
    """resolved yrs callees of a wrapper (incl. its closures): [(callee path, CallSite)]."""
    out = []
    for f in Y.with_closures(fn):
        for cs in f.calls():
            nm = cs.name
            if cs.info.get("local"):
                continue
            if cs.info.get("krate") == "yrs" or nm.startswith("yrs::") or nm.startswith("<yrs::") or " as yrs::" in nm:
                if nm.startswith("yffi::"):
                    continue
                out.append((F.strip_generics(nm), cs))
    return out


PLUMBING = re.compile(r"(std::ops::Deref|std::clone::Clone|std::convert::(From|Into|AsRef|TryFrom|TryInto)|std::default::Default|std::fmt::|"
                      r"std::cmp::|std::iter::|std::borrow::|std::hash::|std::ops::Drop|std::ops::DerefMut|std::ops::Index|std::string::ToString)")


def api_set(Y, fn):
    s = set()
    for nm, cs in direct_api_calls(Y, fn):
        if PLUMBING.search(nm):
            continue
        s.add(nm)
    return sorted(s)


def rule_b(R, ctx):
    Y = ctx.yffi
    R.rule("C19.b", "R-PROV wrapper → API mapping: for each exported wrapper the set of yrs API items it calls (resolved callees, smart-"
                    "pointer/conversion plumbing dropped) equals the frozen table /verif/rules/c19_table.json generated from the pinned tree "
                    "and reviewed; a wrapper named y<kind>_<op> calls an API item whose name contains <op> (naming convention, exceptions "
                    "listed); v1/v2 twin wrappers have equal skeletons")
    ex = exported(Y)
    table = json.load(open(TABLE))["wrappers"]
    n = 0
    for name, fn in sorted(ex.items()):
        cur = api_set(Y, fn)
        n += 1
        if name not in table:
            R.ob("C19.b", fn, "mapping", False, "wrapper %s is not in the frozen table (new export): calls %s" % (name, cur[:6]))
            continue
        want = table[name]
        missing = sorted(set(want) - set(cur))
        extra = sorted(set(cur) - set(want))
        R.ob("C19.b", fn, "mapping", not missing and not extra,
             ("calls %d API item(s) as frozen" % len(cur)) if not (missing or extra) else
             "delegation changed: no longer calls %s ; now calls %s" % (missing[:4], extra[:4]))
    R.floor("C19.b", "wrappers compared with the frozen table", n, 200)
    # v1/v2 twins
    twins = sorted(nm for nm in ex if nm.endswith("_v1") and nm[:-1] + "2" in ex)
    for nm in twins:
        sibling(R, "C19.b", Y, ex[nm].path, ex[nm[:-1] + "2"].path)
    R.floor("C19.b", "v1/v2 wrapper twins", len(twins), 4)
    from .c08 import version_purity
    # the state-vector / snapshot *arguments* of the v2 entry points are documented to be v1 payloads
    # (ytransaction_state_vector_v1 / ytransaction_snapshot are the only producers the API offers)
    def allowed(fn, cs):
        g = cs.info.get("gargs") or ""
        return cs.name.endswith("Decode::decode_v1") and ("StateVector" in g or "Snapshot" in g)

    version_purity(R, "C19.b", Y, allowed=allowed)


INT_TYPES = {"u8", "u16", "u32", "u64", "usize", "i8", "i16", "i32", "i64", "isize"}
NAME_CLASSES = [
    {"index", "idx", "i", "pos", "position"},
    {"len", "length", "chunk_len", "count", "n"},
    {"clock"},
    {"client", "client_id", "id"},
    {"start", "from", "lo", "lower"},
    {"end", "to", "hi", "upper"},
    {"source", "src"},
    {"target", "dst", "dest"},
]


def name_class(n):
    n = (n or "").lstrip("_")
    for i, c in enumerate(NAME_CLASSES):
        if n in c or any(n.endswith("_" + x) for x in c):
            return i
    return None


def rule_c(R, ctx):
    Y, YRS = ctx.yffi, ctx.yrs
    R.rule("C19.c", "R-PROV scalar pass-through: an integer parameter of a wrapper that reaches a parameter of a yrs API function through "
                    "casts only lands on a parameter of the same name class ({index,idx}, {len,length}, {clock}, {client}, {start}, {end}…) — "
                    "a swapped index/length pair is the characteristic marshalling bug")
    ex = exported(Y)
    n = 0
    for name, fn in sorted(ex.items()):
        pnames = fn.sig["params"]
        ptys = fn.sig["inputs"]
        for f in Y.with_closures(fn):
            v = FnView(f)
            for cs in f.calls():
                if cs.info.get("local") or cs.info.get("krate") != "yrs":
                    continue
                callee = YRS.by_dp.get(cs.info.get("dp"))
                if callee is None or not callee.sig:
                    continue
                cparams = callee.sig["params"]
                for i, a in enumerate(cs.args):
                    if i >= len(cparams):
                        break
                    t = simp(v.terms.operand(a, 10))
                    if t[0] != "param" or f is not fn:
                        continue
                    pi = t[1] - 1
                    if pi >= len(ptys) or ptys[pi] not in INT_TYPES:
                        continue
                    wc, cc = name_class(pnames[pi]), name_class(cparams[i])
                    if wc is None or cc is None:
                        continue
                    n += 1
                    R.ob("C19.c", fn, "%s->%s.%s" % (pnames[pi], F.strip_generics(callee.path).rsplit("::", 1)[-1], cparams[i]), wc == cc,
                         "wrapper parameter `%s` is passed as `%s` of %s" % (pnames[pi], cparams[i], callee.path), cs.loc())
    R.floor("C19.c", "integer pass-through instances", n, 20)


def rule_d(R, ctx, h):
    Y = ctx.yffi
    R.rule("C19.d", "R-TABLE tag constants: every Y_* / ERR_* / YCHANGE_* / Y_EVENT_* constant exported by the header has the value of the "
                    "Rust constant of the same name; YInput producers (yinput_*) and the YInput consumer agree, per tag, on the union "
                    "field that carries the value; YOutput producers and the youtput_read_* consumers agree likewise")
    consts = {p.rsplit("::", 1)[-1]: c["v"] for p, c in Y.consts.items() if p.startswith("yffi::")}
    n = 0
    for name, txt in sorted(h.defines.items()):
        if name not in consts:
            continue
        try:
            val = int(eval(txt, {"__builtins__": {}}))
        except Exception:
            continue
        n += 1
        R.ob("C19.d", "yffi::" + name, "value", val == consts[name], "header %s = %s, Rust %s" % (name, val, consts[name]), nontrivial=False)
    R.floor("C19.d", "constants present in both header and Rust", n, 30)
    # producers: yinput_* -> (tag const, union field)
    prod = {}
    for nm, fn in sorted(exported(Y).items()):
        if not nm.startswith("yinput_"):
            continue
        tag, field = None, None
        for x in hir_walk(fn.hir["body"]):
            if x.get("k") == "struct" and (x.get("def") or "").endswith("YInput"):
                for fname, e in x["fields"]:
                    if fname == "tag":
                        for y in hir_walk(e):
                            if y.get("k") == "path" and (y.get("def") or "").startswith("yffi::Y_"):
                                tag = y["def"].rsplit("::", 1)[-1]
                    if fname == "value":
                        for y in hir_walk(e):
                            if y.get("k") == "struct" and (y.get("def") or "").endswith("YInputContent") and y.get("fields"):
                                field = y["fields"][0][0]
        if tag:
            prod[nm] = (tag, field)
    # consumer: match on tag const -> union field read, in the functions that turn a YInput into a yrs value
    cons = {}
    for p, fn in Y.fns.items():
        if fn.hir is None or "YInput" not in p:
            continue
        for x in hir_walk(fn.hir["body"]):
            if x.get("k") in ("match",):
                pass
        _collect_tag_field_uses(fn, cons, "yffi::YInputContent")
    agree = 0
    for nm, (tag, field) in sorted(prod.items()):
        used = cons.get(tag, set())
        ok = field is None or not used or field in used
        if field and used:
            agree += 1
        R.ob("C19.d", "yffi::" + nm, "producer/consumer:" + tag, ok,
             "producer stores `%s` under tag %s; consumers read %s for that tag" % (field, tag, sorted(used) or "(no field)"))
    R.floor("C19.d", "YInput tags with producer and consumer field", agree, 6)
    # outputs
    oprod = {}
    for p, fn in Y.fns.items():
        if fn.hir is None:
            continue
        for x in hir_walk(fn.hir["body"]):
            if x.get("k") == "struct" and (x.get("def") or "").endswith("yffi::YOutput") or (x.get("k") == "struct" and (x.get("def") or "") == "yffi::YOutput"):
                tag = field = None
                for fname, e in x["fields"]:
                    if fname == "tag":
                        for y in hir_walk(e):
                            if y.get("k") == "path" and (y.get("def") or "").startswith("yffi::Y_"):
                                tag = y["def"].rsplit("::", 1)[-1]
                    if fname == "value":
                        for y in hir_walk(e):
                            if y.get("k") == "struct" and (y.get("def") or "").endswith("YOutputContent") and y.get("fields"):
                                field = y["fields"][0][0]
                if tag and field:
                    oprod.setdefault(tag, set()).add(field)
    ocons = {}
    for nm, fn in exported(Y).items():
        if nm.startswith("youtput_read_"):
            _collect_tag_field_uses(fn, ocons, "yffi::YOutputContent", guard_style=True)
    m = 0
    for tag in sorted(set(oprod) & set(ocons)):
        m += 1
        ok = bool(oprod[tag] & ocons[tag])
        R.ob("C19.d", "yffi::YOutput", "producer/consumer:" + tag, ok, "producers store %s, youtput_read_* read %s" % (sorted(oprod[tag]), sorted(ocons[tag])))
    R.floor("C19.d", "YOutput tags with producer and consumer field", m, 6)


def _collect_tag_field_uses(fn, cons, union_path, guard_style=False):
    """tag const -> union fields read under a test of that tag (match arm or `if x.tag == CONST`)."""
    def fields_in(n):
        out = set()
        for y in hir_walk(n):
            if y.get("k") == "field" and y.get("owner", "").lstrip("~") == union_path:
                out.add(y["name"])
        return out

    def tags_in(n):
        out = set()
        for y in hir_walk(n):
            if y.get("k") in ("path", "ppath") and (y.get("def") or "").startswith("yffi::Y_"):
                out.add(y["def"].rsplit("::", 1)[-1])
        return out

    for x in hir_walk(fn.hir["body"]):
        if x.get("k") == "match" and x.get("src") == "normal":
            for arm in x["arms"]:
                ts = tags_in(arm["pat"])
                if arm.get("guard"):
                    ts |= tags_in(arm["guard"])
                fs = fields_in(arm["body"])
                for t in ts:
                    if fs:
                        cons.setdefault(t, set()).update(fs)
        if x.get("k") == "if":
            ts = tags_in(x["cond"])
            if ts:
                fs = fields_in(x["then"])
                for t in ts:
                    if fs:
                        cons.setdefault(t, set()).update(fs)


def rule_e(R, ctx):
    FFI = ctx.yffi
    R.rule("C19.e", "R-PROV running insertion index: an exported wrapper that inserts in a loop at a running index (yarray_insert_range "
                    "batches primitive cells) advances that index, after each insertion call, by the number of elements the call "
                    "inserted: `len()` of the very vector passed to Array::insert_range, 1 after Array::insert — otherwise later "
                    "cells of the same call land at other positions than the Rust API would put them")
    n = 0
    for p, fn in sorted(exported(FFI).items()):
        if not fn.mir:
            continue
        cfg = fn.cfg()
        for cs in fn.calls():
            nm = F.strip_generics(cs.name)
            m = re.search(r"::Array::(insert_range|insert)$", nm) or re.search(r"Array(<.*>)?>?::(insert_range|insert)$", nm)
            if not m or not cfg.in_loop(cs.bb) or len(cs.args) < 4:
                continue
            kind = "insert_range" if nm.endswith("insert_range") else "insert"
            J = mir_root(fn, cs.args[2])
            if J[0] != "local" or len(fn.defs().get(J[1], [])) < 2:
                continue  # not a running index
            n += 1
            site = "%s@%s" % (kind, fn.local_name(J[1]) or "_%d" % J[1])
            # the advance: definitions of the index dominated by the insertion
            adv = [d for d in fn.defs()[J[1]] if d[0] == "stmt" and d[1] != cs.bb and cfg.dominates(cs.bb, d[1])]
            if len(adv) != 1:
                R.ob("C19.e", fn, site, False, "%d assignment(s) to the running index after the insertion (expected one `index += n`)" % len(adv), cs.loc())
                continue
            sm = mir_sum(fn, {"c": J[1]}) if False else None
            rv = adv[0][3]["rv"]
            # j = (j + x).0  /  j = j + x
            add = None
            if "use" in rv and isinstance(rv["use"], dict):
                add = mir_sum(fn, rv["use"])
            elif rv.get("bin") in ("Add", "AddWithOverflow"):
                add = (rv["a"], rv["b"])
            ok = False
            why = "the index is not advanced by a sum"
            if add:
                a, b = add
                if mir_root(fn, a) != J:
                    a, b = b, a
                if mir_root(fn, a) == J:
                    rb = mir_root(fn, b)
                    if kind == "insert":
                        ok = rb == ("const", 1)
                        why = "index += %s after inserting one element" % (rb,)
                    else:
                        # b = Vec::len(&vec) as u32 with vec the argument of insert_range
                        d = mir_def(fn, b)
                        src = None
                        if d and d[0] == "stmt" and "cast" in d[1]:
                            d2 = mir_def(fn, d[1]["cast"])
                            if d2 and d2[0] == "call" and re.search(r"Vec(<.*>)?::len$", d2[1].name) and d2[1].args:
                                src = mir_root(fn, d2[1].args[0])
                        elif d and d[0] == "call" and re.search(r"Vec(<.*>)?::len$", d[1].name) and d[1].args:
                            src = mir_root(fn, d[1].args[0])
                        vec = mir_root(fn, cs.args[3])
                        ok = src is not None and src == vec
                        why = "index += len(<the vector passed to insert_range>)" if ok else \
                            "index is advanced by %s, which is not the length of the vector just inserted" % (sshow(FnView(fn).terms.operand(b, 8), 5),)
            R.ob("C19.e", fn, site, ok, why, cs.loc())
    R.floor("C19.e", "loop insertions at a running index in exported wrappers", n, 2)


def rule_f(R, ctx):
    FFI = ctx.yffi
    R.rule("C19.f", "R-SIB/R-TABLE option flags: the two conversions between YOptions.flags and yrs::Options agree on which flag "
                    "constant stands for which option — `From<Options> for YOptions` sets constant K under option field f, and "
                    "`Into<Options> for YOptions` computes field f from `flags & K`, for the same (f, K) pairs, each constant used for "
                    "one field only; a copy-pasted mask makes a C-created document run with another option than the same flags mean "
                    "natively")
    into = FFI.fn("<yffi::YOptions as std::convert::Into<yrs::Options>>::into")
    frm = FFI.fn("<yffi::YOptions as std::convert::From<yrs::Options>>::from")
    vi, vf = FnView(into), FnView(frm)
    enc = {}
    for i, j, st in frm.stmts():
        rv = st["rv"]
        if rv.get("bin") == "BitOr":
            k = rv["b"] if isinstance(rv.get("b"), dict) and "k" in rv["b"] else rv["a"]
            name = k.get("named") or str(k.get("k"))
            flds = set()
            for l in vf.guards(i):
                for x in walk(l.term):
                    if x[0] == "field" and ".Options." in x[1] or (x[0] == "field" and x[1].startswith("yrs::doc::Options.")) or \
                            (x[0] == "field" and x[1].rsplit(".", 1)[0].endswith("Options")):
                        flds.add(x[1].rsplit(".", 1)[-1])
            for f in flds:
                enc[f] = name
    dec = {}
    for i, j, st in into.stmts():
        if "agg" in st["rv"] and str(st["rv"]["agg"].get("adt", "")).endswith("Options") and st["rv"]["agg"].get("fields"):
            for f, o in zip(st["rv"]["agg"]["fields"], st["rv"]["ops"]):
                t = simp_deep(vi.terms.operand(o, 10))
                ks = [x for x in walk(t) if x[0] == "bin" and x[1] == "BitAnd"]
                names = set()
                for b in ks:
                    for side in (b[2], b[3]):
                        sd = simp(side)
                        if sd[0] == "const" and len(sd) > 2 and sd[2]:
                            names.add(sd[2])
                        elif sd[0] == "const":
                            names.add(str(sd[1]))
                if names:
                    dec[f] = sorted(names)
                elif t[0] == "phi":
                    # an enum chosen under a flag test (offset_kind): the constants its definitions are guarded by
                    l0 = o.get("c", o.get("m")) if isinstance(o, dict) else None
                    r = mir_root(into, o)
                    if r[0] == "local":
                        gn = set()
                        for d in into.defs().get(r[1], []):
                            for l in vi.guards(d[1]):
                                for x in walk(l.term):
                                    if x[0] == "bin" and x[1] == "BitAnd":
                                        for side in (x[2], x[3]):
                                            sd = simp(side)
                                            if sd[0] == "const" and len(sd) > 2 and sd[2]:
                                                gn.add(sd[2])
                        if gn:
                            dec[f] = sorted(gn)
    R.floor("C19.f", "option fields encoded into flags", len(enc), 5)
    R.floor("C19.f", "option fields decoded from flags", len(dec), 5)
    for f in sorted(set(enc) | set(dec)):
        e, d = enc.get(f), dec.get(f)
        R.ob("C19.f", into, "field:" + f, e is not None and d == [e],
             "%s <-> %s in both directions" % (f, e) if e is not None and d == [e] else
             "option `%s` is written to flags as %s but read back from %s" % (f, e, d))
    used = [k for ks in dec.values() for k in ks]
    R.ob("C19.f", into, "injective", len(used) == len(set(used)), "each flag constant feeds one option: %s" % sorted(used))


def rule_g(R, ctx):
    FFI = ctx.yffi
    R.rule("C19.g", "R-GUARD dispatch on an optional attribute argument: in every exported wrapper that can call both an API function "
                    "and its `_with_attributes` sibling, the plain variant is reached only under `<attrs pointer>.is_null()` — a "
                    "non-NULL attribute map, even an empty one, goes to the `_with_attributes` variant (the two are not equivalent: "
                    "an insert with an empty map clears the formatting active at the cursor, a plain insert inherits it)")
    n = 0
    for name, fn in sorted(exported(FFI).items()):
        if not fn.mir:
            continue
        v = FnView(fn)
        calls = {}
        for cs in fn.calls():
            nm = F.strip_generics(cs.name).rsplit("::", 1)[-1]
            calls.setdefault(nm, []).append(cs)
        for plain, css in sorted(calls.items()):
            sib = plain + "_with_attributes"
            if sib not in calls or not re.search(r"(Text|Xml)", " ".join(F.strip_generics(c.name) for c in css + calls[sib])):
                continue
            for cs, site in ordinal_sites(css):
                n += 1
                ok = any(l.polarity is True and l.term[0] == "call" and re.search(r"::is_null$", l.term[1]) and
                         any(x[0] == "param" for x in walk(l.term)) for l in v.guards(cs.bb))
                R.ob("C19.g", fn, site, ok,
                     "plain %s only when the attribute pointer is NULL" % plain if ok else
                     "%s is also reached with a non-NULL attribute argument (guards: %s)" % (plain, v.guard_descs(cs.bb)[-3:]), cs.loc())
    R.floor("C19.g", "plain calls next to a _with_attributes sibling", n, 2)


def rule_h(R, ctx):
    FFI = ctx.yffi
    R.rule("C19.h", "R-TABLE input cell kind -> nested type: in <YInput as Prelim>::into_content every TypeRef variant is built under "
                    "exactly one tag value, and that value is the Y_<KIND> constant whose name matches the variant (Y_MAP -> Map, "
                    "Y_ARRAY -> Array, Y_TEXT -> Text, Y_XML_TEXT -> XmlText, Y_XML_ELEM -> XmlElement, Y_XML_FRAG -> XmlFragment, "
                    "Y_WEAK_LINK -> WeakLink): a nested value created through the C API has the type the same call creates natively")
    fn = FFI.fn("<yffi::YInput as yrs::block::Prelim>::into_content")
    v = FnView(fn)
    byval = {}
    for k, c in FFI.consts.items():
        nm = k.rsplit("::", 1)[-1]
        if nm.startswith("Y_") and isinstance(c.get("v"), int) and c["v"] > 0 and c.get("ty") == "i8" and not nm.startswith(("Y_OFFSET", "Y_SKIP", "Y_AUTO", "Y_SHOULD", "Y_CLEANUP", "Y_KIND", "Y_TRUE", "Y_FALSE", "Y_EVENT", "Y_CHANGE")):
            byval.setdefault(c["v"], []).append(nm)
    n = 0
    seen = {}
    for i, j, st in fn.stmts():
        rv = st["rv"]
        if "agg" in rv and str(rv["agg"].get("adt", "")).endswith("TypeRef") and rv["agg"].get("variant"):
            var = rv["agg"]["variant"]
            vals = [l.polarity[1] for l in v.guards(i) if isinstance(l.polarity, tuple) and l.polarity[0] == "eq" and
                    term_has_field(l.term, "YInput.tag")]
            n += 1
            names = [x for val in vals for x in byval.get(val, [])]
            norm = lambda s_: s_.lower().replace("y_", "", 1).replace("_", "")
            match = [x for x in names if norm(x).startswith(var.lower()[:len(norm(x))]) and var.lower().startswith(norm(x)[:4])]
            ok = len(vals) == 1 and bool(match)
            seen[var] = (vals, names)
            R.ob("C19.h", fn, "tag:" + var, ok,
                 "TypeRef::%s under tag %s" % (var, names) if ok else
                 "TypeRef::%s is built under tag value(s) %s = %s: expected exactly one tag, the Y_* constant of the same kind" % (var, vals, names),
                 "%s:%s" % (fn.file, st["line"]))
    R.floor("C19.h", "TypeRef variants built in into_content", n, 7)


OUT_TAGS = {
    "&[u8]": "Y_JSON_BUF", "&[yrs::Any]": "Y_JSON_ARR", "&std::collections::HashMap<std::string::String, yrs::Any>": "Y_JSON_MAP",
    "&str": "Y_JSON_STR", "bool": "Y_JSON_BOOL", "f64": "Y_JSON_NUM", "i64": "Y_JSON_INT", "yrs::ArrayRef": "Y_ARRAY", "yrs::Doc": "Y_DOC",
    "yrs::MapRef": "Y_MAP", "yrs::TextRef": "Y_TEXT", "yrs::WeakRef<yrs::branch::BranchPtr>": "Y_WEAK_LINK",
    "yrs::XmlElementRef": "Y_XML_ELEM", "yrs::XmlFragmentRef": "Y_XML_FRAG", "yrs::XmlTextRef": "Y_XML_TEXT",
    "yrs::branch::BranchPtr": "Y_UNDEFINED",
}


def rule_i(R, ctx):
    FFI = ctx.yffi
    R.rule("C19.i", "R-TABLE output cell tags: every `impl From<T> for YOutput` that builds a cell sets the Y_* tag of its own source "
                    "type T (TextRef -> Y_TEXT, XmlTextRef -> Y_XML_TEXT, ... frozen table of 16 conversions, names agree)")
    n = 0
    for p, fn in sorted(FFI.fns.items()):
        m = re.match(r"<yffi::YOutput as std::convert::From<(.+)>>::from$", p)
        if not (m and fn.mir):
            continue
        src = m.group(1)
        v = FnView(fn)
        tags = []
        for i, j, st in fn.stmts():
            rv = st["rv"]
            if "agg" in rv and str(rv["agg"].get("adt", "")).endswith("YOutput") and rv["agg"].get("fields"):
                for f, o in zip(rv["agg"]["fields"], rv["ops"]):
                    if f == "tag":
                        t = simp(v.terms.operand(o, 6))
                        tags.append(str(t[2]).rsplit("::", 1)[-1] if t[0] == "const" and len(t) > 2 and t[2] else sshow(t, 3))
        if not tags:
            continue  # delegates to another conversion
        n += 1
        want = OUT_TAGS.get(src)
        R.ob("C19.i", fn, "tag", want is not None and set(tags) == {want},
             "From<%s> sets %s" % (src, sorted(set(tags))) if want is not None and set(tags) == {want} else
             "From<%s> sets tag %s, expected %s" % (src, sorted(set(tags)), want))
    R.floor("C19.i", "YOutput conversions that set a tag", n, 16)


def rule_j(R, ctx):
    Yf = ctx.yffi
    R.rule("C19.j", "R-GUARD signed C fields that become unsigned Rust values (belief rule, 3 of 3 sites): every cast of a signed integer "
                    "read from a C struct to an unsigned type is decided by exactly `x >= 0` of the value that is cast (taken, or "
                    "`x < 0` refused; the negated value on the other side) — unguarded the value wraps, and a stricter test "
                    "(`x > 0`) silently drops the legal value 0 (capture_timeout_millis = 0 means `every transaction is its own "
                    "undo step`; client_or_len = 0 is a valid client id)")
    n = 0
    for p, fn in sorted(Yf.fns.items()):
        if not fn.mir:
            continue
        v = None
        k = 0
        for i, j, st in fn.stmts():
            rv = st["rv"]
            if "cast" not in rv:
                continue
            src = rv["cast"]
            sl = src.get("c", src.get("m")) if isinstance(src, dict) else None
            try:
                sty = str(fn.local_ty(sl)) if isinstance(sl, int) else ""
            except Exception:
                sty = ""
            if sty not in ("i8", "i16", "i32", "i64", "isize") or str(rv.get("ty")) not in ("u8", "u16", "u32", "u64", "usize"):
                continue
            v = v or FnView(fn)
            val = simp_deep(v.terms.operand(src, 10))
            if not any(x[0] == "call" and (x[1].endswith("::as_ref") or x[1].endswith("::as_mut") or x[1].endswith("::read")) for x in walk(val)) and \
                    not any(x[0] == "deref" for x in walk(val)):
                continue   # not a value read through a C pointer
            n += 1
            site = "cast#%d" % k
            k += 1
            # the value cast: x itself or -x
            neg = val[0] == "un" and val[1] == "Neg"
            key = mir_vkey(fn, src)
            if neg:
                d = mir_def(fn, src)
                key = mir_vkey(fn, d[1]["a"]) if d and d[0] == "stmt" and d[1].get("un") == "Neg" else key
            ok = False
            seen = []
            for l in v.guards(i):
                sw = fn.blocks[l.bb]["t"].get("switch")
                sd = mir_def(fn, sw) if sw else None
                if not (sd and sd[0] == "stmt" and sd[1].get("bin") in ("Ge", "Gt", "Le", "Lt")) or not isinstance(l.polarity, bool):
                    continue
                a, b = mir_vkey(fn, sd[1]["a"]), mir_vkey(fn, sd[1]["b"])
                op = sd[1]["bin"]
                zero_b = isinstance(b, tuple) and b[0] == "k" and str(b[1]).split("_")[0] == "0"
                if a == key and zero_b:
                    seen.append("%s 0 is %s" % (op, l.polarity))
                    nonneg = (op == "Ge" and l.polarity is True) or (op == "Lt" and l.polarity is False)
                    negside = (op == "Ge" and l.polarity is False) or (op == "Lt" and l.polarity is True)
                    if (nonneg and not neg) or (negside and neg):
                        ok = True
            R.ob("C19.j", fn, site, ok, "cast of %s decided by exactly `x >= 0`" % sshow(val, 4) if ok else
                 "cast of %s to unsigned is decided by %s — not by exactly `x >= 0`: a negative value wraps or the value 0 is dropped" % (sshow(val, 4), seen or "no sign test"),
                 "%s:%s" % (fn.file, st["line"]))
    R.floor("C19.j", "signed-to-unsigned casts of C-side values", n, 2)


def rule_k(R, ctx):
    Yf = ctx.yffi
    names = [v[1] if isinstance(v, (list, tuple)) else v.get("name") for v in ctx.yrs.enums.get("yrs::any::Any", [])]
    R.rule("C19.k", "R-TABLE Any kind -> output cell, in both conversions: `impl From<Any> for YOutput` (top-level reads) and its "
                    "borrowed twin `impl From<&Any> for YOutput` (values nested in JSON arrays / maps, formatting attributes in "
                    "chunks and event deltas) send every scalar kind to the constructor of that kind — Null -> YOutput::null, "
                    "Undefined -> YOutput::undefined, Bool -> From<bool>, Number -> From<f64>, BigInt -> From<i64> — read off the "
                    "discriminant switch (variant order from the yrs enum) and the first YOutput constructor on each arm; the two "
                    "impls agree arm by arm")
    want = {"Null": r"YOutput::null$", "Undefined": r"YOutput::undefined$", "Bool": r"From<bool>>::from$", "Number": r"From<f64>>::from$", "BigInt": r"From<i64>>::from$"}
    maps = {}
    for path in ("<yffi::YOutput as std::convert::From<yrs::Any>>::from", "<yffi::YOutput as std::convert::From<&yrs::Any>>::from"):
        fn = Yf.fn(path)
        cfg = fn.cfg()
        calls = {c.bb: c for c in fn.calls()}
        m = {}
        for l in F.switch_literals(fn):
            if l.bb != 0 or isinstance(l.polarity, bool) or isinstance(l.polarity, tuple):
                continue
            try:
                var = names[int(l.polarity)]
            except (ValueError, IndexError, TypeError):
                var = str(l.polarity)
            # first YOutput constructor on the arm
            seen, todo = set(), [l.to]
            ctor = None
            while todo and ctor is None:
                x = todo.pop(0)
                if x in seen:
                    continue
                seen.add(x)
                c = calls.get(x)
                if c is not None and (re.search(r"YOutput::(null|undefined)$", c.name) or re.search(r"^<yffi::YOutput as std::convert::From<.*>>::from$", c.name)):
                    ctor = c
                    break
                todo.extend(cfg.succ[x])
            m[var] = ctor
        maps[path] = m
        for var, pat in want.items():
            c = m.get(var)
            ok = c is not None and re.search(pat, c.name) is not None
            R.ob("C19.k", fn, "arm:" + var, ok, "Any::%s -> %s" % (var, c.name.rsplit("::", 2)[-2:] if c else None) if ok else
                 "Any::%s is converted by %s — expected %s: the C cell carries the tag of another kind" % (var, c.name if c else "nothing", pat.strip("$")), c.loc() if c else None)
    a, b = list(maps.values())
    R.floor("C19.k", "arms of the owned conversion", len(a), 9)
    R.floor("C19.k", "arms of the borrowed conversion", len(b), 9)


# C struct -> {tag constant: {field: source}} ; source = "<Variant>.<n>" of the converted Rust enum | "null" | None (not checked)
EVENT_CELLS = {
    "yffi::YEventKeyChange": ("yffi::YEventKeyChange::new", {
        "Y_EVENT_KEY_CHANGE_ADD": {"old_value": "null", "new_value": "Inserted.0"},
        "Y_EVENT_KEY_CHANGE_UPDATE": {"old_value": "Updated.0", "new_value": "Updated.1"},   # EntryChange::Updated(old, new), see C11.f
        "Y_EVENT_KEY_CHANGE_DELETE": {"old_value": "Removed.0", "new_value": "null"},
    }),
    "yffi::YEventChange": ("<yffi::YEventChange as std::convert::From<&yrs::types::Change>>::from", {
        "Y_EVENT_CHANGE_ADD": {"len": "Added.0", "values": "Added.0"},
        "Y_EVENT_CHANGE_DELETE": {"len": "Removed.0", "values": "null"},
        "Y_EVENT_CHANGE_RETAIN": {"len": "Retain.0", "values": "null"},
    }),
}


def rule_l(R, ctx, rid="C19.l"):
    F_ = ctx.yffi
    R.rule(rid, "R-TABLE event cells: each C event struct is filled, per tag, from the matching variant of the Rust change it converts "
                "and from the matching POSITION of that variant — a key change tagged UPDATE takes old_value from "
                "EntryChange::Updated.0 (the previous value, C11.f) and new_value from Updated.1, ADD has no old value, DELETE no new "
                "one; a sequence change tagged ADD / DELETE / RETAIN takes its length and values from Added / Removed / Retain")
    n = 0
    for adt, (path, table) in sorted(EVENT_CELLS.items()):
        fn = F_.fn(path)
        v = FnView(fn)
        seen = set()
        for i, j, st in fn.stmts():
            ag = st["rv"].get("agg") if isinstance(st["rv"], dict) else None
            if not ag or str(ag.get("adt", "")) != adt:
                continue
            t = simp_deep(v.terms.rvalue(st["rv"], 14))
            names = list(t[3]) if len(t) > 3 else list(ag.get("fields", []))
            vals = dict(zip(names, t[2]))
            tag = simp_deep(vals.get("tag")) if "tag" in vals else None
            tname = str(tag[2]).rsplit("::", 1)[-1] if tag and tag[0] == "const" and len(tag) > 2 and tag[2] else None
            if tname not in table:
                R.ob(rid, fn, "tag@bb%d" % i, False, "struct built with a tag the table does not know: %s" % (sshow(tag) if tag else None))
                continue
            seen.add(tname)
            for field, want in sorted(table[tname].items()):
                n += 1
                val = simp_deep(vals.get(field))
                srcs = sorted({"%s" % x[1].rsplit("::", 1)[-1] for x in walk(val) if isinstance(x, tuple) and x and x[0] == "field"
                               and re.search(r"::(Inserted|Updated|Removed|Added|Retain)\.\d+$", x[1])})
                is_null = val[0] == "call" and re.search(r"ptr::null(_mut)?$", val[1]) is not None
                ok = (want == "null" and is_null and not srcs) or (want != "null" and srcs == [want])
                R.ob(rid, fn, "%s:%s" % (tname, field), ok, "%s <- %s" % (field, "null" if is_null else srcs) if ok else
                     "%s of a %s cell is filled from %s — expected %s" % (field, tname, "null" if is_null else (srcs or sshow(val)), want))
        for tname in sorted(set(table) - seen):
            R.ob(rid, fn, "tag:" + tname, False, "no struct with tag %s is built" % tname)
    R.floor(rid, "event cell fields checked", n, 10)
    # text deltas: each kind of op is converted by the constructor of its own kind, from its own payload
    want = {"insert": "Inserted", "retain": "Retain", "delete": "Deleted"}
    m = 0
    for root, css in sorted(callers_of(F_, "yffi::YDeltaOut::insert", "yffi::YDeltaOut::retain", "yffi::YDeltaOut::delete").items()):
        for cs in css:
            fn = cs.fn
            if not re.search(r"YDeltaOut as std::convert::From<&yrs::types::Delta", fn.path):
                continue
            v = FnView(fn)
            kind = cs.name.rsplit("::", 1)[-1]
            srcs = set()
            for i in range(len(cs.args)):
                for x in walk(simp_deep(v.arg(cs, i, 10))):
                    if isinstance(x, tuple) and x and x[0] == "field":
                        mm = re.search(r"::Delta::(Inserted|Deleted|Retain)\.\d+$", x[1])
                        if mm:
                            srcs.add(mm.group(1))
            m += 1
            R.ob(rid, fn, "delta:" + kind, srcs == {want[kind]}, "YDeltaOut::%s from Delta::%s" % (kind, sorted(srcs)) if srcs == {want[kind]} else
                 "YDeltaOut::%s is fed from Delta::%s — expected %s" % (kind, sorted(srcs), want[kind]), cs.loc())
    R.floor(rid, "delta op conversions", m, 3)


def check(ctx, R):
    holder = {}
    R.run("C19.a", lambda R, c: holder.setdefault("h", rule_a(R, c)), ctx)
    R.run("C19.b", rule_b, ctx)
    R.run("C19.c", rule_c, ctx)
    R.run("C19.e", rule_e, ctx)
    R.run("C19.f", rule_f, ctx)
    R.run("C19.g", rule_g, ctx)
    R.run("C19.h", rule_h, ctx)
    R.run("C19.i", rule_i, ctx)
    R.run("C19.j", rule_j, ctx)
    R.run("C19.k", rule_k, ctx)
    R.run("C19.l", rule_l, ctx)
    R.run("C19.m", rule_m, ctx)
    R.run("C19.n", rule_n, ctx)
    if "h" in holder:
        R.run("C19.d", rule_d, ctx, holder["h"])
    return {}


if __name__ == "__main__":
    # regenerate the frozen table from the current facts (development helper; never run by a check)
    import sys
    sys.path.insert(0, os.path.dirname(HERE))
    import check as C
    d = C.ensure_facts(["default"])
    c = C.Ctx(d, "quick", ["default"])
    tab = {name: api_set(c.yffi, fn) for name, fn in sorted(exported(c.yffi).items())}
    json.dump({"_comment": "wrapper -> resolved yrs API items it calls (plumbing dropped); generated from the pinned tree + fix commits, reviewed",
               "wrappers": tab}, open(TABLE, "w"), indent=0)
    print("wrote", TABLE, len(tab))


UNDO_META_OBSERVERS = ("yffi::yundo_manager_observe_added", "yffi::yundo_manager_observe_popped")


def rule_m(R, ctx, rid="C19.m"):
    """The metadata a C undo observer assigns is what the stack item keeps."""
    Y = ctx.yffi
    R.rule(rid, "R-ORDER yundo_manager_observe_added / _popped: the closure hands the C callback a YUndoEvent built from the Rust event, "
                "and stores into the Rust event's meta cell (Event::meta(e), AtomicPtr::store) the `meta` field of that same "
                "YUndoEvent read AFTER the callback returned — the read's block is strictly dominated by the indirect call — so what "
                "the callback assigns to event->meta is what observe_popped later hands back, as with the Rust API")
    n = 0
    for path in UNDO_META_OBSERVERS:
        outer = Y.fn(path)
        cl = [f for f in Y.with_closures(outer) if f.kind == "closure"]
        if len(cl) != 1:
            R.ob(rid, outer, "closure", False, "%d closures (expected one)" % len(cl))
            continue
        f = cl[0]
        v = FnView(f)
        cfg = f.cfg()
        cbs = [c for c in f.calls() if c.name == "<indirect>"]
        stores = [c for c in f.calls() if re.search(r"atomic::Atomic(Ptr)?::store$", F.strip_generics(c.name))]
        if len(cbs) != 1 or len(stores) != 1:
            R.ob(rid, outer, "shape", False, "%d callback calls, %d stores into the meta cell (expected one each)" % (len(cbs), len(stores)))
            continue
        n += 1
        cb, stc = cbs[0], stores[0]
        bad = []
        ev = sshow(simp_deep(v.arg(cb, 1, 8)), 6)
        if "YUndoEvent::new(e)" not in ev:
            bad.append("the callback receives %s, not the YUndoEvent built from the event" % ev)
        cell = sshow(simp_deep(v.arg(stc, 0, 8)), 6)
        val = sshow(simp_deep(v.arg(stc, 1, 8)), 6)
        if cell != "Event::meta(e)":
            bad.append("the store goes to %s" % cell)
        if val != "YUndoEvent::new(e).meta":
            bad.append("the stored value is %s" % val)
        reads = [(bb, st) for bb, i, st in f.stmts()
                 if isinstance(st["rv"], dict) and "use" in st["rv"] and "yffi::YUndoEvent.meta" in str(st["rv"]["use"])]
        if not reads:
            bad.append("no read of YUndoEvent.meta")
        for bb, st in reads:
            if bb == cb.bb or not cfg.dominates(cb.bb, bb):
                bad.append("YUndoEvent.meta is read (line %s) before the callback has run: what the callback assigns is dropped" % st.get("line"))
        if not cfg.dominates(cb.bb, stc.bb):
            bad.append("the store does not follow the callback")
        R.ob(rid, outer, "meta-after-callback", not bad, "meta is read after the callback and stored into Event::meta(e)" if not bad else "; ".join(bad), stc.loc())
    R.floor(rid, "undo observers with a metadata hand-back", n, 2)


def _S(p):
    return "Result::unwrap(CStr::to_str(CStr::from_ptr(%s)))" % p


def _B(p):
    return "\\1::from_raw_branch(%s)" % p


_ATTRS = ("has", "<*const T>::read(attrs)")
_CONTENT = "<*const T>::read(content)"
_W = ("has", "as_mut(txn)")
_R = ("has", "as_ref(txn)")

FFI_POSITIONAL = [
    # wrapper, worker, {slot: the caller's own parameter}
    ("yffi::ytext_insert", r"yrs::Text::insert$", {0: _B("txt"), 1: _W, 2: "index", 3: _S("value")}, None),
    ("yffi::ytext_insert", r"yrs::Text::insert_with_attributes$", {0: _B("txt"), 1: _W, 2: "index", 3: _S("value"), 4: _ATTRS}, None),
    ("yffi::ytext_remove_range", r"yrs::Text::remove_range$", {0: _B("txt"), 1: _W, 2: "index", 3: "length"}, None),
    ("yffi::ytext_format", r"yrs::Text::format$", {0: _B("txt"), 1: _W, 2: "index", 3: "len", 4: _ATTRS}, None),
    ("yffi::ytext_insert_embed", r"yrs::Text::insert_embed$", {0: _B("txt"), 1: _W, 2: "index", 3: _CONTENT}, None),
    ("yffi::ytext_insert_embed", r"yrs::Text::insert_embed_with_attributes$", {0: _B("txt"), 1: _W, 2: "index", 3: _CONTENT, 4: _ATTRS}, None),
    ("yffi::yxmltext_insert", r"yrs::Text::insert$", {0: _B("txt"), 1: _W, 2: "index", 3: _S("str")}, None),
    ("yffi::yxmltext_insert", r"yrs::Text::insert_with_attributes$", {0: _B("txt"), 1: _W, 2: "index", 3: _S("str"), 4: _ATTRS}, None),
    ("yffi::yxmltext_remove_range", r"yrs::Text::remove_range$", {0: _B("txt"), 1: _W, 2: "idx", 3: "len"}, None),
    ("yffi::yxmltext_format", r"yrs::Text::format$", {0: _B("txt"), 1: _W, 2: "index", 3: "len", 4: _ATTRS}, None),
    ("yffi::yxmltext_insert_embed", r"yrs::Text::insert_embed$", {0: _B("txt"), 1: _W, 2: "index", 3: _CONTENT}, None),
    ("yffi::yxmltext_insert_embed", r"yrs::Text::insert_embed_with_attributes$", {0: _B("txt"), 1: _W, 2: "index", 3: _CONTENT, 4: _ATTRS}, None),
    ("yffi::yarray_remove_range", r"yrs::Array::remove_range$", {0: _B("array"), 1: _W, 2: "index", 3: "len"}, None),
    ("yffi::yarray_get", r"yrs::Array::get$", {0: _B("array"), 1: _R, 2: "index"}, None),
    ("yffi::yarray_get_json", r"yrs::Array::get$", {0: _B("array"), 1: _R, 2: "index"}, None),
    ("yffi::yxmlelem_remove_range", r"yrs::XmlFragment::remove_range$", {0: _B("xml"), 1: _W, 2: "index", 3: "len"}, None),
    ("yffi::yxmlelem_get", r"yrs::XmlFragment::get$", {0: _B("xml"), 1: _R, 2: "index"}, None),
    ("yffi::yxmlelem_insert_elem", r"yrs::XmlFragment::insert$", {0: _B("xml"), 1: _W, 2: "index", 3: ("has", "CStr::from_ptr(name)")}, None),
    ("yffi::yxmlelem_insert_text", r"yrs::XmlFragment::insert$", {0: _B("xml"), 1: _W, 2: "index"}, None),
    ("yffi::ymap_remove", r"yrs::Map::remove$", {0: _B("map"), 1: _W, 2: _S("key")}, None),
    ("yffi::ymap_get", r"yrs::Map::get$", {0: _B("map"), 1: _R, 2: _S("key")}, None),
    ("yffi::yxmlelem_get_attr", r"yrs::Xml::get_attribute$", {0: _B("xml"), 1: _R, 2: _S("attr_name")}, None),
    ("yffi::yxmlelem_remove_attr", r"yrs::Xml::remove_attribute$", {0: _B("xml"), 1: _W, 2: _S("attr_name")}, None),
    ("yffi::yxmltext_get_attr", r"yrs::Xml::get_attribute$", {0: _B("txt"), 1: _R, 2: _S("attr_name")}, None),
    ("yffi::yxmltext_remove_attr", r"yrs::Xml::remove_attribute$", {0: _B("txt"), 1: _W, 2: _S("attr_name")}, None),
]


def rule_n(R, ctx, rid="C19.n"):
    """The positional / keyed C wrappers hand the caller's own index, length and key on."""
    from . import shared as _sh
    R.rule(rid, "R-PROV (pre-emptive, after round 12) the positional and keyed wrappers of the C API — insert / remove_range / format / "
                "insert_embed of YText and YXmlText, remove_range / get of YArray and of XML children, insert of XML children, get / remove "
                "of YMap entries and of XML attributes — reach their yrs worker exactly once with the caller's own branch, transaction, "
                "index, length, key and payload each in its own slot (canonical MIR values; named temporaries do not matter). C19.b says "
                "which worker a wrapper reaches; this says with what")
    _sh._delegations(R, ctx.yffi, rid, FFI_POSITIONAL, len(FFI_POSITIONAL))
