"""C01 — strong eventual consistency: structural necessary conditions.

Decides: dedupe-before-integrate (a), idempotent deletion (b), integration reads replicated
state only (c), tie-break operands of the conflict scan (d). Does not decide convergence.
"""
from ylib import facts as F
from .common import *  # noqa
from . import shared

TXN = "yrs::transaction::TransactionMut"


def rule_a(R, ctx):
    Y = ctx.yrs
    fn = Y.fn(TXN + "::apply_update")
    R.rule("C01.a", "R-ORDER+R-PROV: in TransactionMut::apply_update every call of Update::integrate is dominated by "
                    "BlockSet::exclude(&mut update.blocks, k) with k = BlockStore::known_state(.., &update.blocks) of the same update")
    v = FnView(fn)
    integ = fn.calls_to("yrs::update::Update::integrate")
    R.floor("C01.a", "Update::integrate call in apply_update", len(integ), 1)
    excl = fn.calls_to("yrs::update::BlockSet::exclude")
    cfg = fn.cfg()
    for cs, site in ordinal_sites(integ):
        doms = [e for e in excl if cfg.dominates(e.bb, cs.bb) and e.bb != cs.bb]
        ok = False
        why = "no dominating BlockSet::exclude"
        for e in doms:
            recv = simp_deep(v.arg(e, 0))
            k = simp_deep(v.arg(e, 1))
            upd = simp_deep(v.arg(cs, 0))
            # receiver must be update.blocks of the integrated update; k from known_state(.., update.blocks)
            same_upd = root_name(recv) is not None and root_name(recv) == root_name(upd) and field_path(recv)[-1:] == ["blocks"]
            ks = [t for t in walk(k) if t[0] == "call" and callee_match(t[1], "yrs::block_store::BlockStore::known_state")]
            k_ok = False
            for kc in ks:
                a1 = simp_deep(kc[2][1])
                if root_name(a1) == root_name(upd) and field_path(a1)[-1:] == ["blocks"]:
                    k_ok = True
            if same_upd and k_ok:
                ok = True
                why = "exclude(%s, %s) dominates integrate(%s)" % (show(recv), show(k), show(upd))
            else:
                why = "dominating exclude has receiver %s / argument %s not tied to the integrated update %s" % (show(recv), show(k), show(upd))
        R.ob("C01.a", fn, site, ok, why, cs.loc())


def rule_b(R, ctx):
    shared.idempotent_delete(R, ctx, "C01.b")


NONDET = (
    "re:^fastrand::", "re:^std::time::", "re:^<.* as yrs::sync::time::Clock>::now$", "yrs::sync::time::Clock::now",
    "yrs::block::ClientID::random", "re:^yrs::doc::uuid_v4", "re:^std::thread::", "re:^std::env::",
    "re:^std::collections::hash_map::RandomState::new$", "re:^std::process::id$",
)

# observer plumbing and user callbacks are outside the integration cone (they cannot change replicated state
# through &TransactionMut without the API — see C11.c)
# frozen exceptions: (function, kind) -> reason
PURE_EXCEPTIONS = {
    ("yrs::doc::DocAddr::new", "ptr2int"): "address of the sub-document handle, used only as the key of the local "
                                            "subdocs added/removed/loaded event bookkeeping (never stored in replicated state)",
}

CONE_STOP = (
    "re:^yrs::observer::", "re:^yrs::branch::Branch::trigger", "re:^yrs::doc::Doc::", "re:^yrs::transact::",
    "re:^<yrs::doc::Doc as yrs::transact::",
)


def integration_cone(Y):
    roots = ["yrs::update::Update::integrate", TXN + "::apply_delete"]
    seen = set()
    order = []
    st = []
    for r in roots:
        Y.fn(r)
        st.append(r)
    parent = {}
    while st:
        p = st.pop()
        if p in seen:
            continue
        seen.add(p)
        fn = Y.fns.get(p)
        if fn is None or not fn.mir:
            continue
        order.append(fn)
        for c in Y.closures.get(p, []):
            if c.path not in seen:
                parent.setdefault(c.path, p)
                st.append(c.path)
        for cs in fn.calls():
            for n in cs.names():
                if any(callee_match(n, s) for s in CONE_STOP):
                    break
                if n in Y.fns and n not in seen:
                    parent.setdefault(n, p)
                    st.append(n)
                    break
    return order, parent


def rule_c(R, ctx):
    Y = ctx.yrs
    R.rule("C01.c", "R-PURE: no function reachable (resolved call graph, observer callbacks excluded) from Update::integrate or "
                    "TransactionMut::apply_delete calls a nondeterminism / local-identity source (RNG, wall clock, random client id, "
                    "thread/env/process ids) or reads Store.client_id / Options.client_id or casts a pointer to an integer")
    cone, parent = integration_cone(Y)
    R.floor("C01.c", "functions in the integration cone", len(cone), 60)
    bad = 0
    for fn in cone:
        R.touch(fn)
        for cs in fn.calls():
            if cs.is_(*NONDET):
                bad += 1
                chain = []
                p = fn.path
                while p is not None and len(chain) < 12:
                    chain.append(p)
                    p = parent.get(p)
                R.ob("C01.c", fn, "call:" + F.strip_generics(cs.name), False,
                     "integration cone reaches nondeterminism source %s via %s" % (cs.name, " <- ".join(chain)), cs.loc())
        # reads of the local client id
        for i, j, s in fn.stmts():
            rv = s["rv"]
            srcs = []
            for k in ("use", "cast"):
                if k in rv:
                    srcs.append(rv[k])
            for k in ("a", "b"):
                if k in rv and isinstance(rv[k], dict):
                    srcs.append(rv[k])
            if "ref" in rv:
                srcs.append({"c": rv["ref"]})
            for op in srcs:
                pl = op.get("c", op.get("m")) if isinstance(op, dict) else None
                if isinstance(pl, dict) and (F.place_has_field(pl, "Store.client_id") or F.place_has_field(pl, "Options.client_id")):
                    bad += 1
                    R.ob("C01.c", fn, "read:client_id", False,
                         "integration cone reads the local client id (%s:%s)" % (fn.file, s["line"]), "%s:%s" % (fn.file, s["line"]))
            if "cast" in rv and rv.get("kind", "").startswith("PointerExposeProvenance"):
                if (fn.path, "ptr2int") in PURE_EXCEPTIONS:
                    R.inventory("C01.c", fn, "ptr2int", "accepted exception: " + PURE_EXCEPTIONS[(fn.path, "ptr2int")],
                                "%s:%s" % (fn.file, s["line"]))
                    continue
                bad += 1
                R.ob("C01.c", fn, "ptr2int", False, "pointer-to-integer cast inside the integration cone",
                     "%s:%s" % (fn.file, s["line"]))
    if bad == 0:
        R.ob("C01.c", "yrs::update::Update::integrate", "cone(%d fns)" % len(cone), True,
             "no nondeterminism / local identity source reachable in %d functions" % len(cone))
    return len(cone)


ORD_OPS = ("Lt", "Le", "Gt", "Ge", "Cmp")
ORD_CALLS = ("re:::lt$", "re:::le$", "re:::gt$", "re:::ge$", "re:::cmp$", "re:::partial_cmp$", "re:::max$", "re:::min$")


def rule_d(R, ctx):
    Y = ctx.yrs
    fn = Y.fn("yrs::block::Item::resolve_conflict")
    R.rule("C01.d", "R-PROV: in Item::resolve_conflict the only ordering comparisons between two items compare "
                    "`<scanned item>.id.client` with `self.id.client` (both replicated); everything else is ==/!= or set membership")
    v = FnView(fn)
    n = 0
    for f in Y.with_closures(fn):
        fv = FnView(f)
        for i, j, s in f.stmts():
            rv = s["rv"]
            if "bin" in rv and rv["bin"] in ORD_OPS:
                n += 1
                a = simp_deep(fv.terms.operand(rv["a"]))
                b = simp_deep(fv.terms.operand(rv["b"]))
                pa, pb = field_path(a), field_path(b)
                ok = pa[-2:] == ["id", "client"] or pa[-3:] == ["id", "client", "0"]
                ok = ok and (pb[-2:] == ["id", "client"] or pb[-3:] == ["id", "client", "0"])
                R.ob("C01.d", f, "cmp:%s#%d" % (rv["bin"], n), ok,
                     "ordering comparison %s %s %s" % (show(a), rv["bin"], show(b)), "%s:%s" % (f.file, s["line"]))
        for cs in f.calls():
            if cs.is_(*ORD_CALLS):
                n += 1
                a = simp_deep(fv.arg(cs, 0))
                b = simp_deep(fv.arg(cs, 1)) if len(cs.args) > 1 else None
                pa = field_path(a)
                pb = field_path(b) if b else []
                ok = pa[-2:] == ["id", "client"] and pb[-2:] == ["id", "client"]
                R.ob("C01.d", f, "cmpcall:%s#%d" % (F.strip_generics(cs.name), n), ok,
                     "ordering comparison %s(%s, %s)" % (cs.name, show(a), show(b) if b else ""), cs.loc())
    R.floor("C01.d", "ordering comparisons in resolve_conflict", n, 1)
    # the scan must be wired: integrate_item calls resolve_conflict under detect_conflict
    ii = Y.fn(TXN + "::integrate_item")
    iv = FnView(ii)
    rc = ii.calls_to("yrs::block::Item::resolve_conflict")
    R.floor("C01.d", "resolve_conflict call in integrate_item", len(rc), 1)
    for cs, site in ordinal_sites(rc):
        ok = iv.has_guard(cs.bb, lambda l: lit_call(l, "yrs::block::Item::detect_conflict", True))
        dead = cs.bb not in ii.cfg().reach
        R.ob("C01.d", ii, site, ok and not dead,
             "resolve_conflict is reached exactly under detect_conflict()==true: guards=%s" % iv.guard_descs(cs.bb), cs.loc())


def rule_e(R, ctx):
    """inventory: iteration over unordered containers inside the integration cone."""
    Y = ctx.yrs
    cone, _ = integration_cone(Y)
    pats = ("re:^std::collections::HashMap::(iter|iter_mut|values|values_mut|keys|drain|into_iter)$",
            "re:^std::collections::HashSet::(iter|drain|into_iter)$",
            "re:^<&?(mut )?std::collections::Hash(Map|Set)<.*> as std::iter::IntoIterator>::into_iter$",
            "re:^<std::collections::Hash(Map|Set)<.*> as std::iter::IntoIterator>::into_iter$")
    for fn in cone:
        for cs in fn.calls_to(*pats):
            R.inventory("C01.e", fn, "unordered-iter:" + F.strip_generics(cs.name),
                        "iteration over an unordered container inside the integration cone (order independence of the sink is a value question)", cs.loc())


def check(ctx, R):
    R.run("C01.a", rule_a, ctx)
    R.run("C01.b", rule_b, ctx)
    R.run("C01.c", rule_c, ctx)
    R.run("C01.d", rule_d, ctx)
    R.run("C01.e", rule_e, ctx)
    return {}
