"""C01 — strong eventual consistency: structural necessary conditions.

Decides: dedupe-before-integrate (a), idempotent deletion (b), integration reads replicated
state only (c), tie-break operands of the conflict scan (d). Does not decide convergence.
"""
import re
from ylib import facts as F
from .common import *  # noqa
from . import shared

TXN = "yrs::transaction::TransactionMut"


def rule_a(R, ctx):
    Y = ctx.yrs
    fn = Y.fn(TXN + "::apply_update")
    R.rule("C01.a", "R-ORDER+R-PROV: in TransactionMut::apply_update every call of Update::integrate is dominated by "
                    "BlockSet::exclude(&mut update.blocks, k) with k = BlockStore::known_state(.., &update.blocks) of the same update")
    v = FnView(fn)
    integ = fn.calls_to("yrs::update::Update::integrate")
    R.floor("C01.a", "Update::integrate call in apply_update", len(integ), 1)
    excl = fn.calls_to("yrs::update::BlockSet::exclude")
    cfg = fn.cfg()
    for cs, site in ordinal_sites(integ):
        doms = [e for e in excl if cfg.dominates(e.bb, cs.bb) and e.bb != cs.bb]
        ok = False
        why = "no dominating BlockSet::exclude"
        for e in doms:
            recv = simp_deep(v.arg(e, 0))
            k = simp_deep(v.arg(e, 1))
            upd = simp_deep(v.arg(cs, 0))
            # receiver must be update.blocks of the integrated update; k from known_state(.., update.blocks)
            same_upd = root_name(recv) is not None and root_name(recv) == root_name(upd) and field_path(recv)[-1:] == ["blocks"]
            ks = [t for t in walk(k) if t[0] == "call" and callee_match(t[1], "yrs::block_store::BlockStore::known_state")]
            k_ok = False
            for kc in ks:
                a1 = simp_deep(kc[2][1])
                if root_name(a1) == root_name(upd) and field_path(a1)[-1:] == ["blocks"]:
                    k_ok = True
            if same_upd and k_ok:
                ok = True
                why = "exclude(%s, %s) dominates integrate(%s)" % (show(recv), show(k), show(upd))
            else:
                why = "dominating exclude has receiver %s / argument %s not tied to the integrated update %s" % (show(recv), show(k), show(upd))
        R.ob("C01.a", fn, site, ok, why, cs.loc())


def rule_b(R, ctx):
    shared.idempotent_delete(R, ctx, "C01.b")


NONDET = (
    "re:^fastrand::", "re:^std::time::", "re:^<.* as yrs::sync::time::Clock>::now$", "yrs::sync::time::Clock::now",
    "yrs::block::ClientID::random", "re:^yrs::doc::uuid_v4", "re:^std::thread::", "re:^std::env::",
    "re:^std::collections::hash_map::RandomState::new$", "re:^std::process::id$",
)

# observer plumbing and user callbacks are outside the integration cone (they cannot change replicated state
# through &TransactionMut without the API — see C11.c)
# frozen exceptions: (function, kind) -> reason
PURE_EXCEPTIONS = {
    ("yrs::doc::DocAddr::new", "ptr2int"): "address of the sub-document handle, used only as the key of the local "
                                            "subdocs added/removed/loaded event bookkeeping (never stored in replicated state)",
}

CONE_STOP = (
    "re:^yrs::observer::", "re:^yrs::branch::Branch::trigger", "re:^yrs::doc::Doc::", "re:^yrs::transact::",
    "re:^<yrs::doc::Doc as yrs::transact::",
)


def integration_cone(Y):
    roots = ["yrs::update::Update::integrate", TXN + "::apply_delete"]
    seen = set()
    order = []
    st = []
    for r in roots:
        Y.fn(r)
        st.append(r)
    parent = {}
    while st:
        p = st.pop()
        if p in seen:
            continue
        seen.add(p)
        fn = Y.fns.get(p)
        if fn is None or not fn.mir:
            continue
        order.append(fn)
        for c in Y.closures.get(p, []):
            if c.path not in seen:
                parent.setdefault(c.path, p)
                st.append(c.path)
        for cs in fn.calls():
            for n in cs.names():
                if any(callee_match(n, s) for s in CONE_STOP):
                    break
                if n in Y.fns and n not in seen:
                    parent.setdefault(n, p)
                    st.append(n)
                    break
    return order, parent


def rule_c(R, ctx):
    Y = ctx.yrs
    R.rule("C01.c", "R-PURE: no function reachable (resolved call graph, observer callbacks excluded) from Update::integrate or "
                    "TransactionMut::apply_delete calls a nondeterminism / local-identity source (RNG, wall clock, random client id, "
                    "thread/env/process ids) or reads Store.client_id / Options.client_id or casts a pointer to an integer")
    cone, parent = integration_cone(Y)
    R.floor("C01.c", "functions in the integration cone", len(cone), 60)
    bad = 0
    for fn in cone:
        R.touch(fn)
        for cs in fn.calls():
            if cs.is_(*NONDET):
                bad += 1
                chain = []
                p = fn.path
                while p is not None and len(chain) < 12:
                    chain.append(p)
                    p = parent.get(p)
                R.ob("C01.c", fn, "call:" + F.strip_generics(cs.name), False,
                     "integration cone reaches nondeterminism source %s via %s" % (cs.name, " <- ".join(chain)), cs.loc())
        # reads of the local client id
        for i, j, s in fn.stmts():
            rv = s["rv"]
            srcs = []
            for k in ("use", "cast"):
                if k in rv:
                    srcs.append(rv[k])
            for k in ("a", "b"):
                if k in rv and isinstance(rv[k], dict):
                    srcs.append(rv[k])
            if "ref" in rv:
                srcs.append({"c": rv["ref"]})
            for op in srcs:
                pl = op.get("c", op.get("m")) if isinstance(op, dict) else None
                if isinstance(pl, dict) and (F.place_has_field(pl, "Store.client_id") or F.place_has_field(pl, "Options.client_id")):
                    bad += 1
                    R.ob("C01.c", fn, "read:client_id", False,
                         "integration cone reads the local client id (%s:%s)" % (fn.file, s["line"]), "%s:%s" % (fn.file, s["line"]))
            if "cast" in rv and rv.get("kind", "").startswith("PointerExposeProvenance"):
                if (fn.path, "ptr2int") in PURE_EXCEPTIONS:
                    R.inventory("C01.c", fn, "ptr2int", "accepted exception: " + PURE_EXCEPTIONS[(fn.path, "ptr2int")],
                                "%s:%s" % (fn.file, s["line"]))
                    continue
                bad += 1
                R.ob("C01.c", fn, "ptr2int", False, "pointer-to-integer cast inside the integration cone",
                     "%s:%s" % (fn.file, s["line"]))
    if bad == 0:
        R.ob("C01.c", "yrs::update::Update::integrate", "cone(%d fns)" % len(cone), True,
             "no nondeterminism / local identity source reachable in %d functions" % len(cone))
    return len(cone)


ORD_OPS = ("Lt", "Le", "Gt", "Ge", "Cmp")
ORD_CALLS = ("re:::lt$", "re:::le$", "re:::gt$", "re:::ge$", "re:::cmp$", "re:::partial_cmp$", "re:::max$", "re:::min$")


def rule_d(R, ctx):
    Y = ctx.yrs
    fn = Y.fn("yrs::block::Item::resolve_conflict")
    R.rule("C01.d", "R-PROV: in Item::resolve_conflict the only ordering comparisons between two items compare "
                    "`<scanned item>.id.client` with `self.id.client` (both replicated); everything else is ==/!= or set membership")
    v = FnView(fn)
    n = 0
    for f in Y.with_closures(fn):
        fv = FnView(f)
        for i, j, s in f.stmts():
            rv = s["rv"]
            if "bin" in rv and rv["bin"] in ORD_OPS:
                n += 1
                a = simp_deep(fv.terms.operand(rv["a"]))
                b = simp_deep(fv.terms.operand(rv["b"]))
                pa, pb = field_path(a), field_path(b)
                ok = pa[-2:] == ["id", "client"] or pa[-3:] == ["id", "client", "0"]
                ok = ok and (pb[-2:] == ["id", "client"] or pb[-3:] == ["id", "client", "0"])
                R.ob("C01.d", f, "cmp:%s#%d" % (rv["bin"], n), ok,
                     "ordering comparison %s %s %s" % (show(a), rv["bin"], show(b)), "%s:%s" % (f.file, s["line"]))
        for cs in f.calls():
            if cs.is_(*ORD_CALLS):
                n += 1
                a = simp_deep(fv.arg(cs, 0))
                b = simp_deep(fv.arg(cs, 1)) if len(cs.args) > 1 else None
                pa = field_path(a)
                pb = field_path(b) if b else []
                ok = pa[-2:] == ["id", "client"] and pb[-2:] == ["id", "client"]
                R.ob("C01.d", f, "cmpcall:%s#%d" % (F.strip_generics(cs.name), n), ok,
                     "ordering comparison %s(%s, %s)" % (cs.name, show(a), show(b) if b else ""), cs.loc())
    R.floor("C01.d", "ordering comparisons in resolve_conflict", n, 1)
    # the scan must be wired: integrate_item calls resolve_conflict under detect_conflict
    ii = Y.fn(TXN + "::integrate_item")
    iv = FnView(ii)
    rc = ii.calls_to("yrs::block::Item::resolve_conflict")
    R.floor("C01.d", "resolve_conflict call in integrate_item", len(rc), 1)
    for cs, site in ordinal_sites(rc):
        ok = iv.has_guard(cs.bb, lambda l: lit_call(l, "yrs::block::Item::detect_conflict", True))
        dead = cs.bb not in ii.cfg().reach
        R.ob("C01.d", ii, site, ok and not dead,
             "resolve_conflict is reached exactly under detect_conflict()==true: guards=%s" % iv.guard_descs(cs.bb), cs.loc())


def rule_e(R, ctx):
    """inventory: iteration over unordered containers inside the integration cone."""
    Y = ctx.yrs
    cone, _ = integration_cone(Y)
    pats = ("re:^std::collections::HashMap::(iter|iter_mut|values|values_mut|keys|drain|into_iter)$",
            "re:^std::collections::HashSet::(iter|drain|into_iter)$",
            "re:^<&?(mut )?std::collections::Hash(Map|Set)<.*> as std::iter::IntoIterator>::into_iter$",
            "re:^<std::collections::Hash(Map|Set)<.*> as std::iter::IntoIterator>::into_iter$")
    for fn in cone:
        for cs in fn.calls_to(*pats):
            R.inventory("C01.e", fn, "unordered-iter:" + F.strip_generics(cs.name),
                        "iteration over an unordered container inside the integration cone (order independence of the sink is a value question)", cs.loc())


def rule_f(R, ctx, rid="C01.f"):
    """decision table of the conflict scan."""
    from ylib.formula import Formulas, truth_check, fshow, atoms_of, f_or
    Y = ctx.yrs
    R.rule(rid, "R-GUARD decision table of the YATA conflict scan (Item::resolve_conflict): per scanned item `o`, with "
                "R = (self.right == o), SO = same origin, LT = o.client < self.client, SRO = same right origin, OS = o's origin "
                "resolves, BO / CO = o's origin is in items_before_origin / conflicting_items: "
                "`left := o` and `conflicting.clear()` happen exactly under !R && ((SO && LT) || (!SO && OS && BO && !CO)); the scan "
                "continues exactly under !R && ((SO && (LT || !SRO)) || (!SO && OS && BO)); o is added to both sets exactly under !R. "
                "Compared by truth table with the exact path formulas of one loop round (every replica must take the same decisions)")
    fn = Y.fn("yrs::block::Item::resolve_conflict")
    cfg = fn.cfg()
    fm = Formulas(fn, simp_deep)
    fm.expand = False
    # the two sets: identified by the HashSet::new call that creates them; the one that is cleared is `conflicting`
    new_calls = {cs.bb: cs for cs in fn.calls() if F.strip_generics(cs.name).endswith("HashSet::new")}
    v = FnView(fn)

    def set_of(term):
        for t in walk(term):
            if t[0] == "call" and F.strip_generics(t[1]).endswith("HashSet::new") and len(t) > 3:
                return t[3]
        return None

    clears = [cs for cs in fn.calls() if F.strip_generics(cs.name).endswith("HashSet::clear")]
    R.floor(rid, "clear() calls in resolve_conflict", len(clears), 2)
    conflicting = {set_of(v.arg(cs, 0, 12)) for cs in clears}
    if len(conflicting) != 1 or None in conflicting or len(new_calls) != 2:
        R.ob(rid, fn, "sets", False, "expected two HashSets, one of which (conflicting items) is cleared; found sets %s, cleared %s" %
             (sorted(new_calls), sorted(map(str, conflicting))))
        return
    CONF = conflicting.pop()
    BEFORE = [b for b in new_calls if b != CONF][0]
    fm.keyfn = lambda t: "".join("@set%d" % x[3] for x in walk(t) if x[0] == "call" and len(x) > 3 and F.strip_generics(x[1]).endswith("HashSet::new"))
    # the scan loop: the loop that contains the clear() calls
    back = fm.back_edges()
    loops = []
    for (t, h) in back:
        body = {h, t}
        st = [t]
        while st:
            n = st.pop()
            if n == h:
                continue
            for p in cfg.pred[n]:
                if p not in body:
                    body.add(p)
                    st.append(p)
        if all(cs.bb in body for cs in clears):
            loops.append((len(body), h, t, body))
    if not loops:
        R.ob(rid, fn, "loop", False, "the clear() calls are not inside one loop")
        return
    _, H, TAIL, body = min(loops)

    def is_self(t):
        t = simp_deep(t)
        while t[0] in ("field", "variant", "ref", "deref") and len(t) > 2:
            t = simp_deep(t[2]) if t[0] == "field" or t[0] == "variant" else simp_deep(t[1])
        return t[0] == "param" and t[1] == 1

    def rooted_self(t):
        ps = [x for x in walk(simp_deep(t)) if x[0] == "param"]
        return bool(ps) and all(x[1] == 1 for x in ps) and not [x for x in walk(t) if x[0] == "phi"]

    hs_keys = set(atoms_of(fm.edge_cond(H, [s2 for s2 in fn.succ(H) if s2 in body][0])))

    def classify(k, t):
        if k in hs_keys:
            return "HS"
        t = simp_deep(t) if isinstance(t, tuple) else t
        if not isinstance(t, tuple):
            return None
        if t[0] == "call":
            nm = F.strip_generics(t[1])
            args = t[2]
            if nm.endswith("PartialEq::eq") or nm.endswith("PartialEq::ne") or re.search(r"PartialEq.*::(eq|ne)$", nm):
                neg = "!" if nm.endswith("ne") else ""
                a, b = args[0], args[1]
                for x, y in ((a, b), (b, a)):
                    if term_has_field(x, "Item.right") and rooted_self(x) and not term_has_field(x, "Item.right_origin") and simp_deep(y)[0] == "agg":
                        return neg + "R"
                    if term_has_field(x, "Item.origin") and rooted_self(x) and term_has_field(y, "Item.origin") and not rooted_self(y):
                        return neg + "SO"
                    if term_has_field(x, "Item.right_origin") and rooted_self(x) and term_has_field(y, "Item.right_origin") and not rooted_self(y):
                        return neg + "SRO"
            if re.search(r"PartialOrd(<.*>)?::lt$", t[1]) or nm.endswith("PartialOrd::lt"):
                a, b = args[0], args[1]
                if field_path(simp_deep(a))[-2:] == ["id", "client"] and field_path(simp_deep(b))[-2:] == ["id", "client"] \
                        and not rooted_self(a) and rooted_self(b):
                    return "LT"
            if nm.endswith("HashSet::contains"):
                sid = set_of(args[0])
                if sid == BEFORE:
                    return "BO"
                if sid == CONF:
                    return "CO"
        if k.endswith(" is Some") and term_has_call(t, "re:Option.*::and_then$") and term_has_field(t, "Item.origin"):
            return "OS"
        return None

    def move(n):
        return (not n["R"]) and ((n["SO"] and n["LT"]) or ((not n["SO"]) and n["OS"] and n["BO"] and not n["CO"]))

    def cont(n):
        return (not n["R"]) and ((n["SO"] and (n["LT"] or not n["SRO"])) or ((not n["SO"]) and n["OS"] and n["BO"]))

    NAMES = ("HS", "R", "SO", "LT", "SRO", "OS", "BO", "CO")

    def req(pred):
        def r(named):
            n = {x: named.get(x, False) for x in NAMES}
            if not named.get("HS", True):
                return None
            # atoms the formula does not mention are don't-care only if the predicate does not depend on them
            return bool(pred(n))
        return r

    def compare(site, blocks, pred, what, loc):
        if not blocks:
            R.ob(rid, fn, site, False, "no %s found in the scan loop" % what)
            return
        f = f_or(*[fm.reach_from(H, b) for b in blocks])
        ats = atoms_of(f)
        free = sorted(k for k in ats if classify(k, ats[k]) is None)
        ok, cex, keys = truth_check(f, classify, req(pred), max_atoms=14)
        # every named atom the predicate needs must occur, otherwise `named.get(x, False)` would hide a dropped test
        have = {classify(k, ats[k]).lstrip("!") for k in ats if classify(k, ats[k])}
        from ylib.formula import depends_on
        gone = sorted(depends_on(lambda n: pred({x: n.get(x, False) for x in NAMES}), [x for x in NAMES if x != "HS"]) - have)
        if gone:
            ok = False
            cex = "the decision no longer tests %s" % gone
        R.ob(rid, fn, site, ok and not free,
             "%s: path formula over %s equals the YATA rule" % (what, sorted(have)) if ok and not free else
             "%s deviates from the YATA rule: %s%s; formula = %s" %
             (what, ("counterexample %s" % (cex,)) if not ok else "", (" unrecognised conditions %s" % [x[:80] for x in free]) if free else "",
              fshow(f)[:400]), loc)

    # effects: the local that is stored to self.left after the loop, and its definitions inside the loop
    left_local = None
    left_bbs = []
    for (bi, bj, st) in fn.field_writes("Item.left"):
        if bi in body or not isinstance(st["rv"].get("use"), dict):
            continue
        r = fn.copy_root(st["rv"]["use"])
        if isinstance(r, int):
            left_local = r
    if left_local is not None:
        for d in fn.defs().get(left_local, []):
            if d[1] in body:
                left_bbs.append(d[1])
                t = simp_deep(v.terms.rvalue(d[3]["rv"], 8)) if d[0] == "stmt" else None
                if not (t and t[0] == "agg" and t[1].endswith("Option::Some")):
                    R.ob(rid, fn, "left-value", False, "`left` is assigned something else than Some(<scanned item>) in the scan: %s" % (sshow(t) if t else d[0]))
    if left_local is None or not left_bbs:
        R.ob(rid, fn, "left", False, "no local that is set to Some(o) in the scan and stored to self.left afterwards")
        return
    compare("move-left", left_bbs, move, "`left := Some(o)`", "%s:%s" % (fn.file, fn.line))
    compare("clear-conflicting", [cs.bb for cs in clears], move, "`conflicting_items.clear()`", clears[0].loc())
    compare("continue", [TAIL], cont, "continuing the scan with o.right", "%s:%s" % (fn.file, fn.line))
    ins = [cs for cs in fn.calls() if F.strip_generics(cs.name).endswith("HashSet::insert") and cs.bb in body]
    for sid, nm in ((BEFORE, "items_before_origin"), (CONF, "conflicting_items")):
        bbs = [cs.bb for cs in ins if set_of(v.arg(cs, 0, 12)) == sid]
        compare("insert:" + nm, bbs, lambda n: not n["R"], "`%s.insert(o)`" % nm, "%s:%s" % (fn.file, fn.line))


def check(ctx, R):
    R.run("C01.a", rule_a, ctx)
    R.run("C01.b", rule_b, ctx)
    R.run("C01.c", rule_c, ctx)
    R.run("C01.d", rule_d, ctx)
    R.run("C01.e", rule_e, ctx)
    R.run("C01.f", rule_f, ctx)
    from . import preds
    R.run("C01.p", lambda R, c: preds.rule(R, c, "C01.p", ["detect_conflict", "is_missing", "block_is_deleted", "flags_check"]), ctx)
    from . import c03 as _c03
    R.run("C01.i", lambda R, c: _c03.rule_b(R, c, "C01.i"), ctx)
    from . import c02
    R.run("C01.g", lambda R, c: c02.rule_a(R, c, "C01.g.frontier"), ctx)
    R.run("C01.g", lambda R, c: c02.rule_b2(R, c, "C01.g.missing"), ctx)
    R.run("C01.g", lambda R, c: c02.rule_g(R, c, "C01.g.dependency"), ctx)
    R.run("C01.g", lambda R, c: c02.rule_h(R, c, "C01.g.cached-frontier"), ctx)
    from . import c06
    R.run("C01.h", lambda R, c: c06.rule_g(R, c, "C01.h.first-block"), ctx)
    R.run("C01.h", lambda R, c: c06.rule_h(R, c, "C01.h.offset-arms"), ctx)
    R.run("C01.h", lambda R, c: shared.unapplied_within_range(R, c, "C01.h.stashed-deletes"), ctx)
    return {}
