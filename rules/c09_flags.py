"""R-WIRE (b) flag/field agreement of the item codec: a field is written iff the info bit the reader tests is set.

Writer side (Item::encode, ItemSlice::encode): the exact path formula of every optional write is compared with the
condition under which the corresponding info bit is set (extracted from Item::info and from local `info |= BIT`
statements). Reader side (Update::decode_block): every optional read happens exactly under the test of that bit.
"""
import itertools

from ylib import facts as F
from ylib.formula import Formulas, fshow, atoms_of, evaluate, f_or, f_and, f_not, TRUE, FALSE
from .common import *  # noqa

WRITERS = ("yrs::block::Item::encode", "yrs::slice::ItemSlice::encode")
FLAGS = {"yrs::block::HAS_ORIGIN": "origin", "yrs::block::HAS_RIGHT_ORIGIN": "right_origin", "yrs::block::HAS_PARENT_SUB": "parent_sub"}
ENC = "yrs::updates::encoder::Encoder"
DECO = "yrs::updates::decoder::Decoder"


def canon_atom(key, term):
    """canonical name of an atom: 'F:<field>' for `<item>.<field> is Some`, 'AL'/'AR' for slice adjacency, 'CANT' for the
    cant-copy-parent-info mask test, 'BIT:<name>' for reader flag tests; None = free atom."""
    if term is None:
        return None
    t = term
    if t[0] == "call" and callee_match(t[1], "std::option::Option::is_some") and t[2]:
        fp = field_path(t[2][0])
        if fp and fp[-1] in ("origin", "right_origin", "parent_sub"):
            return "F:" + fp[-1]
    if key.endswith(" is Some"):
        fp = field_path(t)
        if fp and fp[-1] in ("origin", "right_origin", "parent_sub"):
            return "F:" + fp[-1]
    if t[0] == "call" and callee_match(t[1], "yrs::slice::ItemSlice::adjacent_left"):
        return "AL"
    if t[0] == "call" and callee_match(t[1], "yrs::slice::ItemSlice::adjacent_right"):
        return "AR"
    if t[0] == "bin" and t[1] in ("Eq", "Ne"):
        a, b = simp_deep(t[2]), simp_deep(t[3])
        if a[0] == "bin" and a[1] == "BitAnd" and b[0] == "const" and b[1] == 0:
            m = simp_deep(a[3])
            pos = t[1] == "Ne"
            if m[0] == "const":
                name = m[2]
                val = m[1]
                if name in FLAGS:
                    return ("" if pos else "!") + "BIT:" + FLAGS[name]
                if val == 192:
                    return ("!" if pos else "") + "CANT"
            if m[0] == "bin" and m[1] == "BitOr":
                names = {simp(m[2])[2] if simp(m[2])[0] == "const" else None, simp(m[3])[2] if simp(m[3])[0] == "const" else None}
                if names == {"yrs::block::HAS_ORIGIN", "yrs::block::HAS_RIGHT_ORIGIN"}:
                    return ("!" if pos else "") + "CANT"
    return None


def info_flag_table(Y):
    """flag const -> formula (over canonical atoms) under which Item::info sets it."""
    fn = Y.fn("yrs::block::Item::info")
    fm = Formulas(fn, simp_deep)
    tab = {}
    for i, j, s in fn.stmts():
        rv = s["rv"]
        if "use" in rv and isinstance(rv["use"], dict) and rv["use"].get("named") in FLAGS:
            tab[rv["use"]["named"]] = (fm.reach(i), fn)
    return tab


def local_flag_sets(fn, fm):
    """flag const -> formula under which the function ORs it into a local (info |= BIT)."""
    out = {}
    for i, j, s in fn.stmts():
        rv = s["rv"]
        if "bin" in rv and rv["bin"] == "BitOr":
            for side, other in (("a", "b"), ("b", "a")):
                op = rv[side]
                o2 = rv[other]
                if isinstance(op, dict) and op.get("named") in FLAGS and isinstance(o2, dict) and ("c" in o2 or "m" in o2):
                    out[op["named"]] = f_or(out.get(op["named"], FALSE), fm.reach(i))
    return out


def diverge_formula(fn, fm):
    out = FALSE
    for bb, b in enumerate(fn.blocks):
        if b.get("cleanup") or bb not in fn.cfg().reach:
            continue
        t = b["t"]
        if ("call" in t and t.get("target") is None) or "unreachable" in t:
            out = f_or(out, fm.reach(bb))
    return out


def expand_local_variants(fn, fm, f):
    """replace atoms `<local> is Some` where the local has several definitions by the disjunction over its definitions."""
    ats = atoms_of(f)
    return f, ats


def check_equiv(lhs, rhs, diverge, classify):
    """for all assignments: (lhs == rhs) unless the function diverges. Atoms are unified through `classify`."""
    ats = {}
    for f in (lhs, rhs, diverge):
        ats.update(atoms_of(f))
    keys = sorted(ats)
    names = {k: classify(k, ats[k]) for k in keys}
    if len(keys) > 16:
        return False, "too many atoms (%d)" % len(keys)
    for vals in itertools.product([False, True], repeat=len(keys)):
        env = dict(zip(keys, vals))
        named = {}
        ok = True
        for k, v in env.items():
            n = names[k]
            if n is None:
                continue
            neg = n.startswith("!")
            n2 = n[1:] if neg else n
            vv = (not v) if neg else v
            if named.setdefault(n2, vv) != vv:
                ok = False
                break
        if not ok:
            continue
        if evaluate(diverge, env):
            continue
        if evaluate(lhs, env) != evaluate(rhs, env):
            return False, {"assignment": {(names[k] or k): env[k] for k in keys}, "write": evaluate(lhs, env), "flag": evaluate(rhs, env)}
    return True, None


def subst_variant_atoms(fn, fm):
    """teach the formula engine that `<local> is Some` for a local defined in several places is decided per definition."""
    return fm


def rule_flags(R, ctx, rid="C09.flags", only=None):
    Y = ctx.yrs
    R.rule(rid, "R-WIRE flag/field agreement: in Item::encode and ItemSlice::encode the origin id, right-origin id and parent_sub string "
                "are written exactly when the info byte handed to write_info has HAS_ORIGIN / HAS_RIGHT_ORIGIN / HAS_PARENT_SUB set "
                "(bit conditions taken from Item::info and local `info |= BIT`), the parent block exactly when "
                "info & (HAS_ORIGIN|HAS_RIGHT_ORIGIN) == 0; in Update::decode_block each of them is read exactly under the test of that bit")
    base = info_flag_table(Y)
    R.ob(rid, "yrs::block::Item::info", "flag-table", set(base) == set(FLAGS),
         "Item::info sets %s" % {k.rsplit("::", 1)[-1]: fshow(v[0]) for k, v in base.items()})
    if set(base) != set(FLAGS):
        return
    for wpath in WRITERS:
        if only and wpath not in only:
            continue
        fn = Y.fn(wpath)
        v = FnView(fn)
        fm = Formulas(fn, simp_deep)
        fm.expand_variants = True
        div = diverge_formula(fn, fm)
        local_sets = local_flag_sets(fn, fm)
        calls_info = fn.calls_to("yrs::block::Item::info")
        R.ob(rid, fn, "info-source", len(calls_info) == 1 and bool(fn.calls_to("re:Encoder>?::write_info$")),
             "info byte = Item::info() (+ local bits %s), written with write_info" % [k.rsplit("::", 1)[-1] for k in local_sets])
        flagf = {}
        for const, fld in FLAGS.items():
            flagf[fld] = f_or(base[const][0], local_sets.get(const, FALSE))
        sites = {"origin": [], "right_origin": [], "parent_sub": [], "parent": []}
        for cs in fn.calls_to("re:Encoder>?::write_left_id$"):
            a = v.arg(cs, 1)
            if term_has_field(a, "Item.origin") or (root_name(simp_deep(a)) == "origin"):
                sites["origin"].append(cs)
        for cs in fn.calls_to("re:Encoder>?::write_right_id$"):
            sites["right_origin"].append(cs)
        for cs in fn.calls_to("re:Write>?::write_string$", "re:Encoder>?::write_string$"):
            if term_has_field(v.arg(cs, 1), "Item.parent_sub"):
                sites["parent_sub"].append(cs)
        for cs in fn.calls_to("re:Encoder>?::write_parent_info$"):
            sites["parent"].append(cs)
        for fld in ("origin", "right_origin", "parent_sub"):
            css = sites[fld]
            R.ob(rid, fn, "site:" + fld, len(css) == 1, "%d write site(s) for %s" % (len(css), fld), nontrivial=False)
            if len(css) != 1:
                continue
            wf = fm.reach(css[0].bb)
            want = flagf[fld] if fld != "parent_sub" else f_and(("atom", "CANT", None), flagf[fld])
            ok, cex = check_equiv(wf, want, div, lambda k, t: "CANT" if k == "CANT" else canon_atom(k, t))
            R.ob(rid, fn, "write<=>flag:" + fld, ok,
                 ("written iff %s ; bit set iff %s" % (fshow(wf), fshow(want))) if ok else
                 "field written under %s but the info bit is set under %s — counterexample %s" % (fshow(wf), fshow(want), cex), css[0].loc())
        # parent block: all parent_info writes are reached only under CANT, and CANT (without divergence) reaches one of them
        if sites["parent"]:
            wf = f_or(*[fm.reach(c.bb) for c in sites["parent"]])
            ok, cex = check_equiv(wf, ("atom", "CANT", None), div, lambda k, t: "CANT" if k == "CANT" else canon_atom(k, t))
            R.ob(rid, fn, "write<=>mask:parent", ok, ("parent written iff %s" % fshow(wf)) if ok else "parent written under %s, not exactly CANT: %s" % (fshow(wf), cex))
        else:
            R.ob(rid, fn, "write<=>mask:parent", False, "no write_parent_info site found")
    if only:
        return
    # reader
    rd = Y.fn("yrs::update::Update::decode_block")
    rv = FnView(rd)
    fm = Formulas(rd, simp_deep)
    # error returns of `?` are divergence for this purpose: a truncated input ends the parse
    div = FALSE
    reads = {
        "origin": rd.calls_to("re:Decoder>?::read_left_id$"),
        "right_origin": rd.calls_to("re:Decoder>?::read_right_id$"),
        "parent": rd.calls_to("re:Decoder>?::read_parent_info$"),
    }
    def cls(k, t):
        return canon_atom(k, t)
    # origin: the read_left_id site that is *not* under CANT
    for fld, want in (("origin", ("atom", "BIT:origin", None)), ("right_origin", ("atom", "BIT:right_origin", None)), ("parent", ("atom", "CANT", None))):
        css = reads[fld]
        if fld == "origin":
            css = [c for c in css if not any(canon_atom(l.desc, simp_deep(l.term)) in ("CANT",) and l.polarity is True or
                                             (canon_atom(l.desc, simp_deep(l.term)) == "!CANT" and l.polarity is False) for l in rv.guards(c.bb))]
            css = [c for c in css if not rv.has_guard(c.bb, lambda l: lit_mentions_call(l, "re:read_parent_info$"))]
        R.ob(rid, rd, "site:" + fld, len(css) == 1, "%d read site(s) for %s" % (len(css), fld), nontrivial=False)
        if len(css) != 1:
            continue
        rf = _drop_try(fm.reach(css[0].bb))
        ok, cex = check_equiv(rf, want, _other_arms(rf), lambda k, t: want[1] if k == want[1] else cls(k, t))
        R.ob(rid, rd, "read<=>bit:" + fld, ok, ("read iff %s" % fshow(rf)) if ok else "read under %s, expected exactly %s: %s" % (fshow(rf), want[1], cex), css[0].loc())
    # parent_sub: read_string under CANT && BIT:parent_sub
    strs = [c for c in rd.calls_to("re:Read>?::read_string$") if any(True for _ in [0])]
    ps = []
    for c in strs:
        f = _drop_try(fm.reach(c.bb))
        names = {canon_atom(k, t) for k, t in atoms_of(f).items()}
        if "BIT:parent_sub" in {n.lstrip("!") for n in names if n}:
            ps.append((c, f))
    R.ob(rid, rd, "site:parent_sub", len(ps) == 1, "%d read site(s) for parent_sub" % len(ps), nontrivial=False)
    for c, f in ps:
        want = f_and(("atom", "CANT", None), ("atom", "BIT:parent_sub", None))
        ok, cex = check_equiv(f, want, _other_arms(f), lambda k, t: k if k in ("CANT", "BIT:parent_sub") else cls(k, t))
        R.ob(rid, rd, "read<=>bit:parent_sub", ok, ("read iff %s" % fshow(f)) if ok else "read under %s: %s" % (fshow(f), cex), c.loc())


def _other_arms(f):
    """the block is a Skip or GC block (info equals one of the block-kind constants): outside the item arm."""
    out = FALSE
    for k, t in atoms_of(f).items():
        if " == " in k and "read_info" in k and t is not None and not any(x[0] == "bin" for x in walk(t)):
            out = f_or(out, ("atom", k, t))
    return out


def _drop_try(f):
    """remove atoms that only say 'the previous `?` did not fail' (truncated input aborts the parse)."""
    if f[0] == "atom":
        t = f[2]
        if t is not None and t[0] == "call" and t[1].endswith("Try>::branch"):
            return TRUE
        return f
    if f[0] == "not":
        x = _drop_try(f[1])
        return FALSE if (x == TRUE and f[1] != TRUE) else f_not(x)
    if f[0] == "and":
        return f_and(*[_drop_try(x) for x in f[1]])
    if f[0] == "or":
        return f_or(*[_drop_try(x) for x in f[1]])
    return f
