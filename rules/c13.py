"""C13 — snapshots: refusal under GC, slice bounds honoured, (wire clauses shared with C09)."""
from ylib import facts as F
from .common import *  # noqa

WRITE_CALLS = ("re:^<.* as yrs::updates::encoder::Encoder>::write_", "re:^yrs::updates::encoder::Encoder::write_",
               "re:^yrs::encoding::write::Write::write_", "re:^<.* as yrs::encoding::write::Write>::write_")


def rule_a(R, ctx):
    Y = ctx.yrs
    R.rule("C13.a", "R-ORDER+R-OWN refusal under GC: Store::write_blocks_to is called only from Store::encode_state_from_snapshot, where "
                    "it is reachable only when self.skip_gc is true; the other branch returns Err(Error::Gc); the public wrapper "
                    "ReadTxn::encode_state_from_snapshot delegates to it with the caller's snapshot")
    cs = callers_of(Y, "yrs::store::Store::write_blocks_to")
    R.ob("C13.a", "yrs::store::Store::write_blocks_to", "callers", set(cs) == {"yrs::store::Store::encode_state_from_snapshot"},
         "called from %s" % sorted(cs))
    fn = Y.fn("yrs::store::Store::encode_state_from_snapshot")
    v = FnView(fn)
    for c, site in ordinal_sites(fn.calls_to("yrs::store::Store::write_blocks_to")):
        ok = v.has_guard(c.bb, lambda l: simp(l.term)[0] == "field" and simp(l.term)[1].endswith("Store.skip_gc") and l.polarity is True)
        sv = simp_deep(v.arg(c, 1))
        R.ob("C13.a", fn, site, ok and field_path(sv)[-1:] == ["state_map"] and root_name(sv) == "snapshot",
             "guards %s ; sv = %s" % (v.guard_descs(c.bb), show(sv, 4)), c.loc())
    errs = [(i, j, s) for i, j, s in fn.stmts() if s["dst"] == 0 and "agg" in s["rv"] and s["rv"]["agg"].get("variant") == "Err"]
    ok = bool(errs) and all(v.has_guard(i, lambda l: simp(l.term)[0] == "field" and simp(l.term)[1].endswith("Store.skip_gc") and l.polarity is False)
                             for i, j, s in errs)
    gc_err = any("Gc" in sshow(v.terms.rvalue(s["rv"], 6), 6) for i, j, s in errs)
    R.ob("C13.a", fn, "refuses", ok and gc_err, "Err(Error::Gc) is returned exactly when skip_gc is false: %s" % ok)
    enc = [c for c in fn.calls_to("re:Encode>::encode$") if field_path(simp_deep(v.arg(c, 0)))[-1:] == ["delete_set"] and root_name(simp_deep(v.arg(c, 0))) == "snapshot"]
    R.ob("C13.a", fn, "snapshot-delete-set", len(enc) == 1, "snapshot.delete_set.encode(encoder) follows: %d" % len(enc))
    w = Y.fn("yrs::transaction::ReadTxn::encode_state_from_snapshot")
    wv = FnView(w)
    d = w.calls_to("yrs::store::Store::encode_state_from_snapshot")
    ok = len(d) == 1 and simp(wv.arg(d[0], 1))[0] == "param"
    R.ob("C13.a", w, "delegates", ok, "ReadTxn::encode_state_from_snapshot -> Store::encode_state_from_snapshot(snapshot, encoder)")
    ret = wv.terms.local(0, 6)
    R.ob("C13.a", w, "propagates-error", term_has_call(ret, "yrs::store::Store::encode_state_from_snapshot"), "the Result is returned to the caller")


def splittable_variants(Y):
    sp = Y.fn("yrs::block::ItemContent::splice")
    v = FnView(sp)
    out = set()
    for i, j, s in sp.stmts():
        if s["dst"] == 0 and "agg" in s["rv"] and s["rv"]["agg"].get("variant") == "Some":
            for l in v.guards(i):
                t = simp(l.term)
                if t[0] == "param" and isinstance(l.polarity, str):
                    out.add(l.polarity)
    return out


def rule_c(R, ctx, rid="C13.c"):
    Y = ctx.yrs
    fn = Y.fn("yrs::block::ItemContent::encode_slice")
    v = FnView(fn)
    R.rule(rid, "R-PROV every splittable arm of ItemContent::encode_slice honours both bounds on every path: for the content kinds "
                    "ItemContent::splice can split (derived from splice itself), every value handed to the encoder depends on `end`, "
                    "and depends on `start` unless that path is taken only when start == 0")
    split = splittable_variants(Y)
    R.ob(rid, "yrs::block::ItemContent::splice", "splittable-kinds", split >= {"Any", "String", "JSON", "Deleted"},
         "content kinds splice() can split: %s" % sorted(split))
    START, END = 3, 4  # MIR locals of the parameters (self, encoder, start, end)
    names = (fn.local_name(START), fn.local_name(END))
    R.ob(rid, fn, "params", fn.argc() == 4, "encode_slice(self, encoder, %s, %s)" % names, nontrivial=False)

    def mentions(t, local):
        return any(x[0] == "param" and x[1] == local for x in walk(t))

    n = 0
    for cs in fn.calls_to(*WRITE_CALLS):
        g = v.guards(cs.bb)
        variant = None
        for l in g:
            if simp(l.term)[0] == "param" and simp(l.term)[1] == 1 and isinstance(l.polarity, str):
                variant = l.polarity
        if variant not in split:
            continue
        n += 1
        site = "%s:%s" % (variant, F.strip_generics(cs.name).rsplit("::", 1)[-1])
        for k in range(1, len(cs.args)):
            t = v.arg(cs, k)
            alts = flat_defs(fn, cs.args[k], v.terms)
            bad = []
            for at, bbs in alts:
                if not mentions(at, END):
                    bad.append("an alternative of the written value ignores `end`: %s" % sshow(at, 6))
                if not mentions(at, START):
                    zero = any(v.has_guard(bb, lambda l: l.term[0] == "bin" and l.term[1] in ("Ne", "Eq") and
                                       simp(l.term[2])[0] == "param" and simp(l.term[2])[1] == START and
                                       simp(l.term[3])[0] == "const" and simp(l.term[3])[1] == 0 and
                                       l.polarity is (l.term[1] == "Eq")) for bb in bbs)
                    if not zero:
                        bad.append("an alternative ignores `start` on a path not restricted to start == 0: %s" % sshow(at, 6))
            R.ob(rid, fn, site + "#arg%d" % k, not bad, "; ".join(bad) if bad else "written value = %s" % sshow(t, 6), cs.loc())
    R.floor(rid, "encoder writes in splittable arms of encode_slice", n, 6)
    # units: slice bounds are clocks, and the clock unit of string content is the UTF-16 code unit
    for cs in fn.calls_to(*WRITE_CALLS):
        g = v.guards(cs.bb)
        if not any(simp(l.term)[0] == "param" and simp(l.term)[1] == 1 and l.polarity == "String" for l in g):
            continue
        t = v.arg(cs, 1, 24)
        cuts = {"start": False, "end": False}
        other = []
        for x in walk(t):
            if x[0] == "call" and F.strip_generics(x[1]).endswith("split_str") and len(x[2]) == 3:
                kind = simp_deep(x[2][2])
                utf16 = (kind[0] == "agg" and kind[1].endswith("OffsetKind::Utf16")) or (kind[0] == "const" and "Utf16" in str(kind))
                for nm, loc in (("start", START), ("end", END)):
                    if mentions(x[2][1], loc):
                        if utf16:
                            cuts[nm] = True
                        else:
                            other.append("%s cut in %s" % (nm, sshow(kind)))
        R.ob(rid, fn, "String:units", cuts["start"] and cuts["end"] and not other,
             "both bounds of a string slice are applied with split_str(.., OffsetKind::Utf16)" if cuts["start"] and cuts["end"] and not other else
             "a bound of the string slice is not applied in UTF-16 code units (the clock unit): start via split_str/Utf16=%s, end via "
             "split_str/Utf16=%s %s — text with surrogate pairs is cut at the wrong place" % (cuts["start"], cuts["end"], other), cs.loc())


def rule_e(R, ctx):
    import re
    Y = ctx.yrs
    R.rule("C13.e", "R-OWN/R-PROV what a snapshot restore writes: in Store::encode_state_from_snapshot every call that receives the "
                    "encoder is either write_blocks_to(&snapshot.state_map, ..) or snapshot.delete_set.encode(..) — blocks up to the "
                    "snapshot's state vector and the snapshot's own delete set, on every non-error path; the store's current delete "
                    "set (encode_diff, IdSet::from_store) never reaches that encoder: deletions do not advance any clock, so equal "
                    "state vectors do not mean an unchanged document")
    fn = Y.fn("yrs::store::Store::encode_state_from_snapshot")
    v = FnView(fn)
    ENC = None
    for l in range(1, fn.argc() + 1):
        if fn.local_name(l) == "encoder":
            ENC = l
    if ENC is None:
        raise AnchorLost("parameter `encoder` of encode_state_from_snapshot")
    seen = {"blocks": [], "ds": []}
    for cs, site in ordinal_sites([c for c in fn.calls() if any(simp_deep(v.arg(c, i))[0] == "param" and simp_deep(v.arg(c, i))[1] == ENC
                                                              for i in range(len(c.args)))]):
        nm = F.strip_generics(cs.name)
        if nm.endswith("Store::write_blocks_to"):
            sv = v.arg(cs, 1, 10)
            ok = term_has_field(sv, "Snapshot.state_map") and any(x[0] == "param" and fn.local_name(x[1]) == "snapshot" for x in walk(sv))
            seen["blocks"].append(cs)
            R.ob("C13.e", fn, site, ok, "blocks are written up to %s" % sshow(sv, 5), cs.loc())
        elif re.search(r"IdSet as .*Encode>::encode$|IdSet::encode$", nm) or nm.endswith("Encode::encode"):
            recv = v.arg(cs, 0, 10)
            ok = term_has_field(recv, "Snapshot.delete_set") and any(x[0] == "param" and fn.local_name(x[1]) == "snapshot" for x in walk(recv))
            seen["ds"].append(cs)
            R.ob("C13.e", fn, site, ok, "delete set written: %s" % sshow(recv, 5), cs.loc())
        else:
            R.ob("C13.e", fn, site, False, "the encoder is also handed to %s, which is neither write_blocks_to(snapshot.state_map) nor "
                 "snapshot.delete_set.encode: whatever it writes is not derived from the snapshot" % nm, cs.loc())
    cfg = fn.cfg()
    # both writes lie on every path that returns Ok
    oks = [i for i, j, st in fn.stmts() if st["dst"] == 0 and "agg" in st["rv"] and st["rv"]["agg"].get("variant") == "Ok"]
    both = bool(oks) and all(any(cfg.dominates(c.bb, o) for c in seen["blocks"]) and any(cfg.dominates(c.bb, o) for c in seen["ds"]) for o in oks)
    R.ob("C13.e", fn, "both-on-every-ok-path", both, "write_blocks_to and snapshot.delete_set.encode dominate every Ok return: %s" % both)


def rule_k(R, ctx, rid="C13.k"):
    from .accessors import _canon
    Y = ctx.yrs
    R.rule(rid, "R-PROV a destroyed sub-document is replaced by an unloaded instance with the SAME options: in Doc::destroy the options "
                "handed to Doc::subdoc are a clone of the old instance's whole Options value (DocStore::options of the content being "
                "replaced) and the only field written afterwards is should_load — options rebuilt field by field lose whatever the "
                "builder does not mention (collection_id, skip_gc, offset_kind), and a tombstoned sub-document item is encoded with "
                "its current options whenever an older snapshot is restored")
    fn = Y.fn("yrs::doc::Doc::destroy")
    v = FnView(fn)
    sub = fn.calls_to("yrs::doc::Doc::subdoc")
    R.floor(rid, "Doc::subdoc in Doc::destroy", len(sub), 1)
    for cs, site in ordinal_sites(sub):
        a = simp_deep(v.arg(cs, 1, 14))
        whole = a[0] == "call" and F.strip_generics(a[1]).endswith("DocStore::options") and term_has_field(a, "ItemContent::Doc.1")
        R.ob(rid, fn, site + ":options", whole, "options = %s" % _canon(v.arg(cs, 1, 14)) if whole else
             "the new instance's options are %s — not the whole Options value of the instance being replaced" % sshow(a), cs.loc())
    writes = set()
    for i, j, st in fn.stmts():
        d = st["dst"]
        if isinstance(d, dict) and d.get("p") and isinstance(d["p"][-1], str) and "doc::Options." in d["p"][-1]:
            writes.add(d["p"][-1].rsplit(".", 1)[-1])
    R.ob(rid, fn, "fields-overwritten", writes == {"should_load"}, "fields of the copied options written afterwards: %s" % sorted(writes))


def check(ctx, R):
    from . import wire_rules
    R.run("C13.a", rule_a, ctx)
    R.run("C13.b", wire_rules.c13_b, ctx)
    R.run("C13.c", rule_c, ctx)
    R.run("C13.d", wire_rules.c13_d, ctx)
    R.run("C13.e", rule_e, ctx)
    from . import preds
    R.run("C13.p", lambda R, c: preds.rule(R, c, "C13.p", ["is_visible"]), ctx)
    def _answers(R, c):
        R.rule("C13.f", "R-PROV single definition of a snapshot: ReadTxn::snapshot() is Snapshot::new(get_state_vector(blocks), "
                        "IdSet::from_store(blocks)) on every path")
        fn = c.yrs.fn("yrs::transaction::ReadTxn::snapshot")
        single_answer(R, "C13.f", fn, r"Snapshot::new$", "Snapshot::new(state vector, delete set of the store)")
        d = answer_definitions(fn)
        R.ob("C13.f", fn, "parts", all(term_has_call(x, "re:get_state_vector$") and term_has_call(x, "re:from_store$") for x in d),
             "built from get_state_vector and from_store")
    R.run("C13.f", _answers, ctx)
    from . import c04 as _c04
    R.run("C13.g", lambda R, c: _c04.rule_e(R, c, "C13.g"), ctx)
    from . import c16 as _c16, c05 as _c05
    R.run("C13.h", lambda R, c: _c16.rule_e(R, c, "C13.h"), ctx)
    R.run("C13.i", lambda R, c: _c05.rule_e(R, c, "C13.i"), ctx)
    from . import shared as _sh
    R.run("C13.j", lambda R, c: _sh.encoder_sinks(R, c, "C13.j"), ctx)
    R.run("C13.k", rule_k, ctx)
    return {}
