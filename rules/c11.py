"""C11 — change events: dispatch structure only (at most once per transaction, changed-set ownership, path counting)."""
from ylib import facts as F
from .common import *  # noqa

TXN = "yrs::transaction::TransactionMut"


def rule_a(R, ctx):
    Y = ctx.yrs
    R.rule("C11.a", "R-OWN+R-ORDER at most once per transaction: BranchPtr::trigger / trigger_deep are called only from "
                    "TransactionMut::call_observers; there trigger runs once per key of the map `changed` (inside the single loop over "
                    "self.changed.iter(), not nested in another loop over the same map) and trigger_deep once per key of "
                    "`changed_parents`; call_observers is called only from commit, behind the `committed` latch and the non-empty test")
    co = TXN + "::call_observers"
    for callee in ("yrs::branch::BranchPtr::trigger", "yrs::branch::BranchPtr::trigger_deep"):
        cs = callers_of(Y, callee)
        R.ob("C11.a", callee, "callers", set(cs) == {co}, "called from %s" % sorted(cs))
    fn = Y.fn(co)
    v = FnView(fn)
    for callee, keymap in (("yrs::branch::BranchPtr::trigger", "TransactionMut.changed"), ("yrs::branch::BranchPtr::trigger_deep", None)):
        sites = fn.calls_to(callee)
        R.ob("C11.a", fn, "single-site:" + callee.rsplit("::", 1)[-1], len(sites) == 1, "%d call site(s)" % len(sites))
        for cs in sites:
            g = v.guards(cs.bb)
            loops = [l for l in g if term_has_call(l.term, "re:Iterator>::next$") and l.polarity == "Some"]
            iters = [l for l in loops if term_has_call(l.term, "re:^std::collections::HashMap::iter$")]
            ok = len(loops) == 1 and len(iters) == 1
            if keymap:
                ok = ok and term_has_field(iters[0].term, keymap) if iters else False
            R.ob("C11.a", fn, "once-per-key:" + callee.rsplit("::", 1)[-1], ok,
                 "enclosing loops: %s" % [l.desc for l in loops], cs.loc())
    cm = callers_of(Y, co)
    R.ob("C11.a", co, "callers", set(cm) == {TXN + "::commit"}, "called from %s" % sorted(cm))
    commit = Y.fn(TXN + "::commit")
    cv = FnView(commit)
    for cs, site in ordinal_sites(commit.calls_to(co)):
        latch = cv.has_guard(cs.bb, lambda l: simp(l.term)[0] == "field" and simp(l.term)[1].endswith("TransactionMut.committed") and l.polarity is False)
        R.ob("C11.a", commit, site, latch and not commit.cfg().in_loop(cs.bb), "behind the committed latch, not in a loop: %s" % latch, cs.loc())
    # commit is idempotent through Drop as well
    dr = Y.fn("<yrs::transaction::TransactionMut as std::ops::Drop>::drop")
    R.ob("C11.a", dr, "drop-commits", len(dr.calls_to(TXN + "::commit")) == 1, "Drop calls commit() (latched)")


def rule_b(R, ctx):
    Y = ctx.yrs
    R.rule("C11.b", "R-OWN: TransactionMut.changed is mutated only by add_changed_type (insert) and TransactionMut::delete (removal of a "
                    "deleted nested type); add_changed_type records a type only if it existed before the transaction and is not deleted")
    owners = {TXN + "::add_changed_type": "records a touched type", TXN + "::delete": "drops the entry of a deleted nested type",
              TXN + "::new": "initialisation"}
    muts = set()
    for fn in Y.fns.values():
        if fn.mir and (fn.field_mut_borrows("TransactionMut.changed") or fn.field_writes("TransactionMut.changed")):
            muts.add(Y.root_of(fn).path)
    off = ownership_closed(Y, sorted(muts), owners)
    for m in sorted(muts):
        R.ob("C11.b", Y.fns[m], "mutates-changed", m not in off, "mutably borrows TransactionMut.changed")
    R.floor("C11.b", "mutators of TransactionMut.changed", len(muts), 2)
    fn = Y.fn(TXN + "::add_changed_type")
    v = FnView(fn)
    ent = [c for c in fn.calls_to("std::collections::HashMap::entry") if field_path(simp_deep(v.arg(c, 0)))[-1:] == ["changed"]]
    R.floor("C11.b", "changed.entry in add_changed_type", len(ent), 1)
    from ylib.formula import Formulas, truth_check, fshow
    fm = Formulas(fn, simp_deep)
    for cs, site in ordinal_sites(ent):
        f = fm.reach(cs.bb)

        def classify(key, term):
            if term is None:
                return None
            if key.endswith(" is Some") and term_has_field(term, "Branch.item"):
                return "HASITEM"
            if term[0] == "bin" and term[1] == "Lt" and term_has_call(term, TXN + "::before_state"):
                return "OLD"
            if term[0] == "call" and callee_match(term[1], "yrs::block::Item::is_deleted"):
                return "DEL"
            return None

        ok, cex, keys = truth_check(f, classify, lambda e: ((not e["HASITEM"]) or (e["OLD"] and not e["DEL"]))
                                    if all(k in e for k in ("HASITEM", "OLD", "DEL")) else None)
        R.ob("C11.b", fn, site, ok and len(keys) == 3, "recorded iff %s" % fshow(f), cs.loc())


def rule_d(R, ctx):
    Y = ctx.yrs
    fn = Y.fn("yrs::branch::Branch::path")
    v = FnView(fn)
    R.rule("C11.d", "R-GUARD: Branch::path (paths of deep events) counts only items that are !is_deleted() && is_countable(), adds "
                    "item.len(), and uses the parent_sub key for map-like parents")
    adds = [(i, j, s) for i, j, s in fn.stmts() if "bin" in s["rv"] and s["rv"]["bin"].startswith("Add")
            and term_has_call(v.terms.operand(s["rv"]["b"]), "yrs::block::Item::len", "yrs::block::ItemPtr::len")]
    R.floor("C11.d", "index accumulation in Branch::path", len(adds), 1)
    for k, (i, j, s) in enumerate(adds):
        g = v.guards(i)
        nd = any(lit_call(l, "yrs::block::Item::is_deleted", False) for l in g)
        cnt = any(lit_call(l, "yrs::block::Item::is_countable", True) for l in g)
        R.ob("C11.d", fn, "accumulate#%d" % k, nd and cnt, "guards: %s" % [l.desc for l in g][-3:], "%s:%s" % (fn.file, s["line"]))
    keys = [c for c in fn.calls_to("std::collections::VecDeque::push_front")]
    kinds = set()
    for c in keys:
        t = simp_deep(v.arg(c, 1))
        if t[0] == "agg":
            kinds.add(t[1].rsplit("::", 1)[-1])
    R.ob("C11.d", fn, "segments", kinds == {"Key", "Index"}, "path segments pushed: %s" % sorted(kinds))


def rule_e(R, ctx):
    import re
    Y = ctx.yrs
    R.rule("C11.e", "R-ORDER flush before re-attributing: in TextEvent::get_delta every mutation of the assembler's pending attribute "
                    "set (`asm.attrs.insert/remove`) is dominated by the test of the pending action that flushes the operation "
                    "collected so far (`if asm.action == .. { asm.add_op() }`) — changing the attributes first emits the retain that "
                    "covers the text before the mark with the attributes that only apply after it")
    fn = Y.fn("yrs::types::text::TextEvent::get_delta")
    v = FnView(fn)
    cfg = fn.cfg()
    tests = set()
    for cs in fn.calls():
        if F.strip_generics(cs.name).endswith("DeltaAssembler::add_op") or F.strip_generics(cs.name).endswith("::add_op"):
            for l in v.guards(cs.bb):
                t = l.term
                if t[0] == "call" and re.search(r"PartialEq(<.*>)?>?::eq$", t[1]) and l.polarity is True and \
                        any(x[0] == "field" and x[1].endswith("DeltaAssembler.action") for x in walk(t)):
                    # the flush is the first thing on the true edge of the test
                    if cfg.dominates(l.bb, cs.bb):
                        tests.add(l.bb)
    R.floor("C11.e", "flush tests `asm.action == .. => add_op()` in get_delta", len(tests), 3)
    muts = [cs for cs in fn.calls() if re.search(r"HashMap::(insert|remove)$", F.strip_generics(cs.name))
            and term_has_field(v.arg(cs, 0, 10), "DeltaAssembler.attrs")]
    R.floor("C11.e", "mutations of asm.attrs in get_delta", len(muts), 6)
    for cs, site in ordinal_sites(muts):
        ok = any(cfg.dominates(t, cs.bb) and t != cs.bb for t in tests)
        R.ob("C11.e", fn, site, ok,
             "the pending operation is flushed (under the action test) before the attributes change" if ok else
             "asm.attrs is changed on a path that has not passed the flush test of the pending action: the operation collected so "
             "far is emitted with the new attributes", cs.loc())


def rule_f(R, ctx):
    import re
    from ylib.formula import Formulas, truth_check, fshow
    Y = ctx.yrs
    R.rule("C11.f", "R-GUARD decision table of map key changes (types::event_keys), per changed key with current entry `item` and `prev` = "
                    "nearest left entry not added in this transaction; NEW = item.clock >= before_state(client), DI / DP = item / prev "
                    "deleted in this transaction: Removed(prev value) iff NEW && DI && prev && DP; Updated(prev value, item value) iff "
                    "NEW && !DI && prev && DP; Inserted(item value) iff NEW && !DI && !(prev && DP); Removed(item value) iff !NEW && DI — "
                    "by truth table over the exact path formulas, and each reported value comes from the stated entry")
    fn = Y.fn("yrs::types::event_keys")
    v = FnView(fn)
    fm = Formulas(fn, simp_deep)
    fm.expand = False
    H = None
    for i, j, st in fn.stmts():
        if st["rv"].get("bin") in ("Ge", "Lt") and term_has_call(v.terms.rvalue(st["rv"], 8), "re:before_state$"):
            H = i
    if H is None:
        raise AnchorLost("comparison with before_state in event_keys")

    def left_of(t):
        return any(x[0] == "field" and x[1].endswith("Item.left") for x in walk(t))

    def cls(k, t):
        t = simp_deep(t) if isinstance(t, tuple) else t
        if not isinstance(t, tuple):
            return None
        if t[0] == "bin" and t[1] in ("Ge", "Lt") and term_has_call(t, "re:before_state$"):
            return "NEW" if t[1] == "Ge" else "!NEW"
        if t[0] == "call" and t[1].endswith("TransactionMut::has_deleted"):
            return "DP" if left_of(t) else "DI"
        if t[0] == "call" and t[1].endswith("TransactionMut::has_added"):
            return "PA" if left_of(t) else None
        if k.endswith(" is Some") and left_of(t):
            return "PS"
        return None

    ins = [cs for cs in fn.calls() if re.search(r"HashMap(<.*>)?::insert$", cs.name) and len(cs.args) == 3]
    R.floor("C11.f", "key change insertions in event_keys", len(ins), 4)
    want = {
        ("Removed", True): lambda n: n["NEW"] and n["DI"] and n["PS"] and n["DP"],
        ("Updated", True): lambda n: n["NEW"] and (not n["DI"]) and n["PS"] and n["DP"],
        ("Inserted", False): lambda n: n["NEW"] and (not n["DI"]) and not (n["PS"] and n["DP"]),
        ("Removed", False): lambda n: (not n["NEW"]) and n["DI"],
    }
    seen = set()
    for cs, site in ordinal_sites(ins):
        val = simp_deep(v.arg(cs, 2, 10))
        kind = val[1].rsplit("::", 1)[-1] if val[0] == "agg" else "?"
        first = val[2][0] if val[0] == "agg" and val[2] else ("nil",)
        from_prev = left_of(first)
        key = (kind, from_prev)
        seen.add(key)
        if key not in want:
            R.ob("C11.f", fn, site, False, "unexpected change %s built from %s" % (kind, "prev" if from_prev else "item"), cs.loc())
            continue
        f = fm.reach_from(H, cs.bb)

        def req(named, key=key):
            n = {x: named.get(x, False) for x in ("NEW", "DI", "DP", "PS", "PA")}
            if n["PS"] and n["PA"]:
                return None  # the prev walk has not stopped yet
            return bool(want[key](n))
        ok, cex, keys = truth_check(f, cls, req, max_atoms=12)
        from ylib.formula import missing_atoms
        gone = missing_atoms(f, cls, lambda n, key=key: want[key]({x: n.get(x, False) for x in ("NEW", "DI", "DP", "PS", "PA")}), ["NEW", "DI", "DP", "PS"])
        if gone:
            ok, cex = False, "the row no longer tests %s" % gone
        vals_ok = True
        if kind == "Updated" and val[0] == "agg" and len(val[2]) == 2:
            vals_ok = left_of(val[2][0]) and not left_of(val[2][1])
        R.ob("C11.f", fn, "%s(%s)" % (kind, "prev" if from_prev else "item"), ok and vals_ok,
             "%s of the %s value under its table row" % (kind, "previous" if from_prev else "current") if ok and vals_ok else
             "%s(%s) deviates from the key-change table: %s; values from the stated entries: %s; formula %s" %
             (kind, "prev" if from_prev else "item", cex, vals_ok, fshow(f)[:300]), cs.loc())
    R.ob("C11.f", fn, "all-rows", seen == set(want), "all four rows of the table are implemented: %s" % sorted(seen))


def rule_g(R, ctx):
    import re
    from ylib.formula import Formulas, truth_check, fshow, f_or
    Y = ctx.yrs
    R.rule("C11.g", "R-GUARD decision table of sequence changes (types::event_change_set), per item of the walked list with D = is_deleted, "
                    "TD / TA = deleted / added in this transaction: a Removed step (and `deleted.insert`) exactly under D && TD && !TA; an "
                    "Added step (and `added.insert`) exactly under !D && TA; a Retain step exactly under !D && !TA; by truth table over "
                    "the path formulas of one loop round; Removed / Retain grow by Item::len of that item, Added by its get_content()")
    fn = Y.fn("yrs::types::event_change_set")
    v = FnView(fn)
    fm = Formulas(fn, simp_deep)
    fm.expand = False
    cfg = fn.cfg()
    H = None
    for cs in fn.calls_to("yrs::block::Item::is_deleted"):
        H = cs.bb
    if H is None:
        raise AnchorLost("Item::is_deleted in event_change_set")

    def cls(k, t):
        t = simp_deep(t) if isinstance(t, tuple) else t
        if not isinstance(t, tuple) or t[0] != "call":
            return None
        if t[1].endswith("Item::is_deleted"):
            return "D"
        if t[1].endswith("TransactionMut::has_deleted"):
            return "TD"
        if t[1].endswith("TransactionMut::has_added"):
            return "TA"
        return None
    steps = {"Removed": [], "Added": [], "Retain": []}
    for i, j, st in fn.stmts():
        rv = st["rv"]
        if "agg" in rv and str(rv["agg"].get("adt", "")).endswith("types::Change") and rv["agg"].get("variant") in steps and cfg.dominates(H, i):
            steps[rv["agg"]["variant"]].append((i, st))
    want = {"Removed": lambda n: n["D"] and n["TD"] and not n["TA"], "Added": lambda n: (not n["D"]) and n["TA"],
            "Retain": lambda n: (not n["D"]) and not n["TA"]}
    for kind in ("Removed", "Added", "Retain"):
        bl = [i for i, st in steps[kind]]
        if not bl:
            R.ob("C11.g", fn, "step:" + kind, False, "no Change::%s is built in the walk" % kind)
            continue
        f = f_or(*[fm.reach_from(H, b) for b in bl])
        # the `match last_op.take()` arms are bookkeeping of the run being extended: free of the decision
        def cls2(k, t):
            c = cls(k, t)
            if c:
                return c
            return "RUN:" + k if (" is " in k or "==" in k) and ("last_op" in k or "Option::take" in k or "mem::take" in k or "take(" in k) else None

        def req(named, kind=kind):
            n = {x: named.get(x, False) for x in ("D", "TD", "TA")}
            return bool(want[kind](n))
        # evaluate over the three decision atoms only: quantify the bookkeeping atoms existentially
        from ylib.formula import atoms_of, evaluate
        ats = atoms_of(f)
        dec = [k for k in ats if cls(k, ats[k])]
        oth = [k for k in ats if not cls(k, ats[k])]
        import itertools
        ok = True
        cex = None
        names = {k: cls(k, ats[k]) for k in dec}
        needs = {"Removed": {"D", "TD", "TA"}, "Added": {"D", "TA"}, "Retain": {"D", "TA"}}[kind]
        lost = needs - set(names.values())
        if lost:
            R.ob("C11.g", fn, "step:" + kind, False, "Change::%s no longer depends on %s (its table row does): the decision is taken without "
                                                      "asking; formula %s" % (kind, sorted(lost), fshow(f)[:200]))
            continue
        for vals in itertools.product([False, True], repeat=len(dec)):
            env = dict(zip(dec, vals))
            named = {}
            cons = True
            for k, val in env.items():
                if names[k] in named and named[names[k]] != val:
                    cons = False
                named[names[k]] = val
            if not cons:
                continue
            reach = False
            for ovals in itertools.product([False, True], repeat=min(len(oth), 8)):
                e2 = dict(env)
                e2.update(dict(zip(oth[:8], ovals)))
                for k in oth[8:]:
                    e2[k] = False
                if evaluate(f, e2):
                    reach = True
                    break
            if reach != req(named):
                ok = False
                cex = {"decision": named, "reachable": reach, "required": req(named)}
                break
        R.ob("C11.g", fn, "step:" + kind, ok, "Change::%s is built exactly under its table row" % kind if ok else
             "Change::%s deviates from the sequence-change table: %s; formula %s" % (kind, cex, fshow(f)[:300]))
    # set bookkeeping follows the same rows
    for setname, kind in (("deleted", "Removed"), ("added", "Added")):
        ins = [cs for cs in fn.calls() if re.search(r"HashSet(<.*>)?::insert$", cs.name) and fn.local_name(mir_root(fn, cs.args[0])[1] if mir_root(fn, cs.args[0])[0] == "local" else -1) == setname]
        okk = bool(ins) and all(any(cfg.dominates(cs.bb, b) or cfg.dominates(b, cs.bb) for b, _ in steps[kind]) for cs in ins)
        R.ob("C11.g", fn, "set:" + setname, okk, "`%s.insert(item.id)` sits in the %s branch" % (setname, kind))


def rule_h(R, ctx, rid="C11.h"):
    Y = ctx.yrs
    R.rule(rid, "R-PROV subject of an event: every change summary an event hands out — TextEvent::get_delta, types::event_keys, "
                "types::event_change_set — is computed over the event's own `target`; `current_target` (the type whose deep "
                "observer is being called, an ancestor during bubbling) is used only as the first argument of Branch::path, "
                "whose second argument is again `target`")
    n = 0
    for root, css in sorted(callers_of(Y, "yrs::types::text::TextEvent::get_delta", "yrs::types::event_keys",
                                       "yrs::types::event_change_set", "yrs::branch::Branch::path").items()):
        for cs, site in ordinal_sites(css):
            if not re.search(r"Event::\w+(::\{closure#\d+\})?$", cs.fn.path):
                continue
            v = FnView(cs.fn)
            nm = F.strip_generics(cs.name).rsplit("::", 1)[-1]
            idx = {"get_delta": 0, "event_keys": 1, "event_change_set": 1, "path": 1}[nm]
            n += 1

            def fields(t):
                return [x[1].rsplit(".", 1)[-1] for x in walk(simp_deep(t)) if isinstance(x, tuple) and x and x[0] == "field"
                        and re.search(r"Event\.\w+$", x[1])]
            subj = fields(v.arg(cs, idx))
            ok = subj == ["target"]
            why = "%s computed over %s" % (nm, sshow(v.arg(cs, idx)))
            if nm == "path":
                frm = fields(v.arg(cs, 0))
                ok = ok and frm == ["current_target"]
                why = "path from %s to %s" % (sshow(v.arg(cs, 0)), sshow(v.arg(cs, 1)))
            R.ob(rid, cs.fn, site, ok, why, cs.loc())
    R.floor(rid, "change computations and paths of event types", n, 10)


def rule_i(R, ctx, rid="C11.i"):
    Y = ctx.yrs
    R.rule(rid, "R-TABLE bubbling reaches every kind of event: Event::set_current_target (called before each ancestor's deep observers "
                "run) stores the target into the `current_target` of EVERY variant of Event — kinds_reaching over the Event "
                "discriminant per store; a kind that falls into a catch-all keeps its initial current_target (the node itself) and "
                "reports an empty path from every ancestor")
    fn = Y.fn("yrs::types::Event::set_current_target")
    names = [v[1] for v in Y.enums.get("yrs::types::Event", [])]
    if not names:
        raise F.AnchorLost("enum yrs::types::Event")
    reached = set()
    n = 0
    v = FnView(fn)
    for i, j, st in fn.stmts():
        d = st["dst"]
        if isinstance(d, dict) and d.get("p") and isinstance(d["p"][-1], str) and d["p"][-1].endswith(".current_target"):
            n += 1
            src = simp_deep(v.terms.rvalue(st["rv"], 6))
            ks, used = kinds_reaching(Y, fn, i, enum="yrs::types::Event", place_hint=None, names=names)
            if used and src[0] == "param" and fn.local_name(src[1]) == "target":
                reached |= ks
    R.floor(rid, "stores of current_target in set_current_target", n, 5)
    R.ob(rid, fn, "every-kind", reached == set(names), "current_target is stored for %s" % sorted(reached) if reached == set(names) else
         "no store of current_target for Event::%s" % sorted(set(names) - reached))


def check(ctx, R):
    R.run("C11.i", rule_i, ctx)
    R.run("C11.a", rule_a, ctx)
    R.run("C11.h", rule_h, ctx)
    R.run("C11.b", rule_b, ctx)
    R.run("C11.d", rule_d, ctx)
    R.run("C11.e", rule_e, ctx)
    R.run("C11.f", rule_f, ctx)
    R.run("C11.g", rule_g, ctx)
    from . import preds
    R.run("C11.p", lambda R, c: preds.rule(R, c, "C11.p", ["has_added", "has_deleted"]), ctx)
    if ctx.tier == "thorough":
        from . import witness
        R.run("C11.c", witness.c11_c, ctx)
    return {}
