"""C11 — change events: dispatch structure only (at most once per transaction, changed-set ownership, path counting)."""
from ylib import facts as F
from .common import *  # noqa

TXN = "yrs::transaction::TransactionMut"


def rule_a(R, ctx):
    Y = ctx.yrs
    R.rule("C11.a", "R-OWN+R-ORDER at most once per transaction: BranchPtr::trigger / trigger_deep are called only from "
                    "TransactionMut::call_observers; there trigger runs once per key of the map `changed` (inside the single loop over "
                    "self.changed.iter(), not nested in another loop over the same map) and trigger_deep once per key of "
                    "`changed_parents`; call_observers is called only from commit, behind the `committed` latch and the non-empty test")
    co = TXN + "::call_observers"
    for callee in ("yrs::branch::BranchPtr::trigger", "yrs::branch::BranchPtr::trigger_deep"):
        cs = callers_of(Y, callee)
        R.ob("C11.a", callee, "callers", set(cs) == {co}, "called from %s" % sorted(cs))
    fn = Y.fn(co)
    v = FnView(fn)
    for callee, keymap in (("yrs::branch::BranchPtr::trigger", "TransactionMut.changed"), ("yrs::branch::BranchPtr::trigger_deep", None)):
        sites = fn.calls_to(callee)
        R.ob("C11.a", fn, "single-site:" + callee.rsplit("::", 1)[-1], len(sites) == 1, "%d call site(s)" % len(sites))
        for cs in sites:
            g = v.guards(cs.bb)
            loops = [l for l in g if term_has_call(l.term, "re:Iterator>::next$") and l.polarity == "Some"]
            iters = [l for l in loops if term_has_call(l.term, "re:^std::collections::HashMap::iter$")]
            ok = len(loops) == 1 and len(iters) == 1
            if keymap:
                ok = ok and term_has_field(iters[0].term, keymap) if iters else False
            R.ob("C11.a", fn, "once-per-key:" + callee.rsplit("::", 1)[-1], ok,
                 "enclosing loops: %s" % [l.desc for l in loops], cs.loc())
    cm = callers_of(Y, co)
    R.ob("C11.a", co, "callers", set(cm) == {TXN + "::commit"}, "called from %s" % sorted(cm))
    commit = Y.fn(TXN + "::commit")
    cv = FnView(commit)
    for cs, site in ordinal_sites(commit.calls_to(co)):
        latch = cv.has_guard(cs.bb, lambda l: simp(l.term)[0] == "field" and simp(l.term)[1].endswith("TransactionMut.committed") and l.polarity is False)
        R.ob("C11.a", commit, site, latch and not commit.cfg().in_loop(cs.bb), "behind the committed latch, not in a loop: %s" % latch, cs.loc())
    # commit is idempotent through Drop as well
    dr = Y.fn("<yrs::transaction::TransactionMut as std::ops::Drop>::drop")
    R.ob("C11.a", dr, "drop-commits", len(dr.calls_to(TXN + "::commit")) == 1, "Drop calls commit() (latched)")


def rule_b(R, ctx):
    Y = ctx.yrs
    R.rule("C11.b", "R-OWN: TransactionMut.changed is mutated only by add_changed_type (insert) and TransactionMut::delete (removal of a "
                    "deleted nested type); add_changed_type records a type only if it existed before the transaction and is not deleted")
    owners = {TXN + "::add_changed_type": "records a touched type", TXN + "::delete": "drops the entry of a deleted nested type",
              TXN + "::new": "initialisation"}
    muts = set()
    for fn in Y.fns.values():
        if fn.mir and (fn.field_mut_borrows("TransactionMut.changed") or fn.field_writes("TransactionMut.changed")):
            muts.add(Y.root_of(fn).path)
    off = ownership_closed(Y, sorted(muts), owners)
    for m in sorted(muts):
        R.ob("C11.b", Y.fns[m], "mutates-changed", m not in off, "mutably borrows TransactionMut.changed")
    R.floor("C11.b", "mutators of TransactionMut.changed", len(muts), 2)
    fn = Y.fn(TXN + "::add_changed_type")
    v = FnView(fn)
    ent = [c for c in fn.calls_to("std::collections::HashMap::entry") if field_path(simp_deep(v.arg(c, 0)))[-1:] == ["changed"]]
    R.floor("C11.b", "changed.entry in add_changed_type", len(ent), 1)
    from ylib.formula import Formulas, truth_check, fshow
    fm = Formulas(fn, simp_deep)
    for cs, site in ordinal_sites(ent):
        f = fm.reach(cs.bb)

        def classify(key, term):
            if term is None:
                return None
            if key.endswith(" is Some") and term_has_field(term, "Branch.item"):
                return "HASITEM"
            if term[0] == "bin" and term[1] == "Lt" and term_has_call(term, TXN + "::before_state"):
                return "OLD"
            if term[0] == "call" and callee_match(term[1], "yrs::block::Item::is_deleted"):
                return "DEL"
            return None

        ok, cex, keys = truth_check(f, classify, lambda e: ((not e["HASITEM"]) or (e["OLD"] and not e["DEL"]))
                                    if all(k in e for k in ("HASITEM", "OLD", "DEL")) else None)
        R.ob("C11.b", fn, site, ok and len(keys) == 3, "recorded iff %s" % fshow(f), cs.loc())


def rule_d(R, ctx):
    Y = ctx.yrs
    fn = Y.fn("yrs::branch::Branch::path")
    v = FnView(fn)
    R.rule("C11.d", "R-GUARD: Branch::path (paths of deep events) counts only items that are !is_deleted() && is_countable(), adds "
                    "item.len(), and uses the parent_sub key for map-like parents")
    adds = [(i, j, s) for i, j, s in fn.stmts() if "bin" in s["rv"] and s["rv"]["bin"].startswith("Add")
            and term_has_call(v.terms.operand(s["rv"]["b"]), "yrs::block::Item::len", "yrs::block::ItemPtr::len")]
    R.floor("C11.d", "index accumulation in Branch::path", len(adds), 1)
    for k, (i, j, s) in enumerate(adds):
        g = v.guards(i)
        nd = any(lit_call(l, "yrs::block::Item::is_deleted", False) for l in g)
        cnt = any(lit_call(l, "yrs::block::Item::is_countable", True) for l in g)
        R.ob("C11.d", fn, "accumulate#%d" % k, nd and cnt, "guards: %s" % [l.desc for l in g][-3:], "%s:%s" % (fn.file, s["line"]))
    keys = [c for c in fn.calls_to("std::collections::VecDeque::push_front")]
    kinds = set()
    for c in keys:
        t = simp_deep(v.arg(c, 1))
        if t[0] == "agg":
            kinds.add(t[1].rsplit("::", 1)[-1])
    R.ob("C11.d", fn, "segments", kinds == {"Key", "Index"}, "path segments pushed: %s" % sorted(kinds))


def rule_e(R, ctx):
    import re
    Y = ctx.yrs
    R.rule("C11.e", "R-ORDER flush before re-attributing: in TextEvent::get_delta every mutation of the assembler's pending attribute "
                    "set (`asm.attrs.insert/remove`) is dominated by the test of the pending action that flushes the operation "
                    "collected so far (`if asm.action == .. { asm.add_op() }`) — changing the attributes first emits the retain that "
                    "covers the text before the mark with the attributes that only apply after it")
    fn = Y.fn("yrs::types::text::TextEvent::get_delta")
    v = FnView(fn)
    cfg = fn.cfg()
    tests = set()
    for cs in fn.calls():
        if F.strip_generics(cs.name).endswith("DeltaAssembler::add_op") or F.strip_generics(cs.name).endswith("::add_op"):
            for l in v.guards(cs.bb):
                t = l.term
                if t[0] == "call" and re.search(r"PartialEq(<.*>)?>?::eq$", t[1]) and l.polarity is True and \
                        any(x[0] == "field" and x[1].endswith("DeltaAssembler.action") for x in walk(t)):
                    # the flush is the first thing on the true edge of the test
                    if cfg.dominates(l.bb, cs.bb):
                        tests.add(l.bb)
    R.floor("C11.e", "flush tests `asm.action == .. => add_op()` in get_delta", len(tests), 3)
    muts = [cs for cs in fn.calls() if re.search(r"HashMap::(insert|remove)$", F.strip_generics(cs.name))
            and term_has_field(v.arg(cs, 0, 10), "DeltaAssembler.attrs")]
    R.floor("C11.e", "mutations of asm.attrs in get_delta", len(muts), 6)
    for cs, site in ordinal_sites(muts):
        ok = any(cfg.dominates(t, cs.bb) and t != cs.bb for t in tests)
        R.ob("C11.e", fn, site, ok,
             "the pending operation is flushed (under the action test) before the attributes change" if ok else
             "asm.attrs is changed on a path that has not passed the flush test of the pending action: the operation collected so "
             "far is emitted with the new attributes", cs.loc())


def check(ctx, R):
    R.run("C11.a", rule_a, ctx)
    R.run("C11.b", rule_b, ctx)
    R.run("C11.d", rule_d, ctx)
    R.run("C11.e", rule_e, ctx)
    from . import preds
    R.run("C11.p", lambda R, c: preds.rule(R, c, "C11.p", ["has_added", "has_deleted"]), ctx)
    if ctx.tier == "thorough":
        from . import witness
        R.run("C11.c", witness.c11_c, ctx)
    return {}
