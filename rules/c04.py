"""C04 — sequence elements exactly once / stable order: origin capture, monotone tombstones,
integration inserts never moves, list-pointer ownership, split chaining."""
from ylib import facts as F
from . import c01, c03
from .common import *  # noqa
from . import shared

TXN = "yrs::transaction::TransactionMut"
ITEM_NEW = "yrs::block::Item::new"

LOCAL_CREATORS = (
    TXN + "::create_item", "yrs::block_iter::BlockIter::insert_contents", "yrs::types::text::insert_attributes",
    "yrs::types::text::insert_negated_attributes", "yrs::block::ItemPtr::redo",
)
# Item::new callers that do not capture neighbours: reason
NON_LOCAL_CREATORS = {
    "yrs::update::Update::decode_block": "remote item: left/right None, origins come off the wire",
}


def closure_of(Y, term):
    for t in walk(term):
        if t[0] == "agg" and "{closure#" in t[1]:
            return Y.fns.get(t[1])
    return None


def closure_returns_call(Y, term, *pats):
    c = closure_of(Y, term)
    if c is None or not c.mir:
        return False
    rt = F.Terms(c).local(0, 10)
    return term_has_call(rt, *pats) or any(t[0] == "field" and t[1].endswith("Item.id") for t in walk(rt) if "yrs::block::Item::id" in pats)


def rule_a(R, ctx):
    Y = ctx.yrs
    R.rule("C04.a", "R-PROV origin capture: at every local creation site of Item::new the `origin` argument is last_id() of exactly "
                    "the value passed as `left`, and `right_origin` is id() of exactly the value passed as `right` "
                    "(Update::decode_block, which takes origins off the wire, is the one listed exception)")
    sites = callers_of(Y, ITEM_NEW)
    n = 0
    for root, css in sorted(sites.items()):
        for cs, site in ordinal_sites(css):
            fn = cs.fn
            if root in NON_LOCAL_CREATORS:
                R.inventory("C04.a", fn, site, "accepted exception: " + NON_LOCAL_CREATORS[root], cs.loc())
                continue
            n += 1
            if root not in LOCAL_CREATORS:
                R.ob("C04.a", fn, site, False, "new Item::new call site outside the confirmed creator table %s" % (LOCAL_CREATORS,), cs.loc())
                continue
            v = FnView(fn)
            left, origin, right, rorigin = (v.arg(cs, k) for k in (1, 2, 3, 4))
            sl, so, sr, sro = (simp_deep(x) for x in (left, origin, right, rorigin))

            def derived(src_op_idx, src_term, dst_term, id_pats, dst_op_idx=None):
                # form 0 (MIR level): dst is the result of Option::map whose receiver is a copy of the src argument
                droot = fn.copy_root(cs.args[dst_op_idx])
                if isinstance(droot, int):
                    for d in fn.defs().get(droot, []):
                        if d[0] == "call" and d[2].is_("std::option::Option::map"):
                            mc = d[2]
                            if fn.copy_root(mc.args[0]) == fn.copy_root(cs.args[src_op_idx]) and \
                                    closure_returns_call(Y, v.terms.operand(mc.args[1]), *id_pats):
                                return True, "Option::map(<same local as argument %d>, |x| x.%s)" % (src_op_idx, id_pats[0].rsplit("::", 1)[-1])
                # form 1: Option::map(src, |x| x.last_id()/id())
                for t in walk(dst_term):
                    if t[0] == "call" and callee_match(t[1], "std::option::Option::map"):
                        recv = t[2][0]
                        if simp_deep(recv) == src_term or _same_root(fn, cs, src_op_idx, recv, v):
                            if closure_returns_call(Y, t[2][1], *id_pats):
                                return True, "Option::map(%s, |x| x.%s)" % (show(src_term, 4), id_pats[0].rsplit("::", 1)[-1])
                # form 2: φ(Some{id_fn(src)} | None)
                alts = dst_term[1] if dst_term[0] == "phi" else (dst_term,)
                somes = [a for a in alts if a[0] == "agg" and a[1].endswith("Option::Some")]
                nones = [a for a in alts if a[0] == "agg" and a[1].endswith("Option::None")]
                if somes and len(somes) + len(nones) == len(alts):
                    okc = True
                    for sm in somes:
                        inner = simp_deep(sm[2][0])
                        if not (inner[0] == "call" and any(callee_match(inner[1], p) for p in id_pats)
                                and simp_deep(inner[2][0]) == src_term):
                            okc = False
                    if okc:
                        return True, "Some(%s(%s)) | None" % (id_pats[0].rsplit("::", 1)[-1], show(src_term, 4))
                return False, "%s is not derived from %s" % (show(dst_term, 6), show(src_term, 6))

            ok1, w1 = derived(1, sl, so, ("yrs::block::Item::last_id",), 2)
            ok2, w2 = derived(3, sr, sro, ("yrs::block::Item::id", "yrs::block::ItemPtr::id"), 4)
            R.ob("C04.a", fn, site + ":origin", ok1, "origin = " + w1, cs.loc())
            R.ob("C04.a", fn, site + ":right_origin", ok2, "right_origin = " + w2, cs.loc())
    R.floor("C04.a", "local Item::new creation sites", n, 5)


def _same_root(fn, cs, idx, recv_term, v):
    """the Option::map receiver and the Item::new argument are copies of the same local."""
    a = fn.copy_root(cs.args[idx])
    # find the MIR operand of the map receiver: search Option::map calls whose receiver term equals recv_term
    for c in fn.calls_to("std::option::Option::map"):
        if v.terms.operand(c.args[0]) == recv_term and fn.copy_root(c.args[0]) == a:
            return True
    return False


FLAG_CLEARABLE = {"yrs::block::ITEM_FLAG_KEEP", "yrs::block::ITEM_FLAG_COUNTABLE", "yrs::block::ITEM_FLAG_LINKED"}


def rule_b(R, ctx):
    Y = ctx.yrs
    R.rule("C04.b", "R-OWN+R-PROV tombstones are monotone: ItemFlags::clear is only called with the constants KEEP, COUNTABLE or "
                    "LINKED (never DELETED); the flag word ItemFlags.0 is written only inside ItemFlags::{new,set,clear}; "
                    "ItemFlags::new is called with a non-literal only in Item::new (COUNTABLE | 0)")
    n = 0
    for root, css in sorted(callers_of(Y, "yrs::block::ItemFlags::clear").items()):
        for cs, site in ordinal_sites(css):
            n += 1
            v = FnView(cs.fn)
            t = simp(v.arg(cs, 1))
            named = t[2] if t[0] == "const" else None
            R.ob("C04.b", cs.fn, site, named in FLAG_CLEARABLE, "clears %s" % (named or show(t)), cs.loc())
    R.floor("C04.b", "ItemFlags::clear call sites", n, 3)
    ws = writers_of_field(Y, "ItemFlags.0")
    owners = {"yrs::block::ItemFlags::set", "yrs::block::ItemFlags::clear", "yrs::block::ItemFlags::new"}
    for w in sorted(ws):
        R.ob("C04.b", Y.fns[w], "writer:ItemFlags.0", w in owners, "writes the item flag word")
    # ItemFlags aggregates (construction from a raw u16)
    for fn in Y.fns.values():
        if not fn.mir:
            continue
        for i, j, s in fn.stmts():
            rv = s["rv"]
            if "agg" in rv and rv["agg"].get("adt") == "yrs::block::ItemFlags":
                root = Y.root_of(fn).path
                ok = root in owners or root.startswith("<yrs::block::ItemFlags as ")
                R.ob("C04.b", fn, "construct:ItemFlags", ok, "constructs an ItemFlags value from a raw word", "%s:%s" % (fn.file, s["line"]))
    for root, css in sorted(callers_of(Y, "yrs::block::ItemFlags::new").items()):
        for cs, site in ordinal_sites(css):
            v = FnView(cs.fn)
            t = simp_deep(v.arg(cs, 0))
            consts = [x for x in walk(t) if x[0] == "const"]
            others = [x for x in walk(t) if x[0] not in ("const", "phi")]
            ok = not others and all((c[2] in (None, "yrs::block::ITEM_FLAG_COUNTABLE")) and (c[2] or c[1] == 0) for c in consts)
            R.ob("C04.b", cs.fn, site, ok and root == "yrs::block::Item::new", "initial flags = %s" % show(t), cs.loc())
    # mark_as_deleted is the only setter of DELETED
    sd = callers_of(Y, "yrs::block::ItemFlags::set_deleted")
    R.ob("C04.b", "yrs::block::ItemFlags::set_deleted", "callers", set(sd) <= {"yrs::block::Item::mark_as_deleted"},
         "set_deleted callers: %s" % sorted(sd))


def rule_c(R, ctx):
    Y = ctx.yrs
    fn = Y.fn(TXN + "::integrate_item")
    v = FnView(fn)
    R.rule("C04.c", "R-PROV integration inserts, never moves: in TransactionMut::integrate_item every write to the .left/.right of an "
                    "item other than the one being integrated stores Some(item_ptr) (the new item); the new item's own right is "
                    "taken from its left neighbour's old right / the map chain / parent.start; parent.start is only replaced by the new item")
    ptr_src = None
    n = 0
    for fld in ("Item.left", "Item.right"):
        for k, (i, j, s) in enumerate(fn.field_writes(fld)):
            n += 1
            dst = s["dst"]
            base_t = simp_deep(v.terms.place({"l": dst["l"], "p": dst["p"][:-1]} if len(dst["p"]) > 1 else dst["l"]))
            raw = v.terms.rvalue(s["rv"], 10) if "rv" in s else ("unknown", "call-dest")
            val = simp_deep(raw)
            own = root_name(base_t) == "item" and not term_has_field(base_t, "Item.left") and not term_has_field(base_t, "Item.right")
            if own:
                R.ob("C04.c", fn, "write-own:%s#%d" % (fld, k), True, "%s.%s = %s" % (show(base_t, 4), fld.split(".")[1], show(val, 6)),
                     "%s:%s" % (fn.file, s["line"]), nontrivial=False)
                continue
            is_new = raw[0] == "agg" and raw[1].endswith("Option::Some") and _is_item_ptr(raw[2][0])
            R.ob("C04.c", fn, "write-other:%s#%d" % (fld, k), is_new,
                 "%s.%s = %s (must be Some(item_ptr))" % (show(base_t, 5), fld.split(".")[1], show(val, 6)), "%s:%s" % (fn.file, s["line"]))
    R.floor("C04.c", "left/right writes in integrate_item", n, 4)
    reps = [c for c in fn.calls_to("std::option::Option::replace") if field_path(simp_deep(v.arg(c, 0)))[-1:] == ["start"]]
    R.floor("C04.c", "parent.start.replace in integrate_item", len(reps), 1)
    for cs, site in ordinal_sites(reps):
        R.ob("C04.c", fn, site, _is_item_ptr(v.arg(cs, 1)), "parent.start.replace(%s)" % sshow(v.arg(cs, 1)), cs.loc())


def _is_item_ptr(t):
    """raw term is ItemPtr::from(&*<the item parameter being integrated>) (integrate_item's 2nd parameter)."""
    while t[0] in ("ref", "deref"):
        t = t[1]
    if t[0] == "call" and "ItemPtr as std::convert::From" in t[1]:
        a = simp(t[2][0])
        while a[0] in ("field",) and a[1].startswith(("std::boxed::Box", "std::ptr::")):
            a = simp(a[2])
        return a[0] == "param" and a[1] == 2
    return False


PTR_OWNERS = {
    TXN + "::integrate_item": "inserts the new item between its neighbours",
    "yrs::block::ItemPtr::splice": "split: chains the two halves",
    "yrs::block::ItemPtr::try_squash": "merge of two adjacent blocks",
    "yrs::block::Item::trim": "left of a not yet integrated, partially known item",
    "yrs::block::Item::resolve_conflict": "left of the item being integrated",
    "yrs::update::Update::missing_dependency": "left/right of a not yet integrated item",
    "yrs::block::Item::new": "construction",
    "yrs::block::ItemContent::gc": "GC of a deleted nested type detaches (takes) its child list; the children are collected with it",
}


def rule_d(R, ctx):
    Y = ctx.yrs
    R.rule("C04.d", "R-OWN list-pointer writers: Item.left / Item.right / Item.origin / Item.right_origin are written, and "
                    "Branch.start mutably borrowed, only by the frozen owner table (under ownership closure)")
    writers = set()
    for fld in ("Item.left", "Item.right", "Item.origin", "Item.right_origin", "Branch.start"):
        writers |= set(writers_of_field(Y, fld))
    for fn in Y.fns.values():
        if fn.mir and (fn.field_mut_borrows("Branch.start") or fn.field_mut_borrows("Item.left") or fn.field_mut_borrows("Item.right")
                       or fn.field_mut_borrows("Item.origin") or fn.field_mut_borrows("Item.right_origin")):
            writers.add(Y.root_of(fn).path)
    off = ownership_closed(Y, sorted(writers), PTR_OWNERS)
    for w in sorted(writers):
        R.ob("C04.d", Y.fns[w], "writer", w not in off, "writes item list pointers" + ("" if w not in off else " but is not in the owner table"))
    R.floor("C04.d", "list pointer writers", len(writers), 5)


def rule_e(R, ctx, rid="C04.e"):
    Y = ctx.yrs
    fn = Y.fn("yrs::block::ItemPtr::splice")
    v = FnView(fn)
    R.rule(rid, "R-PROV split keeps halves adjacent and chained: in ItemPtr::splice the new half has id (client, clock+offset), "
                    "left = self, origin = (client, clock+offset-1), right / right_origin / parent / parent_sub / info inherited, "
                    "redone shifted by offset; self.right = new, old right's left = new, self.len = offset")
    aggs = [(i, j, s) for i, j, s in fn.stmts() if "agg" in s["rv"] and s["rv"]["agg"].get("adt") == "yrs::block::Item"]
    R.floor(rid, "Item aggregate in splice", len(aggs), 1)
    for k, (i, j, s) in enumerate(aggs):
        fields = s["rv"]["agg"]["fields"]
        vals = {f: simp_deep(v.terms.operand(o)) for f, o in zip(fields, s["rv"]["ops"])}

        def has_bin(t, op, *needles):
            txt = show(t, 12)
            return any(x[0] == "bin" and x[1].startswith(op) for x in walk(t)) and all(nd in txt for nd in needles)

        checks = {
            "id": vals["id"][0] == "call" and callee_match(vals["id"][1], "yrs::block::ID::new") and has_bin(vals["id"], "Add", "clock", "offset"),
            "len": has_bin(vals["len"], "Sub", "len", "offset"),
            "left": vals["left"][0] == "agg" and vals["left"][1].endswith("Option::Some") and root_name(vals["left"][2][0]) in ("self", "self_ptr"),
            "origin": vals["origin"][0] == "agg" and vals["origin"][1].endswith("Option::Some") and has_bin(vals["origin"], "Sub", "offset")
                      and has_bin(vals["origin"], "Add", "clock"),
            "right": field_path(vals["right"])[-1:] == ["right"],
            "right_origin": field_path(vals["right_origin"])[-1:] == ["right_origin"],
            "parent": field_path(vals["parent"])[-1:] == ["parent"],
            "parent_sub": field_path(vals["parent_sub"])[-1:] == ["parent_sub"],
            "info": field_path(vals["info"])[-1:] == ["info"],
            "redone": term_has_field(vals["redone"], "Item.redone") and term_has_call(vals["redone"], "std::option::Option::map"),
        }
        for f, ok in checks.items():
            R.ob(rid, fn, "new-half.%s#%d" % (f, k), ok, "%s = %s" % (f, show(vals[f], 7)), "%s:%s" % (fn.file, s["line"]))
    # self.right = Some(new_ptr); right.left = Some(new_ptr); self.len = offset
    for fld, want in (("Item.right", "new"), ("Item.left", "new"), ("Item.len", "offset")):
        ws = fn.field_writes(fld)
        R.floor(rid, "write of %s in splice" % fld, len(ws), 1)
        for k, (i, j, s) in enumerate(ws):
            raw = v.terms.rvalue(s["rv"], 12)
            val = simp_deep(raw)
            if want == "new":
                # Some(ItemPtr::from(&mut <the new half>)): the raw term contains the Item aggregate built above
                ok = raw[0] == "agg" and raw[1].endswith("Option::Some") and term_has_call(raw, "re:ItemPtr as std::convert::From") \
                    and any(x[0] == "agg" and x[1] == "yrs::block::Item" for x in walk(raw))
            else:
                ok = root_name(val) == "offset"
            R.ob(rid, fn, "write:%s#%d" % (fld, k), ok, "%s = %s" % (fld, show(val, 6)), "%s:%s" % (fn.file, s["line"]))
    # the redone shift closure adds the offset
    cl = [c for c in Y.closures.get(fn.path, [])]
    ok = False
    for c in cl:
        rt = F.Terms(c).local(0, 10)
        adds = [x for x in walk(rt) if x[0] == "bin" and x[1].startswith("Add")]
        if adds and any(term_has_field(a, "ID.clock") and any(y[0] == "param" and y[1] == 1 for y in walk(a)) for a in adds):
            ok = True
    R.ob(rid, fn, "redone-shift", ok, "redone is shifted by `offset` in the split half: %s" % ok)


def rule_i(R, ctx, rid="C04.i"):
    Y = ctx.yrs
    R.rule(rid, "R-PROV partial integration: when a block arrives whose first `offset` clocks are already known, Item::trim re-anchors "
                "it — id.clock += offset, len -= offset, content = content.splice(offset), left = the item ending at clock-1 of the "
                "same client (get_item_clean_end), origin = last id of that left — and integrate_gc / integrate_skip shift clock and "
                "length by the same offset; every one of these writes takes the function's own offset parameter. A missed write "
                "makes the kept part claim ids or an origin that other replicas (which received the block whole) do not see")
    fn = Y.fn("yrs::block::Item::trim")
    v = FnView(fn)
    ws = {}
    for i, j, st in fn.stmts():
        d = st["dst"]
        if isinstance(d, dict) and d["p"] and isinstance(d["p"][-1], str):
            ws.setdefault(d["p"][-1].rsplit(".", 1)[-1], []).append(simp_deep(v.terms.rvalue(st["rv"], 16)))

    def is_param(t, idx):
        t = simp_deep(t)
        while t[0] == "cast":
            t = simp_deep(t[2])
        return t[0] == "param" and t[1] == idx

    def binop(t, ops):
        for x in walk(t):
            if x[0] == "bin" and x[1] in ops:
                return x
            if x[0] == "call" and any(x[1].endswith(o) for o in ops if o.startswith("::")):
                return ("bin", x[1], x[2][0], x[2][1])
        return None

    OFF = 2  # (&mut self, offset, store)
    t = (ws.get("clock") or [None])[0]
    b = binop(t, ("Add", "AddWithOverflow", "::wrapping_add")) if t else None
    R.ob(rid, fn, "id.clock+=offset", bool(b) and term_has_field(b[2], "ID.clock") and is_param(b[3], OFF),
         "id.clock := %s" % (sshow(t) if t else "<no write>"))
    t = (ws.get("len") or [None])[0]
    b = binop(t, ("Sub", "SubWithOverflow", "::wrapping_sub")) if t else None
    R.ob(rid, fn, "len-=offset", bool(b) and term_has_field(b[2], "Item.len") and is_param(b[3], OFF),
         "len := %s" % (sshow(t) if t else "<no write>"))
    t = (ws.get("content") or [None])[0]
    sp = [x for x in walk(t) if x[0] == "call" and x[1].endswith("ItemContent::splice")] if t else []
    R.ob(rid, fn, "content=splice(offset)", bool(sp) and term_has_field(sp[0][2][0], "Item.content") and is_param(sp[0][2][1], OFF),
         "content := %s" % (sshow(t) if t else "<no write>"))
    t = (ws.get("left") or [None])[0]
    ce = [x for x in walk(t) if x[0] == "call" and x[1].endswith("BlockStore::get_item_clean_end")] if t else []
    okl = False
    if ce:
        idt = simp_deep(ce[0][2][1])
        if idt[0] == "call" and idt[1].endswith("ID::new"):
            c0, c1 = idt[2]
            bb = binop(c1, ("Sub", "SubWithOverflow"))
            okl = field_path(simp_deep(c0))[-2:] == ["id", "client"] and bool(bb) and term_has_field(bb[2], "ID.clock") and \
                simp(bb[3])[:2] == ("const", 1)
    R.ob(rid, fn, "left=clean_end(client,clock-1)", okl, "left := %s" % (sshow(t) if t else "<no write>"))
    t = (ws.get("origin") or [None])[0]
    oko = False
    if t:
        # Option::map(self.left, closure -> last_id)
        clos = [c for c in Y.with_closures(fn) if c is not fn]
        lastid = any(c.calls_to("yrs::block::Item::last_id") for c in clos) or term_has_call(t, "yrs::block::Item::last_id")
        oko = term_has_field(t, "Item.left") and lastid
    R.ob(rid, fn, "origin=left.last_id", oko, "origin := %s" % (sshow(t) if t else "<no write>"))
    # the only caller passes its own offset under offset > 0
    ii = Y.fn(TXN + "::integrate_item")
    iv = FnView(ii)
    tc = ii.calls_to("yrs::block::Item::trim")
    R.floor(rid, "Item::trim call in integrate_item", len(tc), 1)
    for cs, site in ordinal_sites(tc):
        a = simp_deep(iv.arg(cs, 1))
        R.ob(rid, ii, site, a[0] == "param" and ii.local_name(a[1]) == "offset",
             "trim is called with integrate_item's own offset: %s" % sshow(a), cs.loc())
    for path, var in ((TXN + "::integrate_gc", "gc"), (TXN + "::integrate_skip", "skip")):
        f = Y.fn(path)
        fv = FnView(f)
        got = {}
        for i, j, st in f.stmts():
            d = st["dst"]
            if isinstance(d, dict) and d["p"] and isinstance(d["p"][-1], str) and "BlockRange." in d["p"][-1]:
                got[d["p"][-1].rsplit(".", 1)[-1]] = simp_deep(fv.terms.rvalue(st["rv"], 12))
        b1 = binop(got.get("clock"), ("Add", "AddWithOverflow")) if got.get("clock") else None
        b2 = binop(got.get("len"), ("Sub", "SubWithOverflow")) if got.get("len") else None

        def offp(t):
            t = simp_deep(t)
            return t[0] == "param" and f.local_name(t[1]) == "offset"
        R.ob(rid, f, "shift-by-offset", bool(b1) and bool(b2) and offp(b1[3]) and offp(b2[3]),
             "clock := %s; len := %s" % (sshow(got.get("clock")) if got.get("clock") else None, sshow(got.get("len")) if got.get("len") else None))


def check(ctx, R):
    R.run("C04.a", rule_a, ctx)
    R.run("C04.b", rule_b, ctx)
    R.run("C04.c", rule_c, ctx)
    R.run("C04.d", rule_d, ctx)
    R.run("C04.e", rule_e, ctx)
    R.run("C04.f", lambda R, c: shared.idempotent_delete(R, c, "C04.f"), ctx)
    R.run("C04.g", lambda R, c: c03.rule_b(R, c, "C04.g"), ctx)
    R.run("C04.h", lambda R, c: c01.rule_f(R, c, "C04.h"), ctx)
    R.run("C04.i", rule_i, ctx)
    from . import preds
    R.run("C04.p", lambda R, c: preds.rule(R, c, "C04.p", ["detect_conflict", "item_contains", "is_missing", "flags_check", "block_is_deleted"]), ctx)
    R.run("C04.p", lambda R, c: preds.flag_table(R, c, "C04.p"), ctx)
    from . import shared as _sh
    R.run("C04.j", lambda R, c: _sh.unapplied_within_range(R, c, "C04.j"), ctx)
    return {}
