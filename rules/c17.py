"""C17 — all read paths agree: cached-length maintenance and visibility-predicate agreement."""
from ylib import facts as F
from .common import *  # noqa

TXN = "yrs::transaction::TransactionMut"
LEN_OWNERS = {
    TXN + "::integrate_item": "adds the integrated item's length",
    TXN + "::delete": "subtracts the deleted item's length",
    "yrs::branch::Branch::new": "initialises both caches to 0",
}


def rule_a(R, ctx, rid="C17.a"):
    Y = ctx.yrs
    R.rule(rid, "R-OWN+R-PROV+R-GUARD cached lengths: Branch.block_len / content_len are written only by integrate_item (+=), "
                "TransactionMut::delete (-=) and Branch::new (under ownership closure); both caches move together at every site; "
                "operands are item.len / item.content_len(store.offset_kind); both sites are guarded by "
                "{parent_sub is None, countable, not deleted}")
    writers = {}
    for fld in ("Branch.block_len", "Branch.content_len"):
        for root, ws in writers_of_field(Y, fld).items():
            writers.setdefault(root, {}).setdefault(fld, []).extend(ws)
    off = ownership_closed(Y, list(writers), LEN_OWNERS)
    for w in sorted(writers):
        fn = Y.fns[w]
        R.ob(rid, fn, "writer", w not in off,
             "writes the cached length of a branch" + ("" if w not in off else
                                                        " but is not an owner (owners: %s) nor a private helper of one" % sorted(LEN_OWNERS)))
    R.floor(rid, "functions writing Branch.block_len/content_len", len(writers), 2)

    def guards_ok(v, bb, subject):
        g = v.guards(bb)
        nd = any(lit_call(l, "yrs::block::Item::is_deleted", False) for l in g)
        cnt = any(lit_call(l, "yrs::block::Item::is_countable", True) for l in g)
        ps = any(lit_call(l, "std::option::Option::is_none", True) and term_has_field(l.term, "Item.parent_sub") for l in g)
        return nd and cnt and ps, "not-deleted=%s countable=%s parent_sub-none=%s" % (nd, cnt, ps)

    for path, op, lencall in ((TXN + "::integrate_item", "Add", None), (TXN + "::delete", "Sub", "yrs::block::Item::len")):
        fn = Y.fn(path)
        v = FnView(fn)
        bl = fn.field_writes("Branch.block_len")
        cl = fn.field_writes("Branch.content_len")
        R.ob(rid, fn, "paired-writes", len(bl) == len(cl) and len(bl) >= 1,
             "%d write(s) of block_len, %d of content_len" % (len(bl), len(cl)))
        for k, ((i, j, s), (i2, j2, s2)) in enumerate(zip(bl, cl)):
            # same control region: each block's guards equal
            g1 = sorted(l.desc for l in v.guards(i))
            g2 = sorted(l.desc for l in v.guards(i2))
            R.ob(rid, fn, "same-region#%d" % k, g1 == g2, "block_len guards %s / content_len guards %s" % (g1, g2),
                 "%s:%s" % (fn.file, s["line"]))
            ok, why = guards_ok(v, i, None)
            R.ob(rid, fn, "guard#%d" % k, ok, why, "%s:%s" % (fn.file, s["line"]))
            t1 = simp_deep(v.terms.rvalue(s["rv"], 10))
            t2 = simp_deep(v.terms.rvalue(s2["rv"], 10))
            # (x op y).0 from the overflow-checked arithmetic
            def opnd(t):
                for x in walk(t):
                    if x[0] == "bin" and x[1].startswith(op):
                        return x
                return None
            b1, b2 = opnd(t1), opnd(t2)
            ok1 = b1 is not None and (field_path(simp_deep(b1[3]))[-1:] == ["len"] or term_has_call(b1[3], "yrs::block::Item::len"))
            ok2 = b2 is not None and term_has_call(b2[3], "yrs::block::Item::content_len") and \
                any(x[0] == "field" and x[1].endswith("offset_kind") for x in walk(b2[3]))
            R.ob(rid, fn, "operands#%d" % k, ok1 and ok2, "block_len %s %s ; content_len %s %s" % (
                op, show(simp_deep(b1[3])) if b1 else "?", op, show(simp_deep(b2[3])) if b2 else "?"), "%s:%s" % (fn.file, s["line"]))


# ----------------------------------------------------------------- C17.b
from ylib.formula import Formulas, truth_check, atoms_of  # noqa: E402

CONTENT_READERS = (
    "yrs::block::ItemContent::get_first", "yrs::block::ItemContent::get_last", "yrs::block::ItemContent::get_content",
    "yrs::block::ItemContent::read",
)

# traversals that copy content out of items without going through the ItemContent accessors
# (enumerated by the driver as: reads Item.left/right/Branch.start/Branch.map and Item.content; readers
# confirmed by reading, mutators dropped)
READ_TRAVERSALS = (
    "<yrs::types::text::TextRef as yrs::types::GetString>::get_string",
    "yrs::types::text::DiffAssembler::process",
    "yrs::types::weak::LinkSource::to_string",
    "<yrs::types::xml::Siblings<T> as std::iter::Iterator>::next",
    "<yrs::types::xml::Siblings<T> as std::iter::DoubleEndedIterator>::next_back",
    "yrs::branch::Branch::get_at",
    "yrs::branch::Branch::get",
)

NEG_TESTS = ("yrs::block::Item::is_deleted", "yrs::block::ItemFlags::is_deleted", "yrs::block::Block::is_deleted")
POS_TESTS = ("yrs::state_vector::Snapshot::is_visible",)

# iterator sources whose `next` yields only live items (verified below on every run)
FILTERED_SOURCES = (
    "<yrs::types::Entries<B, T> as std::iter::Iterator>::next",
)

# frozen exceptions: function -> reason
READER_EXCEPTIONS = {
    "yrs::types::event_keys": "event computation: reads the previous value of entries relative to the transaction's "
                              "insert/delete sets (old_value of a change), not current visibility — see C11",
    "yrs::types::text::TextEvent::get_delta": "event computation: visibility is decided by has_added/has_deleted of the transaction — see C11",
    "yrs::types::event_change_set": "event computation relative to the transaction's sets — see C11",
    "<yrs::types::xml::TreeWalker<B, T> as std::iter::Iterator>::next":
        "liveness is established by the do-while loop exit condition (current.is_deleted()), which a path-insensitive guard "
        "rule cannot see; confirmed by reading",
    "yrs::block::ItemPtr::redo": "re-creates the content of a *deleted* item on purpose (undo), see C12",
}


def sshow_key(k):
    """short rendering of a value key."""
    if isinstance(k, tuple) and k and k[0] == "proj":
        return "%s.%s" % (sshow_key(k[1]), ".".join(str(x).rsplit("::", 1)[-1].strip("{}' ") for x in k[2]))
    if isinstance(k, tuple) and k and k[0] == "local":
        return "_%s" % k[1]
    return str(k)[:40]


def positive_helpers(Y):
    """local bool functions whose `true` result implies the item is visible (e.g. DiffAssembler::process::seen)."""
    out = set()
    for fn in Y.fns.values():
        if not fn.mir or fn.sig is None or fn.sig.get("output") != "bool":
            continue
        if not (fn.calls_to(*NEG_TESTS) or fn.calls_to(*POS_TESTS)):
            continue
        if any(callee_match(fn.path, p) for p in NEG_TESTS + POS_TESTS):
            continue
        if len(fn.blocks) > 40:
            continue
        fm = Formulas(fn, simp_deep)
        f = fm.local_formula(0)

        def classify(key, term):
            if term is not None and term[0] == "call":
                if any(callee_match(term[1], p) for p in NEG_TESTS):
                    return "D"
                if any(callee_match(term[1], p) for p in POS_TESTS):
                    return "V"
            return None

        ats = atoms_of(f)
        if not any(classify(k, t) for k, t in ats.items()):
            continue
        ok, cex, keys = truth_check(f, classify, lambda e: None if (e.get("V", False) or not e.get("D", True)) else False)
        if ok:
            out.add(fn.path)
    return out


def _filtered_upstream(Y, clo):
    """the closure `clo` is handed to an adaptor whose receiver chain holds a `.filter(K)` whose predicate K answers
    `!is_deleted(<its parameter>)` on every path."""
    parent = Y.fns.get(clo.path.rsplit("::{closure", 1)[0])
    if parent is None:
        return False
    pv = FnView(parent)
    for cs in parent.calls():
        args = [simp_deep(pv.arg(cs, i, 14)) for i in range(len(cs.args))]
        if not any(isinstance(a, tuple) and a and a[0] == "agg" and a[1] == clo.path for a in args[1:]):
            continue
        for x in walk(args[0]):
            if isinstance(x, tuple) and x and x[0] == "call" and re.search(r"::filter$", F.strip_generics(x[1])) and len(x[2]) > 1:
                k = simp_deep(x[2][1])
                kf = Y.fns.get(k[1]) if isinstance(k, tuple) and k and k[0] == "agg" else None
                if kf is None:
                    continue
                defs = answer_definitions(kf)

                def neg_test(d):
                    d = simp_deep(d)
                    return d[0] in ("un", "not") and any(term_has_call(d, p) for p in NEG_TESTS) and \
                        all(simp_deep(y)[0] in ("param", "field", "deref") for c in walk(d) if isinstance(c, tuple) and c and c[0] == "call"
                            for y in c[2][:1])
                if defs and all(neg_test(d) for d in defs):
                    return True
    return False


def rule_b(R, ctx, rid="C17.b"):
    Y = ctx.yrs
    R.rule(rid, "R-GUARD visibility-predicate agreement: every site that reads an item's content through "
                "ItemContent::{get_first,get_last,get_content,read}, and every Item.content read in the frozen table of read "
                "traversals (get_string, diff, quotation to_string, XML siblings, Branch::get/get_at), is reached only through a "
                "liveness test of that item (!is_deleted / Snapshot::is_visible / a verified helper, possibly as a disjunction) or "
                "takes the item from a verified filtered iterator; plain accessors on a parameter are delegated to their callers")
    helpers = positive_helpers(Y)
    # verify filtered sources
    filtered_ok = set()
    for fp in FILTERED_SOURCES:
        fn = Y.fn(fp)
        v = FnView(fn)
        somes = [(i, j, s) for i, j, s in fn.stmts() if s["dst"] == 0 and "agg" in s["rv"] and s["rv"]["agg"].get("variant") == "Some"]
        ok = bool(somes) and all(v.has_guard(i, lambda l: any(lit_call(l, p, False) for p in NEG_TESTS)) for i, j, s in somes)
        R.ob(rid, fn, "filtered-source", ok, "every `Some(..)` this iterator returns is guarded by !is_deleted(): %s" % ok)
        if ok:
            filtered_ok.add(fp)

    def vis_lit(l):
        t = l.term
        for p in NEG_TESTS:
            if lit_call(l, p, False):
                return True
        for p in POS_TESTS:
            if lit_call(l, p, True):
                return True
        s = simp(t)
        if s[0] == "call" and s[1] in helpers and l.polarity is True:
            return True
        return False

    sites = []
    readers = list(CONTENT_READERS)
    done_readers = set()
    delegated = {}
    # a function that reads the content of its own parameter hands the obligation to ITS callers: those call sites are content
    # reads too (Out::try_from(ItemPtr) behind MapRef::as_prelim) — followed to a fixpoint
    while readers:
        batch = [r for r in readers if r not in done_readers]
        readers = []
        if not batch:
            break
        done_readers |= set(batch)
        for root, css in sorted(callers_of(Y, *batch).items()):
            for cs, site in ordinal_sites(css):
                fn = cs.fn
                v = FnView(fn)
                if not cs.args:
                    continue
                recv = simp_deep(v.arg(cs, 0))
                base = recv[2] if recv[0] == "field" else recv
                if (simp(base)[0] == "param" or (recv[0] == "param")) and "{closure" not in fn.path:
                    R.ob(rid, fn, site, True, "accessor on its own parameter (%s): liveness is the callers' obligation" % show(recv),
                         cs.loc(), nontrivial=False)
                    if fn.path not in done_readers and fn.path not in CONTENT_READERS and \
                            re.search(r"TryFrom<yrs::block::ItemPtr>>::try_from$|::from$", fn.path) and len(done_readers) < 40:
                        readers.append(fn.path)
                        delegated[fn.path] = True
                    continue
                # a closure's parameter is an element its enclosing function took from a table or a list: the obligation stays here
                sites.append((fn, cs.bb, site, cs.loc(), recv))
    for fp in READ_TRAVERSALS:
        if "::weak::" in fp and "weak" not in Y.features:
            continue  # compiled only with feature `weak`
        fn = Y.fn(fp)
        bbs = {}
        for i, j, s in fn.stmts():
            rv = s["rv"]
            pl = rv.get("ref") or rv.get("discr") or (rv.get("use") or {}).get("c") or (rv.get("use") or {}).get("m")
            if isinstance(pl, dict) and F.place_has_field(pl, "Item.content"):
                bbs.setdefault(i, s["line"])
        for k, (bb, line) in enumerate(sorted(bbs.items())):
            sites.append((fn, bb, "content-read#%d" % k, "%s:%s" % (fn.file, line), None))
    # the item whose content is read at a block: value key of the place in front of `.content`
    def owners_at(fn, bb):
        out = set()
        for i, j, s_ in fn.stmts():
            if i != bb:
                continue
            rv = s_["rv"]
            pl = rv.get("ref") or rv.get("discr") or (rv.get("use") or {}).get("c") or (rv.get("use") or {}).get("m")
            if isinstance(pl, dict) and F.place_has_field(pl, "Item.content"):
                k_ = [ix for ix, x in enumerate(pl["p"]) if isinstance(x, str) and x.endswith("Item.content")][0]
                out.add(mir_vkey(fn, {"c": {"l": pl["l"], "p": pl["p"][:k_]}}))
        return out
    n = 0
    for fn, bb, site, loc, recv in sites:
        n += 1
        v = FnView(fn)
        root = Y.root_of(fn).path
        ok = v.necessary_any(bb, vis_lit)
        why = "liveness literals on every path: %s" % [l.desc for l in v.lits if vis_lit(l)][:3]
        if ok and recv is None:
            # same item: the liveness test that decides this read looks at the item that is read, not at a neighbour
            calls_by_bb = {c.bb: c for c in fn.calls()}
            tested = set()
            for l in v.guards(bb):
                if vis_lit(l):
                    t = simp(l.term)
                    c = calls_by_bb.get(t[3]) if t[0] == "call" and len(t) > 3 else None
                    if c is not None:
                        tested |= {mir_vkey(fn, a) for a in c.args}
            own = owners_at(fn, bb)
            if tested and own and not (tested & own):
                ok = False
                why = ("the liveness test that decides this read looks at another item than the one whose content is read "
                       "(tested %s, read %s): a deleted element is yielded, or a live one is skipped, whenever its neighbour's state differs" %
                       ([sshow_key(k_) for k_ in sorted(tested, key=str)][:2], [sshow_key(k_) for k_ in sorted(own, key=str)][:2]))
                R.ob(rid, fn, site, False, why, loc)
                continue
        if not ok and recv is not None and any(term_has_call(recv, p) for p in filtered_ok):
            ok = True
            why = "item comes from a verified filtered iterator (%s)" % show(recv, 5)
        if not ok and "{closure" in fn.path and _filtered_upstream(Y, fn):
            ok = True
            why = "the closure runs behind a `.filter(|e| !e.is_deleted())` of the same chain in its enclosing function"
        if not ok and root in READER_EXCEPTIONS:
            R.inventory(rid, fn, site, "accepted exception: " + READER_EXCEPTIONS[root], loc)
            continue
        R.ob(rid, fn, site, ok, why if ok else
             "content of an item is read with no liveness test on some path (guards: %s)" % v.guard_descs(bb)[:4], loc)
    R.floor(rid, "content read sites", n, 25)
    return {"visibility_helpers": sorted(helpers)}


FORMAT_FUNCS = (
    "yrs::transaction::TransactionMut::cleanup_fmt_gap", "yrs::transaction::TransactionMut::cleanup_fmt_gap_contextless",
    "yrs::transaction::TransactionMut::cleanup_text_fmt", "yrs::types::text::clean_format_gap", "yrs::types::text::minimize_attr_changes",
    "yrs::types::text::insert_negated_attributes", "yrs::types::text::insert_format", "yrs::types::text::find_position",
    "yrs::block::ItemPosition::forward", "yrs::types::text::DiffAssembler::process",
)


def rule_c(R, ctx, rid="C17.c"):
    Y = ctx.yrs
    R.rule(rid, "R-GUARD attribute bookkeeping: in the functions that track formatting (position walks, format insertion and "
                "minimisation, the three clean-ups, the diff renderer) every call that consumes the key or value of a formatting "
                "mark — update_current_attributes, look-ups / insertions / removals in attribute tables, comparisons — is reached "
                "only through a liveness test of the mark's item (!is_deleted / a verified visibility helper), or takes its marks "
                "from a local map that is filled only under such a test: tombstoned marks never take part in attribute decisions")
    helpers = positive_helpers(Y)

    def vis_lit(l):
        for p in NEG_TESTS:
            if lit_call(l, p, False):
                return True
        for p in POS_TESTS:
            if lit_call(l, p, True):
                return True
        t = simp(l.term)
        return t[0] == "call" and t[1] in helpers and l.polarity is True

    def consumes_mark(v, cs):
        for i in range(len(cs.args)):
            if any(x[0] == "field" and x[1].startswith("yrs::block::ItemContent::Format.") for x in walk(v.arg(cs, i, 10))):
                return True
        return False
    n = 0
    sites = []
    for fp in FORMAT_FUNCS:
        fn = Y.fn(fp)
        v = FnView(fn)
        for cs in fn.calls():
            nm = F.strip_generics(cs.name)
            if nm.endswith("is_deleted") or "Deref" in nm or re.search(r"::(clone|as_ref|deref|drop)$", nm):
                continue
            if consumes_mark(v, cs):
                sites.append((fn, v, cs))
    # update_current_attributes anywhere else in the crate as well
    for root, css in sorted(callers_of(Y, "yrs::types::text::update_current_attributes").items()):
        for cs in css:
            if not any(cs is s[2] or (cs.fn is s[0] and cs.bb == s[2].bb) for s in sites):
                sites.append((cs.fn, FnView(cs.fn), cs))
    byfn = {}
    for fn, v, cs in sites:
        byfn.setdefault(fn.path, []).append((fn, v, cs))
    for fpath in sorted(byfn):
        lst = byfn[fpath]
        for (fn, v, cs), site in zip(lst, [s for _, s in ordinal_sites([c for _, _, c in lst])]):
            n += 1
            ok = v.necessary_any(cs.bb, vis_lit)
            why = "liveness literal on every path"
            if not ok:
                ins = fn.calls_to("std::collections::HashMap::insert")
                it = any(term_has_call(v.arg(cs, i, 16), "re:HashMap.*::(into_iter|iter|values|drain)$", "re:hash_map::.*::next$")
                         for i in range(1, len(cs.args)))
                if ins and it and all(v.necessary_any(c.bb, vis_lit) for c in ins):
                    ok = True
                    why = "marks come from a local map whose %d insert(s) are all under a liveness test" % len(ins)
            R.ob(rid, fn, site, ok, why if ok else
                 "the key or value of a formatting mark is consumed with no liveness test of its item on some path (guards: %s): a "
                 "tombstoned mark takes part in an attribute decision" % v.guard_descs(cs.bb)[:4], cs.loc())
    R.floor(rid, "calls consuming a formatting mark", n, 35)

POSITIONAL_TRAVERSALS = (
    "yrs::block_iter::BlockIter::backward", "yrs::block_iter::BlockIter::delete", "yrs::block_iter::BlockIter::slice",
    "yrs::block_iter::BlockIter::try_forward", "yrs::branch::Branch::get_at", "yrs::branch::Branch::index_to_ptr",
    "yrs::branch::Branch::path", "yrs::branch::Branch::remove_at", "yrs::sticky_index::StickyIndex::get_offset",
    "yrs::transaction::TransactionMut::cleanup_fmt_gap", "yrs::transaction::TransactionMut::cleanup_fmt_gap_contextless",
    "yrs::types::text::find_position",
)


def rule_d(R, ctx, rid="C17.d", only=None):
    Y = ctx.yrs
    R.rule(rid, "R-GUARD positions count live elements only: in the traversals that turn an index into a place (or a place into an "
                "index) — BlockIter moves, Branch::{get_at,index_to_ptr,remove_at,path}, StickyIndex::get_offset, text "
                "find_position and the format clean-ups — every arithmetic step or comparison that consumes an item's length "
                "(Item::len / content_len / Item.len) inside the walking loop is reached only through a liveness test of that "
                "item; tombstones that are not yet collected must not shift positions (frozen function list, confirmed by reading)")
    helpers = positive_helpers(Y)

    def vis_lit(l):
        for p in NEG_TESTS:
            if lit_call(l, p, False):
                return True
        for p in POS_TESTS:
            if lit_call(l, p, True):
                return True
        t = simp(l.term)
        return t[0] == "call" and t[1] in helpers and l.polarity is True

    n = 0
    for fp in POSITIONAL_TRAVERSALS:
        if only and fp not in only:
            continue
        fn = Y.fn(fp)
        v = FnView(fn)
        cfg = fn.cfg()
        src = set()  # value keys of item lengths
        src_item = {}  # length value -> item_key of the item it is the length of
        for cs in fn.calls():
            if re.search(r"Item::(len|content_len)$", F.strip_generics(cs.name)) and isinstance(cs.dest, int):
                src.add(("local", cs.dest))
                src_item[("local", cs.dest)] = mir_vkey(fn, cs.args[0])
        for i, j, st in fn.stmts():
            o = st["rv"].get("use")
            pl = o.get("c", o.get("m")) if isinstance(o, dict) else None
            if isinstance(pl, dict) and pl.get("p") and isinstance(pl["p"][-1], str) and pl["p"][-1].endswith("Item.len") and isinstance(st["dst"], int):
                src.add(("local", st["dst"]))
                src_item[("local", st["dst"])] = mir_vkey(fn, {"c": {"l": pl["l"], "p": pl["p"][:-1]}})
        k = 0
        for i, j, st in fn.stmts():
            rv = st["rv"]
            if "bin" not in rv or not cfg.in_loop(i):
                continue
            if not any(mir_root(fn, rv[x]) in src for x in ("a", "b")):
                continue
            n += 1
            ok = v.necessary_any(i, vis_lit)
            if ok:
                own = {src_item[mir_root(fn, rv[x])] for x in ("a", "b") if mir_root(fn, rv[x]) in src_item}
                calls_by_bb = {c.bb: c for c in fn.calls()}
                tested = set()
                for l in v.guards(i):
                    if vis_lit(l):
                        t = simp(l.term)
                        c = calls_by_bb.get(t[3]) if t[0] == "call" and len(t) > 3 else None
                        if c is not None:
                            tested |= {mir_vkey(fn, a) for a in c.args}
                if own and tested and not (own & tested):
                    R.ob(rid, fn, "uses-length#%d:%s" % (k, rv["bin"].replace("WithOverflow", "")), False,
                         "the liveness test that decides this step looks at another item (%s) than the one whose length is consumed (%s)" %
                         ([sshow_key(x) for x in sorted(tested, key=str)][:2], [sshow_key(x) for x in sorted(own, key=str)][:2]), "%s:%s" % (fn.file, st["line"]))
                    k += 1
                    continue
            R.ob(rid, fn, "uses-length#%d:%s" % (k, rv["bin"].replace("WithOverflow", "")), ok,
                 "length of the walked item is consumed under a liveness test" if ok else
                 "the length of the walked item enters `%s` with no liveness test of that item on some path (guards: %s): an "
                 "uncollected tombstone shifts the position" % (rv["bin"], v.guard_descs(i)[:3]), "%s:%s" % (fn.file, st["line"]))
            k += 1
    R.floor(rid, "length-consuming steps in positional traversals", n, 1 if only else 15)


def rule_e(R, ctx, rid="C17.e"):
    Y = ctx.yrs
    R.rule(rid, "R-GUARD the XML tree walk stays inside its subtree: in TreeWalker::next the climb to the parent's item "
                "(`n = current.parent.as_branch().item`) is reached only when `current.parent == self.root` was tested and is false "
                "— a walker started on a nested element must stop at its own root instead of continuing with the element's "
                "following siblings (successors() would disagree with children()/get(i))")
    fn = Y.fn("<yrs::types::xml::TreeWalker<B, T> as std::iter::Iterator>::next")
    v = FnView(fn)
    climbs = [cs for cs in fn.calls() if re.search(r"TypePtr::as_branch$", F.strip_generics(cs.name)) and fn.cfg().in_loop(cs.bb)
              and term_has_field(v.arg(cs, 0, 8), "Item.parent")]
    R.floor(rid, "climb steps in TreeWalker::next", len(climbs), 1)
    for cs, site in ordinal_sites(climbs):
        ok = False
        for l in v.guards(cs.bb):
            t = simp_deep(l.term)
            if t[0] == "call" and re.search(r"PartialEq(<.*>)?>?::(eq|ne)$", t[1]) and term_has_field(t, "Item.parent") and \
                    term_has_field(t, "TreeWalker.root"):
                want = t[1].endswith("ne")
                ok = ok or (l.polarity is want)
        R.ob(rid, fn, site, ok, "the climb happens only below the walker's root" if ok else
             "the walker climbs to the parent's item without testing `current.parent == self.root`: guards %s" % v.guard_descs(cs.bb)[-3:], cs.loc())


def rule_g(R, ctx, rid="C17.g"):
    Y = ctx.yrs
    R.rule(rid, "R-GUARD head-of-list selector: Branch::first (behind XmlFragment::first_child) returns an item only under a liveness "
                "test of that item — countability is not a substitute: a tombstone keeps its content and its COUNTABLE flag until it "
                "is garbage collected")
    fn = Y.fn("yrs::branch::Branch::first")
    v = FnView(fn)
    helpers = positive_helpers(Y)

    def vis_lit(l):
        for p in NEG_TESTS:
            if lit_call(l, p, False):
                return True
        t = simp(l.term)
        return t[0] == "call" and t[1] in helpers and l.polarity is True
    somes = [(i, st) for i, j, st in fn.stmts() if st["dst"] == 0 and "agg" in st["rv"] and st["rv"]["agg"].get("variant") == "Some"]
    R.floor(rid, "Some(item) returns in Branch::first", len(somes), 1)
    for k, (i, st) in enumerate(somes):
        ok = v.necessary_any(i, vis_lit)
        R.ob(rid, fn, "returns#%d" % k, ok, "the returned item is live" if ok else
             "Branch::first returns an item with no liveness test (guards: %s)" % v.guard_descs(i)[:3], "%s:%s" % (fn.file, st["line"]))


KIND_TABLES = [
    # (function regex, enum, variants the table need not produce — with the reason)
    (r"^<yrs::types::xml::XmlOut as std::convert::TryFrom<.*>>::try_from$", "yrs::types::xml::XmlOut", set(), 3),
    (r"^<yrs::out::Out as std::convert::From<yrs::types::xml::XmlOut>>::from$", "yrs::out::Out",
     {"Any", "YText", "YArray", "YMap", "YDoc", "YWeakLink", "UndefinedRef"}, 1),   # XML node kinds only
    (r"^<yrs::branch::BranchPtr as std::convert::Into<yrs::out::Out>>::into$", "yrs::out::Out", {"Any", "YDoc"}, 1),  # a branch is never a plain value or a subdocument
    (r"^yrs::transaction::ReadTxn::get$", "yrs::out::Out", {"Any"}, 1),     # root types
    (r"^yrs::types::Event::target$", "yrs::out::Out", {"Any", "YDoc", "UndefinedRef"}, 1),   # one per Event variant
]


def rule_k(R, ctx, rid="C17.k"):
    Y = ctx.yrs
    R.rule(rid, "R-TABLE node-kind conversion tables are complete: every TryFrom<_> for XmlOut (what XmlNodes / TreeWalker / "
                "siblings hand out of a stored value) constructs every variant of XmlOut, and the tables into Out (From<XmlOut>, "
                "BranchPtr→Out, ReadTxn::get, Event::target) construct every variant of Out except the frozen ones that cannot "
                "occur there — a kind that one sibling table forgets makes that read path end early or skip nodes the other "
                "read paths show")
    for pat, enum, skip, floor in KIND_TABLES:
        fns = [f for f in Y.find(pat) if f.mir]
        R.floor(rid, "conversion tables matching %s" % pat, len(fns), floor)
        allv = {v[1] for v in Y.enums.get(enum, [])}
        if not allv:
            raise F.AnchorLost("enum %s" % enum)
        for f in fns:
            got = set()
            for i, j, st in f.stmts():
                ag = st["rv"].get("agg") if isinstance(st["rv"], dict) else None
                if ag and str(ag.get("adt", "")) == enum or (ag and str(ag.get("adt", "")).endswith(enum.split("::", 1)[1])):
                    got.add(ag.get("variant"))
            want = allv - skip
            R.ob(rid, f, "variants", want <= got, "constructs %s" % sorted(got) if want <= got else
                 "never constructs %s::%s (its sibling tables do)" % (enum.rsplit("::", 1)[-1], sorted(want - got)))


WHOLE_RENDERERS = (
    "<yrs::types::text::TextRef as yrs::types::GetString>::get_string",
    "<yrs::types::xml::XmlFragmentRef as yrs::types::GetString>::get_string",
    "<yrs::types::xml::XmlElementRef as yrs::types::GetString>::get_string",
    "<yrs::types::map::MapRef as yrs::types::ToJson>::to_json",
)


def rule_n(R, ctx, rid="C17.n"):
    from ylib.formula import Formulas
    Y = ctx.yrs
    R.rule(rid, "R-SCAN a rendering of the WHOLE collection ends only where the collection ends: every exit of every loop of "
                "TextRef::get_string, XmlFragmentRef / XmlElementRef::get_string and MapRef::to_json is the exhaustion of the walked "
                "list or iterator (`.. is None`); no exit is decided by an accumulated length, a counter or a size hint — lengths are "
                "kept in the configured offset unit, a String grows in bytes, and trailing live blocks would be cut off")
    n = 0
    for p in WHOLE_RENDERERS:
        fn = Y.fn(p)
        v = FnView(fn)
        fm = Formulas(fn, simp_deep)
        heads = sorted({h for (t, h) in fm.back_edges()})
        for h in heads:
            for (u, w) in loop_exit_edges(fn, h):
                if fn.blocks[w].get("cleanup"):
                    continue
                lits = [l for l in v.lits if l.bb == u and l.to == w]
                if not lits:
                    continue   # fall-through edge of a nested construct, decided elsewhere
                n += 1
                ok = all(l.polarity == "None" or (isinstance(l.polarity, tuple) or "not in" in l.desc) for l in lits)
                R.ob(rid, fn, "exit:bb%d" % u if not ok else "exit#%d" % n, ok,
                     "leaves the loop on exhaustion" if ok else "the walk is left early under %s" % [l.desc[:140] for l in lits])
    R.floor(rid, "loop exits of whole-collection renderings", n, 6)


def rule_o(R, ctx, rid="C17.o"):
    Y = ctx.yrs
    R.rule(rid, "R-GUARD presence is decided by the count, not by the value: BlockIter::read_value (behind Array::get and the XML child "
                "iterator) answers Some exactly where BlockIter::slice reported that it read an element — the `Some` is guarded by a "
                "comparison of slice's result — and never by comparing the slot with a placeholder value (Out::default() is "
                "Any::Undefined, a legal array element)")
    fn = Y.fn("yrs::block_iter::BlockIter::read_value")
    v = FnView(fn)
    somes = [(i, st) for i, j, st in fn.stmts() if "agg" in st["rv"] and st["rv"]["agg"].get("variant") == "Some"
             and str(st["rv"]["agg"].get("adt", "")).endswith("option::Option")]
    R.floor(rid, "Some(..) answers of read_value", len(somes), 1)
    for k, (i, st) in enumerate(somes):
        g = v.guards(i)
        by_count = [l for l in g if isinstance(l.term, tuple) and l.term[0] == "bin" and term_has_call(l.term, "yrs::block_iter::BlockIter::slice")]
        by_value = [l for l in g if isinstance(l.term, tuple) and l.term[0] == "call" and re.search(r"PartialEq.*::(eq|ne)$", F.strip_generics(l.term[1]))]
        R.ob(rid, fn, "present#%d" % k, bool(by_count) and not by_value,
             "Some under %s" % by_count[0].desc[:100] if by_count and not by_value else
             "Some is decided by %s — not by the count slice() returned" % ([l.desc[:100] for l in by_value] or [l.desc[:80] for l in g][-2:]))


def check(ctx, R):
    from . import shared as _sh
    R.run("C17.o", rule_o, ctx)
    R.run("C17.q", rule_q, ctx)
    R.run("C17.n", rule_n, ctx)
    R.run("C17.m", lambda R, c: _sh.api_delegations(
        R, c, "C17.m", _sh.READ_DELEGATIONS,
        "R-PROV the read entry points construct their walkers over the receiver itself: siblings starts at the node's own item, "
        "children / successors / first_child at the node's own branch, Map::iter / keys / values over the map's own branch; "
        "has_deleted asks the transaction's delete set about the id it was given, StateVector::contains the id's own client"), ctx)
    R.run("C17.k", rule_k, ctx)
    R.run("C17.a", rule_a, ctx)
    R.run("C17.b", rule_b, ctx)
    R.run("C17.c", rule_c, ctx)
    R.run("C17.d", rule_d, ctx)
    R.run("C17.e", rule_e, ctx)
    R.run("C17.g", rule_g, ctx)
    from . import preds
    R.run("C17.p", lambda R, c: preds.rule(R, c, "C17.p", ["is_visible", "map_contains_key", "seen", "flags_check"]), ctx)
    return {}


FFI_LEN_DELEGATIONS = [
    ("yffi::ytext_len", r"yrs::Text::len$", {0: "\\1::from_raw_branch(txt)", 1: "<*const T>::as_ref(txn)"}, None),
    ("yffi::yxmltext_len", r"yrs::Text::len$", {0: "\\1::from_raw_branch(txt)", 1: "<*const T>::as_ref(txn)"}, None),
    ("yffi::ymap_len", r"yrs::Map::len$", {0: "\\1::from_raw_branch(map)", 1: "<*const T>::as_ref(txn)"}, None),
    ("yffi::yxmlelem_child_len", r"yrs::XmlFragment::len$", {0: "\\1::from_raw_branch(xml)", 1: "<*const T>::as_ref(txn)"}, None),
    ("yffi::yarray_len", r"yrs::branch::Branch::len$", {0: "<*const T>::as_ref(array)"}, None),
]


def rule_q(R, ctx, rid="C17.q"):
    """The C length readers answer with the length method of the type they are named after."""
    from . import shared as _sh
    R.rule(rid, "R-PROV the C length readers: ytext_len and yxmltext_len answer Text::len (the content length in the configured offset "
                "unit — Branch::len is the UTF-16 block length and differs for non-ASCII text under byte offsets), ymap_len answers "
                "Map::len, yxmlelem_child_len XmlFragment::len, yarray_len Branch::len, each over the caller's own branch and "
                "transaction, and that call is the function's answer")
    Y = ctx.yffi
    _sh._delegations(R, Y, rid, FFI_LEN_DELEGATIONS, 5)
    for path, callee, _w, _g in FFI_LEN_DELEGATIONS:
        fn = Y.fn(path)
        single_answer(R, rid, fn, callee, "the length method's result")
