"""C09 — wire formats round-trip: writer/reader grammar agreement (R-WIRE), tag tables, counts, primitive layers."""
import re

from ylib import facts as F
from ylib import wire as W
from ylib.formula import Formulas, truth_check, fshow, atoms_of, f_or, f_and, f_not, TRUE, FALSE
from .common import *  # noqa

ENC = "yrs::updates::encoder::Encode"
DEC = "yrs::updates::decoder::Decode"

EXTRA_CODECS = {
    "yrs::any::Any::encode": "Any", "yrs::any::Any::decode": "Any",
    "yrs::block::Item::encode": "Item", "yrs::slice::ItemSlice::encode": "ItemSlice",
    "yrs::block::ItemContent::encode": "ItemContent", "yrs::block::ItemContent::encode_slice": "ItemContent",
    "yrs::block::ItemContent::decode": "ItemContent",
    "yrs::update::Update::decode_block": "Block", "yrs::block::Block::encode_with_offset": "BlockOff",
    "yrs::slice::BlockSlice::encode": "BlockSlice",
    "yrs::types::TypeRef::encode_weak_link": "WeakLink", "yrs::types::TypeRef::decode_weak_link": "WeakLink",
    "yrs::store::Store::write_blocks_from": "BlocksFrom", "yrs::store::Store::write_blocks_to": "BlocksTo",
    "yrs::update::Update::encode_diff": "UpdateDiff", "yrs::store::Store::encode_diff": "StoreDiff",
    "yrs::transaction::ReadTxn::encode_diff": "StoreDiff",
    "yrs::transaction::ReadTxn::encode_state_as_update": "StateAsUpdate",
    "yrs::transaction::TransactionMut::encode_update": "TxnUpdate",
    "yrs::store::Store::encode_state_from_snapshot": "SnapshotState",
}

# writer-only helper codecs that are inlined into their users before comparison
INLINE = {
    "Item": "yrs::block::Item::encode", "ItemSlice": "yrs::slice::ItemSlice::encode",
    "BlockOff": "yrs::block::Block::encode_with_offset", "BlockSlice": "yrs::slice::BlockSlice::encode",
    "BlocksFrom": "yrs::store::Store::write_blocks_from", "BlocksTo": "yrs::store::Store::write_blocks_to",
    "UpdateDiff": "yrs::update::Update::encode_diff", "StoreDiff": "yrs::store::Store::encode_diff",
}

# (name, [writer fns], reader fn, options)
EXPLICIT_PAIRS = [
    ("Any", ["yrs::any::Any::encode"], "yrs::any::Any::decode", {}),
    ("Block", ["<yrs::block::Block as %s>::encode" % ENC, "yrs::block::Block::encode_with_offset", "yrs::slice::BlockSlice::encode"],
     "yrs::update::Update::decode_block",
     # the reader tests `cant_copy_parent_info` in two separate ifs; a path-insensitive expansion therefore contains sequences
     # (parent_sub string without parent info) no writer produces: subset only, the flag rule C09.flags decides the conditions
     {"full": False}),
    ("ItemContent", ["yrs::block::ItemContent::encode", "yrs::block::ItemContent::encode_slice"], "yrs::block::ItemContent::decode",
     {"arm_table": "yrs::block::ItemContent::get_ref_number", "param": "ref_num"}),
    ("Update", ["yrs::update::Update::encode_diff", "yrs::store::Store::encode_diff", "yrs::transaction::ReadTxn::encode_state_as_update",
                "yrs::transaction::TransactionMut::encode_update", "yrs::store::Store::encode_state_from_snapshot",
                "<yrs::update::Update as %s>::encode" % ENC, "<yrs::store::Store as %s>::encode" % ENC],
     "<yrs::update::Update as %s>::decode" % DEC,
     # block-level writers stay nonterminals here (<Block>); they are compared with decode_block in the Block pair
     {"inline": ("BlocksFrom", "BlocksTo", "UpdateDiff", "StoreDiff")}),
]

BLOCK_LEVEL = {"Item", "ItemSlice", "BlockOff", "BlockSlice", "Block"}


def norm_word(w):
    """comparison normal form: block-level helper refs are the same nonterminal <Block>; generic var class '?' is a wildcard;
    `X {X..}*` collapses to `{X..}*`."""
    return W.collapse_units(_norm_word(w))


def _norm_word(w):
    out = []
    for s in w:
        if s[0] == "ref" and s[1] in BLOCK_LEVEL:
            out.append(("ref", "Block"))
        elif s[0] == "star":
            out.append(("star", frozenset(norm_word(x) for x in s[1])))
        elif s[0] == "p" and s[2] == "?":
            out.append(("p", s[1], "u", s[3]))
        else:
            out.append(s)
    return tuple(out)


def variant_table(Y, path):
    """variant name -> constant from a `match self { Variant(..) => CONST }` function (HIR)."""
    fn = Y.fn(path)
    tab = {}
    for n in F.hir_walk(fn.hir["body"]):
        if n.get("k") == "match":
            for arm in n["arms"]:
                lab = W.pat_label(arm["pat"])
                c = W.const_values(W.block_value(arm["body"]))
                if c and len(c) == 1:
                    tab[lab] = c[0]
    return tab


class WireCtx:
    def __init__(self, Y):
        self.Y = Y
        self.codecs = W.Codecs(Y, EXTRA_CODECS)
        self.nodes = {}
        self.ex = {}

    def node(self, path):
        if path not in self.nodes:
            fn = self.Y.fn(path)
            if fn.hir is None:
                raise AnchorLost("no HIR for " + path)
            ex = W.Extractor(self.codecs, fn)
            self.nodes[path] = ex.run()
            self.ex[path] = ex
        return self.nodes[path]

    def inline_map(self, side="w"):
        m = {cid: self.node(p) for cid, p in INLINE.items()}
        wl = "yrs::types::TypeRef::encode_weak_link" if side == "w" else "yrs::types::TypeRef::decode_weak_link"
        if "weak" in self.Y.features or wl in self.Y.fns:   # compiled only with feature `weak`
            m["WeakLink"] = self.node(wl)
        return m


def retag_writer(node, table, param):
    """writer `match self { Variant => .. }` arms -> ('tag', 'param:<p>', (const,)) arms using the variant table."""
    if node[0] == "alt":
        labs = [l for l, _ in node[1]]
        if all(isinstance(l, str) and l in table for l in labs):
            return ("alt", [(l, W.Extractor.seq([("tag", "param:" + param, (table[l],)), x])) for l, x in node[1]])
    if node[0] == "seq":
        return ("seq", [retag_writer(x, table, param) for x in node[1]])
    return node


def trait_pairs(Y):
    enc, dec = {}, {}
    for i in Y.impls:
        t = i.get("trait_def")
        for name, path in i["fns"]:
            if t == ENC and name == "encode":
                enc[i["self_ty"]] = path
            if t == DEC and name == "decode":
                dec[i["self_ty"]] = path
    return [(W.short_type(t), [enc[t]], dec[t], {}) for t in sorted(enc) if t in dec and W.short_type(t) not in ("Update",)]


def compare_pair(R, wc, name, writers, reader, opts, rid="C09.wire"):
    Y = wc.Y
    rnode = wc.node(reader)
    rfn = Y.fn(reader)
    inline = wc.inline_map("w")
    rinline = wc.inline_map("r")
    if opts.get("inline") is not None:
        inline = {k: v for k, v in inline.items() if k in opts["inline"]}
        rinline = {k: v for k, v in rinline.items() if k in opts["inline"]}
    try:
        rwords = {norm_word(w) for w in W.words(rnode, rinline)}
    except OverflowError:
        R.ob(rid, rfn, "grammar:" + name, False, "reader grammar too large to enumerate")
        return 0
    R.touch(rfn)
    n = 0
    for wpath in writers:
        wfn = Y.fn(wpath)
        wnode = wc.node(wpath)
        if opts.get("arm_table"):
            wnode = retag_writer(wnode, variant_table(Y, opts["arm_table"]), opts["param"])
        try:
            wwords = {norm_word(w) for w in W.words(wnode, inline)}
        except OverflowError:
            R.ob(rid, wfn, "grammar:" + name, False, "writer grammar too large to enumerate")
            continue
        R.touch(wfn)
        n += 1
        # every word the writer can emit must be accepted by the reader
        _, bw = W.lang_subset(wwords, rwords)
        only_w = sorted(W.show_word(w) for w in bw)
        # and (for the primary writer of the pair) every reader word should be producible: reported when the writer is `full`
        only_r = sorted(W.show_word(rw) for rw in rwords if not any(W.word_accepts(rw, ww) for ww in wwords))
        full = opts.get("full", wpath == writers[0])
        ok = not only_w and (not only_r or not full)
        detail = "%d writer word(s) ⊆ %d reader word(s)" % (len(wwords), len(rwords))
        if only_w:
            detail = "writer emits sequences the reader does not parse: %s" % only_w[:4]
            if only_r:
                detail += " ; reader-only sequences: %s" % only_r[:4]
        elif only_r and full:
            detail = "reader accepts sequences this (primary) writer never produces: %s" % only_r[:4]
        R.ob(rid, wfn, "grammar:%s<->%s" % (name, reader.rsplit("::", 1)[-1]), ok, detail)
        for pr in wc.ex[wpath].problems:
            R.ob(rid, wfn, "shape", False, pr)
    for pr in wc.ex[reader].problems:
        R.ob(rid, rfn, "shape", False, pr)
    return n


def rule_wire(R, ctx, rid="C09.wire", only=None):
    Y = ctx.yrs
    R.rule(rid, "R-WIRE writer/reader grammar agreement: for every codec pair the set of primitive sequences the writer can emit "
                "(arms expanded, loops as starred sub-languages, nested codecs as nonterminals, helper writers inlined, tag constants "
                "folded into the primitive they are written/matched with) is a subset of — for the primary writer equal to — the "
                "set the reader parses; primitives pair by kind and var-int signedness (write_var<T>/read_var<T>, write_len/read_len, …)")
    wc = WireCtx(Y)
    pairs = EXPLICIT_PAIRS + trait_pairs(Y)
    n = 0
    for name, writers, reader, opts in pairs:
        if only and name not in only:
            continue
        n += compare_pair(R, wc, name, writers, reader, opts, rid)
    if not only:
        R.floor(rid, "writer/reader function pairs compared", n, 26)
    return wc


def rule_counts(R, ctx, wc, rid="C09.count"):
    Y = ctx.yrs
    R.rule(rid, "R-WIRE count-prefixed repetition: in every codec function each loop that emits/consumes wire symbols has a recognised "
                "trip count (for over a range/collection, `i=0; while i<n {..; i+=1}`, `r=n; while r>0 {..; r-=1}`); a reader loop runs "
                "exactly the count it read (trip == the bound primitive, offset 0); a writer's announced count equals the trip count of "
                "its loop plus the units it writes outside the loop (linear identity)")
    n = 0
    for path, node in sorted(wc.nodes.items()):
        fn = Y.fn(path)
        ex = wc.ex[path]
        is_reader = any(s and s[0] == "p" and True for s in ()) or "decode" in path.rsplit("::", 1)[-1] or path.endswith("::new")
        for st in W.stars_of(node):
            trip = st[2]
            n += 1
            site = "loop@%s" % _loop_ord(node, st)
            if trip[0] != "lin":
                R.ob(rid, fn, site, False, "unrecognised loop shape inside a codec (trip count %s): fail closed" % (trip[1],), "%s:%s" % (fn.file, st[3]))
                continue
            t = trip[1]
            if is_reader:
                reads = [k for k in t if isinstance(k, str) and k.startswith("read:")]
                others = {k: v for k, v in t.items() if not (isinstance(k, str) and k.startswith("read:")) and v != 0}
                ok = len(reads) == 1 and t[reads[0]] == 1 and not others
                # loops over something other than a count read from the wire (e.g. bytes already in memory) are fine if they emit no read of a count
                R.ob(rid, fn, site, ok, "reader loop runs %s time(s)" % W.lin_show(t) + ("" if ok else " — not exactly the count read from the wire"),
                     "%s:%s" % (fn.file, st[3]))
            else:
                ok, why = writer_count_ok(ex, node, st)
                R.ob(rid, fn, site, ok, why, "%s:%s" % (fn.file, st[3]))
    R.floor(rid, "wire loops checked", n, 25)


def _loop_ord(node, st):
    return str(W.stars_of(node).index(st))


def writer_count_ok(ex, node, st):
    """find the count primitive preceding the star in its sequence; count == trip + (# copies of the loop unit outside the loop)."""
    seqs = []

    def visit(n):
        if n[0] == "seq":
            seqs.append(n[1])
            for x in n[1]:
                visit(x)
        elif n[0] == "alt":
            for _, x in n[1]:
                visit(x)
        elif n[0] == "star":
            visit(n[1])

    visit(node)
    if node[0] != "seq":
        seqs.append([node])
    trip = st[2][1]
    for items in seqs:
        if st not in items:
            continue
        i = items.index(st)
        # nearest preceding count-like primitive (var/len with a non-constant argument)
        cnt = None
        j = i - 1
        extra = 0
        body_syms = W.words(st[1])
        while j >= 0:
            x = items[j]
            if x[0] == "p" and x[1] in ("var", "len") and not x[3]:
                # candidate count
                expr = ex.prim_exprs[x[5]] if len(x) > 5 and x[5] is not None else None
                if expr is not None:
                    c = W.lin(expr, ex.env)
                    # units outside the loop: nodes between the count and the loop (and right after the loop) with the loop's language
                    units = 0
                    for y in items[j + 1:i] + items[i + 1:i + 2]:
                        try:
                            if W.words(y) == body_syms:
                                units += 1
                        except OverflowError:
                            pass
                    lhs = W.lin_norm(c)
                    rhs = W.lin_norm(W.lin_add(trip, {1: units}))
                    if lhs == rhs:
                        if () in body_syms:
                            return False, ("count %s == trip %s, but an iteration can emit nothing (a `continue` / empty arm before the "
                                           "first write): fewer units than announced are written" % (W.lin_show(c), W.lin_show(trip)))
                        return True, "count %s == trip %s + %d unit(s) outside the loop" % (W.lin_show(c), W.lin_show(trip), units)
                    cnt = (c, units)
            j -= 1
        if cnt:
            return False, "announced count %s differs from trip %s + %d unit(s) outside the loop" % (W.lin_show(cnt[0]), W.lin_show(trip), cnt[1])
        return True, "loop over %s with no count prefix in this function (count written by the caller or implicit)" % W.lin_show(trip)
    return True, "loop not in a sequence with a count"


def check(ctx, R):
    wc = R.run("C09.wire", lambda R, c: None, ctx)
    holder = {}
    R.run("C09.wire", lambda R, c: holder.setdefault("wc", rule_wire(R, c)), ctx)
    if "wc" in holder:
        R.run("C09.count", rule_counts, ctx, holder["wc"])
    from . import c09_flags, c09_prims
    R.run("C09.flags", c09_flags.rule_flags, ctx)
    R.run("C09.prim", c09_prims.rule_prims, ctx)
    R.run("C09.tables", c09_prims.rule_tables, ctx)
    R.run("C09.packed", c09_prims.rule_packed, ctx)
    R.run("C09.packed", c09_prims.rule_ds_running, ctx)
    R.run("C09.dict", c09_prims.rule_dict, ctx)
    R.run("C09.json", c09_prims.rule_json, ctx)
    R.run("C09.varint", c09_prims.rule_varint, ctx)
    return {}
