"""C08 — document-free update algebra: narrow structural clauses."""
import re
from ylib import facts as F
from .common import *  # noqa


def version_purity(R, rid, facts, prefix_filter=None, allowed=None):
    """a function named *_v1 / *V1* must not call anything named *_v2 / *V2* and vice versa."""
    n = 0
    for fn in facts.fns.values():
        if not fn.mir or fn.kind == "closure":
            continue
        name = fn.path.rsplit("::", 1)[-1]
        m = re.search(r"_v([12])$", name)
        if not m:
            continue
        if prefix_filter and not prefix_filter(fn):
            continue
        ver = m.group(1)
        other = "2" if ver == "1" else "1"
        n += 1
        bad = []
        for f2 in facts.with_closures(fn):
            for cs in f2.calls():
                nm = F.strip_generics(cs.name)
                last = nm.rsplit("::", 1)[-1]
                if re.search(r"_v%s$" % other, last) or re.search(r"(Encoder|Decoder)V%s\b" % other, nm):
                    if allowed and allowed(fn, cs):
                        continue
                    bad.append("%s @%s" % (nm, cs.loc()))
        R.ob(rid, fn, "version-purity", not bad, "a v%s function calls v%s code: %s" % (ver, other, bad[:3]) if bad else
             "only v%s encoders/decoders/twins are called" % ver, nontrivial=True)
    return n


def rule_a(R, ctx):
    Y = ctx.yrs
    R.rule("C08.a", "R-SIB+R-PROV 'for v1 and v2 alike': merge_updates_v1/_v2 and encode_state_vector_from_update_v1/_v2 have equal "
                    "skeletons; diff_updates_vN decodes both arguments with the version-N decoder, calls Update::encode_diff(&sv, "
                    "&mut EncoderVN) and returns that encoder's bytes; no *_v1 function anywhere in yrs calls v2 code or vice versa")
    sibling(R, "C08.a", Y, "yrs::alt::merge_updates_v1", "yrs::alt::merge_updates_v2",
            allowed=())
    sibling(R, "C08.a", Y, "yrs::alt::encode_state_vector_from_update_v1", "yrs::alt::encode_state_vector_from_update_v2")
    for ver in ("1", "2"):
        fn = Y.fn("yrs::alt::diff_updates_v" + ver)
        v = FnView(fn)
        ed = fn.calls_to("yrs::update::Update::encode_diff")
        R.floor("C08.a", "encode_diff call in diff_updates_v" + ver, len(ed), 1)
        for cs, site in ordinal_sites(ed):
            upd, sv, enc = v.arg(cs, 0), v.arg(cs, 1), v.arg(cs, 2)
            upd_ok = term_has_call(upd, "re:Decode>?::decode(_v%s)?$" % ver) and any(t[0] == "param" and t[2] == "update" for t in walk(upd))
            if ver == "2":
                upd_ok = upd_ok and (term_has_call(upd, "re:DecoderV2") or term_has_call(upd, "re:decode_v2$"))
            sv_ok = term_has_call(sv, "re:StateVector as yrs::updates::decoder::Decode>::decode_v%s$" % ver, "re:decode_v%s$" % ver) and \
                any(t[0] == "param" and t[2] == "state_vector" for t in walk(sv))
            enc_ok = term_has_call(enc, "yrs::updates::encoder::EncoderV%s::new" % ver)
            R.ob("C08.a", fn, site, upd_ok and sv_ok and enc_ok,
                 "update<-%s sv<-%s encoder<-%s" % (upd_ok, sv_ok, enc_ok), cs.loc())
        ret = v.terms.local(0, 12)
        ok = term_has_call(ret, "re:EncoderV%s as yrs::updates::encoder::Encoder>::to_vec$" % ver, "re:to_vec$") and \
            term_has_call(ret, "yrs::updates::encoder::EncoderV%s::new" % ver)
        R.ob("C08.a", fn, "returns-encoder-bytes", ok, "returns %s" % sshow(ret, 6))
        single_answer(R, "C08.a", fn, r"EncoderV%s::new$" % ver,
                      "the bytes of the encoder Update::encode_diff wrote to")
        cfg = fn.cfg()
        oks = [i for i, j, st in fn.stmts() if "agg" in st["rv"] and st["rv"]["agg"].get("variant") == "Ok" and str(st["rv"]["agg"].get("adt", "")).endswith("Result")]
        R.ob("C08.a", fn, "diff-on-every-ok-path", bool(ed) and bool(oks) and all(any(cfg.dominates(c.bb, o) for c in ed) for o in oks),
             "Update::encode_diff dominates every Ok return")
    for name in ("merge_updates_v1", "merge_updates_v2"):
        single_answer(R, "C08.a", Y.fn("yrs::alt::" + name), r"to_vec$|encode_v[12]$", "the encoding of Update::merge_updates(..)")
    for name in ("encode_state_vector_from_update_v1", "encode_state_vector_from_update_v2"):
        single_answer(R, "C08.a", Y.fn("yrs::alt::" + name), r"encode_v[12]$|to_vec$", "the encoding of Update::state_vector()")
    n = version_purity(R, "C08.a", Y)
    R.floor("C08.a", "versioned functions checked for purity", n, 20)


def rule_b(R, ctx, rid="C08.b"):
    Y = ctx.yrs
    fn = Y.fn("yrs::update::Update::merge_updates")
    v = FnView(fn)
    R.rule(rid, "R-PAIR delete-set union: in Update::merge_updates the delete set of *every* input is merged into the result "
                    "(result.delete_set.merge_with(update.delete_set) sits in the closure mapped directly over the input iterator, "
                    "before the filter that drops block-less inputs)")
    maps = fn.calls_to("re:Iterator>::map$", "re:::map$")
    found = False
    why = "no map over the inputs with a delete-set merge"
    for cs in maps:
        recv = v.arg(cs, 0)
        clo = v.arg(cs, 1)
        cfn = None
        for t in walk(clo):
            if t[0] == "agg" and "{closure#" in t[1]:
                cfn = Y.fns.get(t[1])
        if cfn is None:
            continue
        cv = FnView(cfn)
        mw = cfn.calls_to("re:IdSet::merge_with$", "re:::merge_with$")
        ok_merge = False
        for m in mw:
            a0 = simp_deep(cv.arg(m, 0))
            a1 = simp_deep(cv.arg(m, 1))
            if field_path(a0)[-1:] == ["delete_set"] and field_path(a1)[-1:] == ["delete_set"] and \
                    not cfn.cfg().in_loop(m.bb) and not cv.guards(m.bb):
                ok_merge = True
        if not ok_merge:
            continue
        # receiver is the input iterator itself: into_iter(param) with no filter/skip/take in between
        r = simp_deep(recv)
        bad_adaptors = [t[1] for t in walk(recv) if t[0] == "call" and re.search(r"::(filter|filter_map|skip|take|skip_while|take_while|step_by)$", F.strip_generics(t[1]))]
        direct = any(t[0] == "param" and t[1] == 1 for t in walk(recv)) and not bad_adaptors
        found = direct
        why = "map(|update| {result.delete_set.merge_with(update.delete_set); ..}) over %s ; adaptors before it: %s" % (show(r, 4), bad_adaptors)
    R.ob(rid, fn, "ds-union", found, why)
    # the result returned is the accumulator that received the delete sets
    ret = v.terms.local(0, 6)
    R.touch(fn)


def rule_d(R, ctx):
    Y = ctx.yrs
    fn = Y.fn("yrs::update::Update::encode_diff")
    v = FnView(fn)
    R.rule("C08.d", "R-GUARD+R-PROV per-client filtering by remote clock in Update::encode_diff: a client's blocks are selected from the "
                    "first non-Skip block with clock+len > remote clock (remote clock read from the given state vector for that client), "
                    "the offset is max(remote - clock, 0), and the update's own delete set is appended")
    gets = fn.calls_to("yrs::state_vector::StateVector::get")
    ok = any(simp(v.arg(c, 0))[0] == "param" and simp(v.arg(c, 0))[1] == 2 for c in gets)
    R.ob("C08.d", fn, "remote-clock", ok, "remote clock = remote_sv.get(client): %s" % ok)
    sel = [l for l in v.lits if l.term[0] == "bin" and l.term[1] == "Gt" and term_has_call(l.term[2], "yrs::block::Block::len")
           and term_has_call(l.term[3], "yrs::state_vector::StateVector::get")]
    R.ob("C08.d", fn, "selection", bool(sel), "selection test: %s" % [l.desc for l in sel][:1])
    skip = [l for l in v.lits if lit_call(l, "yrs::block::Block::is_skip")]
    R.ob("C08.d", fn, "skip-blocks-not-first", bool(skip), "Skip blocks are never chosen as the first written block: %s" % bool(skip))
    enc = [c for c in fn.calls_to("re:Encode>::encode$") if field_path(simp_deep(v.arg(c, 0)))[-1:] == ["delete_set"]]
    R.ob("C08.d", fn, "delete-set-appended", len(enc) == 1 and fn.cfg().postdominates(enc[0].bb, 0),
         "self.delete_set.encode(encoder) unconditionally at the end: %d site(s)" % len(enc))


def _nshow(t):
    def norm(t):
        t = simp_deep(t)
        if isinstance(t, tuple):
            if t and t[0] == "call":
                return ("call", t[1], tuple(norm(a) for a in t[2]))
            return tuple(norm(x) for x in t)
        return t
    return show(norm(t), 10)


def cmp_name(term):
    """canonical name of an ordering atom: Lt(a,b) == Gt(b,a) == !Le(b,a) == !Ge(a,b)."""
    t = simp_deep(term)
    if t[0] != "bin" or t[1] not in ("Lt", "Gt", "Le", "Ge"):
        return None
    a, b = _nshow(t[2]), _nshow(t[3])
    if t[1] == "Lt":
        return "LT:%s|%s" % (a, b)
    if t[1] == "Gt":
        return "LT:%s|%s" % (b, a)
    if t[1] == "Le":
        return "!LT:%s|%s" % (b, a)
    return "!LT:%s|%s" % (a, b)


def natural_loop(fn, tail, head):
    cfg = fn.cfg()
    body = {head, tail}
    st = [tail]
    while st:
        n = st.pop()
        if n == head:
            continue
        for p in cfg.pred[n]:
            if p not in body:
                body.add(p)
                st.append(p)
    return body


def rule_e(R, ctx, rid="C08.e"):
    from ylib.formula import Formulas, truth_check, fshow, atoms_of
    Y = ctx.yrs
    R.rule(rid, "R-ORDER/R-GUARD sort before gap: Update::merge_updates picks the head of the decoders sorted at the top of each "
                    "round; a Skip for a gap in a client's clocks may only be synthesised for that head. Once the round has advanced "
                    "the head decoder past blocks already written (move_next inside the round, before the gap decision), another "
                    "input may hold the blocks that fill the gap: the creation of a Skip must then be unreachable in that round "
                    "(path formula of the Skip construction AND `advanced` is unsatisfiable) — the round has to re-sort first")
    fn = Y.fn("yrs::update::Update::merge_updates")
    cfg = fn.cfg()
    sorts = [cs for cs in fn.calls() if re.search(r"::sort(_unstable)?(_by(_key)?)?$", F.strip_generics(cs.name))]
    R.floor(rid, "sort of the decoders in merge_updates", len(sorts), 1)
    skips = sorted({i for i, j, st in fn.stmts() if "agg" in st["rv"] and st["rv"]["agg"].get("variant") == "Skip"
                    and str(st["rv"]["agg"].get("adt", "")).endswith("block::Block")})
    R.floor(rid, "Skip constructions in merge_updates", len(skips), 1)
    if not sorts or not skips:
        return
    H = sorts[0].bb
    fm = Formulas(fn, simp_deep)
    fm.expand = False
    back = fm.back_edges()
    moves = [cs for cs in fn.calls_to("yrs::update::Memo::move_next")]
    R.floor(rid, "move_next calls in merge_updates", len(moves), 4)
    n = 0
    for S in skips:
        for cs, site in ordinal_sites(moves):
            # can the Skip construction be reached from this advance without passing the sort?
            seen = {cs.bb}
            st = [cs.bb]
            reach = False
            while st:
                b = st.pop()
                for nx in fn.succ(b):
                    if nx == H or nx in seen or fn.blocks[nx].get("cleanup"):
                        continue
                    if nx == S:
                        reach = True
                    seen.add(nx)
                    st.append(nx)
            if not reach:
                continue
            n += 1
            # flags set in the loop that contains the advance
            loops = [natural_loop(fn, t, h) for (t, h) in back if cs.bb in natural_loop(fn, t, h)]
            inner = min(loops, key=len) if loops else {cs.bb}
            flags = set()
            for i, j, stmt in fn.stmts():
                d = stmt["dst"]
                if i in inner and isinstance(d, int) and fn.local_ty(d) == "bool" and isinstance(stmt["rv"].get("use"), dict) \
                        and stmt["rv"]["use"].get("k") == 1:
                    flags.add(d)
            f = fm.reach_from(H, S)
            ats = atoms_of(f)
            flag_keys = {k for k, t in ats.items() if isinstance(t, tuple) and t and t[0] == "flag" and t[1] in flags}
            if not flag_keys:
                R.ob(rid, fn, "gap-after:" + site, False,
                     "the Skip construction (bb%d) is reachable from this advance of the head decoder without re-sorting, and its path "
                     "condition does not depend on any record of the advance (flags set with it: %s): a gap that another input fills is "
                     "written as Skip and that input's blocks are then dropped as already written" % (S, sorted(fn.local_name(x) or x for x in flags)),
                     cs.loc())
                continue

            def classify(k, t):
                if k in flag_keys:
                    return "ADV"
                return cmp_name(t)

            ok, cex, keys = truth_check(f, classify, lambda named: False if named.get("ADV") else None, max_atoms=16)
            R.ob(rid, fn, "gap-after:" + site, ok,
                 "Skip construction is unreachable in a round that advanced the head decoder (%d atoms)" % len(keys) if ok else
                 "Skip construction reachable although the head decoder was advanced in this round: %s" % (cex,), cs.loc())
    R.floor(rid, "advance sites that reach the gap decision without a sort", n, 1)


def rule_h(R, ctx, rid="C08.h"):
    from ylib.formula import Formulas, truth_check, fshow, atoms_of
    Y = ctx.yrs
    R.rule(rid, "R-GUARD nested cursor: IntoBlocks::next (the per-input block stream of merge_updates) moves on to the next "
                "client only when the current client's block queue is exhausted — path formula of `current_client.next()` implies "
                "`current_block is None` or `current_block.next() is None`; a skipped block (an ignorable Skip) stays on the "
                "same client, otherwise every block after the first Skip of a client is dropped from the merge")
    fn = Y.fn("<yrs::update::IntoBlocks as std::iter::Iterator>::next")
    v = FnView(fn)
    fm = Formulas(fn, simp_deep)
    outer = [c for c in fn.calls_to("re:^<std::vec::IntoIter<.*> as std::iter::Iterator>::next$")
             if field_path(simp_deep(v.arg(c, 0)))[-1:] == ["current_client"]]
    R.floor(rid, "current_client.next() in IntoBlocks::next", len(outer), 1)

    def classify(k, t):
        t = simp_deep(t) if isinstance(t, tuple) else t
        if not k.endswith(" is Some") and not k.endswith(" is None"):
            return None
        neg = "!" if k.endswith(" is None") else ""
        if isinstance(t, tuple) and t[0] == "field" and field_path(t)[-1:] == ["current_block"]:
            return neg + "HAS_QUEUE"
        if isinstance(t, tuple) and t[0] == "call" and re.search(r"vec_deque::IntoIter<.*Iterator>::next$", t[1]) \
                and field_path(simp_deep(t[2][0]))[-1:] == ["current_block"]:
            return neg + "HAS_BLOCK"
        return None

    for cs, site in ordinal_sites(outer):
        f = fm.reach(cs.bb)
        names = {classify(k, t) for k, t in atoms_of(f).items()}
        ok, cex, keys = truth_check(f, classify, lambda e: False if (e.get("HAS_QUEUE") and e.get("HAS_BLOCK")) else None, max_atoms=12)
        have = {"HAS_QUEUE", "HAS_BLOCK"} <= {n.lstrip("!") for n in names if n}
        R.ob(rid, fn, site, ok and have,
             "next client is taken only when the current queue is absent or exhausted: %s" % fshow(f) if ok and have else
             "next client is taken although the current client's queue still yielded a block: %s" % (cex if have else "queue tests missing from " + fshow(f)),
             cs.loc())


def rule_i(R, ctx, rid="C08.i"):
    Y = ctx.yrs
    R.rule(rid, "R-GUARD document-free questions about an update: Update::extends answers true exactly behind `block.clock <= sv[client]`, "
                "`block.clock + block.len > sv[client]` and `!is_skip()` of the same block; state_vector_lower raises the client's entry "
                "with the clock of its first block that is not a Skip (set_max under `!is_skip()`, the id's own clock); insertions "
                "records an Item under `include_deleted || !is_deleted()` with (id, len) of that item and a GC range only under "
                "include_deleted with (range.id(), range.len)")
    fn = Y.fn("yrs::update::Update::extends")
    v = FnView(fn)
    trues = [i for i, j, st in fn.stmts() if st["dst"] == 0 and isinstance(st["rv"].get("use"), dict) and st["rv"]["use"].get("k") == 1]
    R.floor(rid, "`return true` of Update::extends", len(trues), 1)
    for k, bb in enumerate(trues):
        g = v.guards(bb)
        le = any(isinstance(l.term, tuple) and l.term[0] == "bin" and l.term[1] == "Le" and l.polarity is True and
                 term_has_call(l.term[3], "yrs::state_vector::StateVector::get") and term_has_field(l.term[2], "BlockRange.clock") for l in g)
        gt = any(isinstance(l.term, tuple) and l.term[0] == "bin" and l.term[1] == "Gt" and l.polarity is True and
                 term_has_call(l.term[3], "yrs::state_vector::StateVector::get") and term_has_field(l.term[2], "BlockRange.len")
                 and term_has_field(l.term[2], "BlockRange.clock") for l in g)
        ns = any(lit_call(l, "yrs::block::Block::is_skip", False) for l in g)
        R.ob(rid, fn, "extends#%d" % k, le and gt and ns, "true under clock <= sv, clock + len > sv, !is_skip: %s %s %s" % (le, gt, ns))
    fn = Y.fn("yrs::update::Update::state_vector_lower")
    v = FnView(fn)
    sm = fn.calls_to("yrs::state_vector::StateVector::set_max")
    R.floor(rid, "set_max in state_vector_lower", len(sm), 1)
    for cs, site in ordinal_sites(sm):
        ok = v.has_guard(cs.bb, lambda l: lit_call(l, "yrs::block::Block::is_skip", False)) and \
            term_has_call(v.arg(cs, 2, 10), "yrs::block::Block::id") and term_has_field(v.arg(cs, 2, 10), "ID.clock")
        R.ob(rid, fn, site, ok, "set_max(client, first non-Skip block's id.clock): %s" % ok, cs.loc())
    fn = Y.fn("yrs::update::Update::insertions")
    v = FnView(fn)
    ins = fn.calls_to("yrs::id_set::IdSet::insert")
    R.floor(rid, "IdSet::insert in insertions", len(ins), 2)
    for cs, site in ordinal_sites(ins):
        kinds, used = kinds_reaching(Y, fn, cs.bb, enum="yrs::block::Block", place_hint=None, names=["Item", "GC", "Skip"])
        a1, a2 = simp_deep(v.arg(cs, 1, 10)), simp_deep(v.arg(cs, 2, 10))
        if kinds == {"GC"}:
            ok = v.has_guard(cs.bb, lambda l: isinstance(l.term, tuple) and l.term[0] == "param" and fn.local_name(l.term[1]) == "include_deleted" and l.polarity is True) \
                and term_has_call(a1, "yrs::block::BlockRange::id") and field_path(a2)[-1:] == ["len"]
            R.ob(rid, fn, site + ":GC", ok, "GC range recorded under include_deleted with (range.id(), range.len): %s" % ok, cs.loc())
        elif kinds == {"Item"}:
            ok = field_path(a1)[-1:] == ["id"] and field_path(a2)[-1:] == ["len"] and root_name(a1) == root_name(a2)
            R.ob(rid, fn, site + ":Item", ok, "item recorded with its own (id, len): %s" % ok, cs.loc())
        else:
            R.ob(rid, fn, site, False, "an insertion is recorded for block kinds %s" % sorted(kinds), cs.loc())
    dels = fn.calls_to("yrs::block::Item::is_deleted")
    R.ob(rid, fn, "deleted-filter", len(dels) == 1 and FnView(fn).has_guard(dels[0].bb, lambda l: isinstance(l.term, tuple) and l.term[0] == "param"
                                                                               and fn.local_name(l.term[1]) == "include_deleted" and l.polarity is False),
         "is_deleted() is consulted exactly where include_deleted is false")


def check(ctx, R):
    from . import wire_rules
    R.run("C08.a", rule_a, ctx)
    R.run("C08.b", rule_b, ctx)
    R.run("C08.c", wire_rules.c08_c, ctx)
    R.run("C08.d", rule_d, ctx)
    R.run("C08.e", rule_e, ctx)
    from . import preds
    R.run("C08.p", lambda R, c: preds.rule(R, c, "C08.p", ["same_type"]), ctx)
    from . import c06
    R.run("C08.f", lambda R, c: c06.rule_g(R, c, "C08.f", only=("yrs::update::Update::encode_diff",)), ctx)
    R.run("C08.g", lambda R, c: c06.rule_h(R, c, "C08.g"), ctx)
    R.run("C08.h", rule_h, ctx)
    R.run("C08.i", rule_i, ctx)
    return {}
