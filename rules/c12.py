"""C12 — undo/redo: narrow structural clauses (siblings, keep/GC protection, scope guards, redo wiring)."""
from ylib import facts as F
from ylib import skel as SK
from ylib.formula import Formulas, truth_check, fshow
from .common import *  # noqa

UM = "yrs::undo::UndoManager"
TXN = "yrs::transaction::TransactionMut"


def unwrap_async(s):
    """async fn bodies are a closure (coroutine) wrapping the real body; drop await nodes."""
    def strip(x):
        if isinstance(x, tuple):
            if x and x[0] == "await" and len(x) == 2:
                return strip(x[1])
            if x and x[0] == "closure" and len(x) == 2:
                return strip(x[1])
            return tuple(strip(y) for y in x)
        return x
    return strip(s)


ASYNC_SUBS = [
    (r"^<yrs::doc::Doc as yrs::transact::AsyncTransact<'_>>::", "<Doc as Transact>::"),
    (r"^<yrs::doc::Doc as yrs::transact::AsyncTransact>::", "<Doc as Transact>::"),
    (r"^<yrs::doc::Doc as yrs::transact::Transact>::", "<Doc as Transact>::"),
    (r"^yrs::transact::AsyncTransact::", "Transact::"),
    (r"^yrs::transact::Transact::", "Transact::"),
    (r"^<.* as std::future::IntoFuture>::into_future$", "ID"),
    (r"^std::future::IntoFuture::into_future$", "ID"),
    (r"::pop_blocking$", "::pop"), (r"::undo_blocking$", "::undo"), (r"::redo_blocking$", "::redo"),
]


def drop_identity(s):
    """remove ('call','ID', x) wrappers introduced by IntoFuture."""
    if isinstance(s, tuple):
        if len(s) == 3 and s[0] == "call" and s[1] == "ID":
            return drop_identity(s[2])
        return tuple(drop_identity(x) for x in s)
    return s


def sib_async(R, rule, Y, a, b):
    fa, fb = Y.fn(a), Y.fn(b)
    sa = SK.linearize(drop_identity(SK.rename(unwrap_async(SK.skel(fa.hir["body"])), ASYNC_SUBS)))
    sb = SK.linearize(drop_identity(SK.rename(unwrap_async(SK.skel(fb.hir["body"])), ASYNC_SUBS)))
    ds = SK.diff(sa, sb)
    R.touch(fa)
    R.touch(fb)
    R.ob(rule, fa, "sibling:" + b, not ds, ("async and blocking variants agree (%d calls)" % len(SK.calls_in(sa))) if not ds else
         "skeletons differ: " + "; ".join("%s: %s vs %s" % d for d in ds[:3]))


def rule_a(R, ctx):
    Y = ctx.yrs
    R.rule("C12.a", "R-SIB: the async and blocking variants pop/pop_blocking, undo/undo_blocking, redo/redo_blocking have equal call "
                    "skeletons modulo `.await` and AsyncTransact↔Transact")
    sib_async(R, "C12.a", Y, UM + "::pop", UM + "::pop_blocking")
    sib_async(R, "C12.a", Y, UM + "::undo", UM + "::undo_blocking")
    sib_async(R, "C12.a", Y, UM + "::redo", UM + "::redo_blocking")


def keep_propagates(R, ctx, rid):
    """the merged block of a squash is kept if the absorbed block was (a kept tombstone must not become collectable by being
    merged into an unkept neighbour)."""
    Y = ctx.yrs
    sq = Y.fn("yrs::block::ItemPtr::try_squash")
    sv = FnView(sq)
    sk = sq.calls_to("yrs::block::ItemFlags::set_keep")
    ok = bool(sk) and all(sv.has_guard(c.bb, lambda l: lit_call(l, "yrs::block::ItemFlags::is_keep", True) and root_name(simp(l.term)[2][0]) == "other") for c in sk)
    R.ob(rid, sq, "keep-propagates", ok,
         "try_squash: self.info.set_keep() under other.info.is_keep()" if ok else
         "try_squash does not carry the KEEP flag of the absorbed block into the merged block (set_keep calls: %d): a tombstone an undo "
         "manager still needs becomes collectable by a forced GC after it is squashed into an unkept neighbour" % len(sk))


def rule_b(R, ctx):
    Y = ctx.yrs
    R.rule("C12.b", "R-PAIR+R-GUARD undoable tombstones survive GC: UndoManager::handle_after_transaction calls keep(true) on every "
                    "in-scope item of the transaction's delete set; Item::gc and GCCollector::collect_marked act only under "
                    "is_deleted() && !info.is_keep(); ItemPtr::try_squash propagates KEEP from the absorbed block; ItemPtr::keep(true) "
                    "sets the flag on the item and its ancestors")
    fn = Y.fn(UM + "::handle_after_transaction")
    v = FnView(fn)
    keeps = [c for c in fn.calls_to("yrs::block::ItemPtr::keep") if simp(v.arg(c, 1))[0] == "const" and simp(v.arg(c, 1))[1] == 1]
    R.floor("C12.b", "keep(true) in handle_after_transaction", len(keeps), 1)
    for cs, site in ordinal_sites(keeps):
        item = v.arg(cs, 0)
        from_ds = term_has_field(item, "TransactionMut.delete_set") and term_has_call(item, "re:::blocks$")
        g = v.guards(cs.bb)
        scoped = any(lit_mentions_call(l, "re:Iterator>::any$", True) or lit_mentions_call(l, "re:::any$", True) for l in g)
        extra = [l for l in g if not (term_has_call(l.term, "re:::next$") or term_has_call(l.term, "re:::as_item$") or
                                       term_has_call(l.term, "re:::any$") or term_has_call(l.term, UM + "::should_skip"))]
        R.ob("C12.b", fn, site, from_ds and scoped and not extra,
             "keep(true) on items of txn.delete_set.blocks(): from_ds=%s scoped=%s other-conditions=%s" % (from_ds, scoped, [l.desc for l in extra]), cs.loc())
    gc = Y.fn("yrs::block::Item::gc")
    fm = Formulas(gc, simp_deep)
    gv = FnView(gc)

    def cls(key, term):
        if term is None or term[0] != "call":
            return None
        if callee_match(term[1], "yrs::block::Item::is_deleted"):
            return "DEL"
        if callee_match(term[1], "yrs::block::ItemFlags::is_keep"):
            return "KEEP"
        return None

    effects = gc.calls_to("yrs::block::ItemContent::gc", "yrs::gc::GCCollector::mark", "yrs::block::ItemFlags::clear_countable")
    for i, j, s in gc.field_writes("Item.content"):
        effects.append(type("S", (), {"bb": i, "name": "write:Item.content", "loc": lambda self=None, fn=gc, s=s: "%s:%s" % (fn.file, s["line"])})())
    R.floor("C12.b", "effects in Item::gc", len(effects), 4)
    for k, e in enumerate(effects):
        f = fm.reach(e.bb)
        ok, cex, keys = truth_check(f, cls, lambda en: None if (en.get("DEL") and not en.get("KEEP")) else False
                                    if ("DEL" in en and "KEEP" in en) else None)
        R.ob("C12.b", gc, "effect#%d:%s" % (k, F.strip_generics(e.name).rsplit("::", 1)[-1]), ok and {"DEL", "KEEP"} <= {cls(a, t) for a, t in __import__("ylib.formula", fromlist=["atoms_of"]).atoms_of(f).items()},
             "reached only if %s" % fshow(f), e.loc())
    cm = Y.fn("yrs::gc::GCCollector::collect_marked")
    cv = FnView(cm)
    fm2 = Formulas(cm, simp_deep)
    reps = [(i, j, s) for i, j, s in cm.stmts() if isinstance(s["dst"], dict) and s["dst"]["p"] == ["*"] and
            "yrs::block::Block" in cm.local_ty(s["dst"]["l"])]
    R.floor("C12.b", "block replacement in collect_marked", len(reps), 1)
    for k, (i, j, s) in enumerate(reps):
        g = cv.guards(i)
        ok = any(lit_call(l, "yrs::block::Item::is_deleted", True) for l in g) and any(lit_call(l, "yrs::block::ItemFlags::is_keep", False) for l in g)
        R.ob("C12.b", cm, "replace#%d" % k, ok, "guards: %s" % [l.desc for l in g][-3:], "%s:%s" % (cm.file, s["line"]))
    keep_propagates(R, ctx, "C12.b")
    kp = Y.fn("yrs::block::ItemPtr::keep")
    kv = FnView(kp)
    sk = kp.calls_to("yrs::block::ItemFlags::set_keep")
    ck = kp.calls_to("yrs::block::ItemFlags::clear_keep")
    ok = len(sk) == 1 and len(ck) == 1 and kv.has_guard(sk[0].bb, lambda l: simp(l.term)[0] == "param" and l.polarity is True) \
        and kv.has_guard(ck[0].bb, lambda l: simp(l.term)[0] == "param" and l.polarity is False)
    R.ob("C12.b", kp, "keep-sets", ok, "set_keep under keep==true, clear_keep under keep==false: %s" % ok)
    anc = any(term_has_field(kv.terms.rvalue(s["rv"], 8), "Branch.item") for i, j, s in kp.stmts() if "rv" in s) or \
        any(term_has_field(F.Terms(c).local(0, 8), "Branch.item") for c in Y.closures.get(kp.path, []))
    R.ob("C12.b", kp, "keep-ancestors", anc, "walks up through parent.item: %s" % anc)


def rule_c(R, ctx):
    Y = ctx.yrs
    fn = Y.fn(UM + "::try_process")
    v = FnView(fn)
    R.rule("C12.c", "R-GUARD scope and liveness in UndoManager::try_process: an item is queued for deletion only if it is "
                    "!is_deleted() and inside the tracked scope; a deletion is queued for redo only if in scope and not part of the "
                    "same step's insertions; txn.delete is called only on queued items; redo only on queued deletions")
    pushes = [c for c in fn.calls_to("std::vec::Vec::push")]
    inserts = [c for c in fn.calls_to("std::collections::HashSet::insert")]
    R.floor("C12.c", "to_delete.push", len(pushes), 1)
    R.floor("C12.c", "to_redo.insert", len(inserts), 1)
    for cs, site in ordinal_sites(pushes):
        g = v.guards(cs.bb)
        live = any(lit_call(l, "yrs::block::Item::is_deleted", False) for l in g)
        scoped = any(lit_mentions_call(l, "re:::any$", True) for l in g)
        src = term_has_field(v.arg(cs, 1), "StackItem<M>.insertions") or term_has_call(v.arg(cs, 1), "yrs::store::Store::materialize")
        R.ob("C12.c", fn, site, live and scoped and src, "to_delete.push under live=%s in-scope=%s" % (live, scoped), cs.loc())
    for cs, site in ordinal_sites(inserts):
        g = v.guards(cs.bb)
        scoped = any(lit_mentions_call(l, "re:::any$", True) for l in g)
        notins = any(lit_mentions_call(l, "re:IdSet::contains$", False) and term_has_field(l.term, "insertions") for l in g)
        R.ob("C12.c", fn, site, scoped and notins, "to_redo.insert under in-scope=%s not-in-insertions=%s" % (scoped, notins), cs.loc())
    dels = fn.calls_to(TXN + "::delete")
    R.floor("C12.c", "txn.delete in try_process", len(dels), 1)
    for cs, site in ordinal_sites(dels):
        a = v.arg(cs, 1)
        ok = term_has_call(a, "re:Iterator>::next$") and (term_has_call(a, "re:::rev$") or term_has_call(a, "re:::iter$"))
        R.ob("C12.c", fn, site, ok, "delete(%s)" % sshow(a, 5), cs.loc())
    redos = fn.calls_to("yrs::block::ItemPtr::redo")
    R.floor("C12.c", "redo in try_process", len(redos), 1)
    for cs, site in ordinal_sites(redos):
        a = v.arg(cs, 0)
        ok = term_has_call(a, "re:^std::collections::HashSet::iter$") or term_has_call(a, "re:hash_set::Iter")
        R.ob("C12.c", fn, site, ok, "redo on %s" % sshow(a, 5), cs.loc())
    cm = fn.calls_to(TXN + "::commit")
    # every delete / re-creation performed by the step is committed: some commit() post-dominates each of those calls
    effects = list(dels) + list(redos)
    committed = bool(cm) and all(any(fn.cfg().postdominates(c.bb, e.bb) for c in cm) for e in effects)
    R.ob("C12.c", fn, "commits", committed, "commit() post-dominates every delete / redo of the step: %s (%d commit site(s), %d effect site(s))" % (committed, len(cm), len(effects)))


def rule_d(R, ctx):
    Y = ctx.yrs
    fn = Y.fn("yrs::block::ItemPtr::redo")
    v = FnView(fn)
    cfg = fn.cfg()
    R.rule("C12.d", "R-PAIR redo wiring in ItemPtr::redo: the copy is created by Item::new with the old item's content and parent_sub, "
                    "`item.redone = Some(copy id)` and `copy.info.set_keep()` happen iff Item::new succeeded, and the copy is "
                    "integrated through TransactionMut::integrate_item (an ordinary replicated operation)")
    news = fn.calls_to("yrs::block::Item::new")
    ints = fn.calls_to(TXN + "::integrate_item")
    sk = fn.calls_to("yrs::block::ItemFlags::set_keep")
    ws = fn.field_writes("Item.redone")
    R.ob("C12.d", fn, "sites", len(news) == 1 and len(ints) == 1 and len(sk) == 1 and len(ws) == 1,
         "Item::new×%d integrate_item×%d set_keep×%d redone-write×%d" % (len(news), len(ints), len(sk), len(ws)))
    if not (news and ints and sk and ws):
        return
    n, it, k, w = news[0], ints[0], sk[0], ws[0]
    R.ob("C12.d", fn, "order", cfg.dominates(n.bb, w[0]) and cfg.dominates(n.bb, k.bb) and cfg.dominates(k.bb, it.bb) and cfg.dominates(w[0], it.bb)
         and cfg.postdominates(it.bb, w[0]), "Item::new ≺ redone-write, set_keep ≺ integrate_item, all on the success path")
    val = simp_deep(v.terms.rvalue(w[2]["rv"], 10))
    R.ob("C12.d", fn, "redone-is-copy-id", val[0] == "agg" and val[1].endswith("Option::Some") and term_has_call(val, "yrs::block::Item::new"),
         "item.redone = %s" % show(val, 6))
    content = simp_deep(v.arg(n, 7))
    psub = simp_deep(v.arg(n, 6))
    R.ob("C12.d", fn, "copy-content", field_path(content)[-1:] == ["content"] and field_path(psub)[-1:] == ["parent_sub"],
         "content = %s ; parent_sub = %s" % (show(content, 4), show(psub, 4)))
    arg = v.arg(it, 1)
    R.ob("C12.d", fn, "integrates-copy", term_has_call(arg, "yrs::block::Item::new"), "integrate_item(%s)" % sshow(arg, 4))
    ret = v.terms.local(0, 8)
    R.ob("C12.d", fn, "returns-integrated", term_has_call(ret, TXN + "::integrate_item"), "returns the integrated copy")


def rule_e(R, ctx):
    Y = ctx.yrs
    fn = Y.fn(UM + "::try_process")
    for cs in fn.calls_to("re:^std::collections::HashSet::iter$")[:1]:
        R.inventory("C12.e", fn, "unordered-redo-order", "redo iterates a HashSet<ItemPtr> (hashed by id): the order in which deletions are "
                    "redone is not deterministic; whether order matters is a value question", cs.loc())


def rule_f(R, ctx, rid="C12.f"):
    Y = ctx.yrs
    R.rule(rid, "R-FIXPOINT redone chains: every lookup `get_item_clean_start(<x>.redone)` in the crate (ItemPtr::redo: re-created "
                "parent, left/right neighbour traces; Store::follow_redone: the walk sticky indexes and undo use) is loop-carried — "
                "the id looked up on the next round depends on the item found on this one (flow-sensitive taint from the call's "
                "result back to its own argument) — so a chain of re-creations is followed to its end; only `self.redone` in "
                "ItemPtr::redo is a single hop")
    total = 0
    carried = 0
    for p, fn in sorted(Y.fns.items()):
        if not fn.mir or "{closure" in p:
            continue
        cands = [cs for cs in fn.calls_to("yrs::block_store::BlockStore::get_item_clean_start")]
        if not cands:
            continue
        v = FnView(fn)
        sites = [cs for cs in cands if len(cs.args) > 1 and term_has_field(v.arg(cs, 1, 16), "Item.redone")]
        # a function that reads some item's `redone` and looks ids up, but not through a term we can see, is examined too
        reads_redone = any(isinstance(st["rv"].get("use"), dict) and isinstance(st["rv"]["use"].get("c", st["rv"]["use"].get("m")), dict) and
                           any(isinstance(x, str) and x.endswith("Item.redone") for x in st["rv"]["use"].get("c", st["rv"]["use"].get("m")).get("p", []))
                           for i, j, st in fn.stmts())
        if not sites and not reads_redone:
            continue
        if not sites:
            sites = cands
        for cs, site in ordinal_sites(sites):
            total += 1
            t = simp_deep(v.arg(cs, 1, 16))
            own = p.endswith("ItemPtr::redo") and t[0] == "field" and t[1].endswith("Item.redone") and simp_deep(t[2])[0] == "param" and simp_deep(t[2])[1] == 1
            if own:
                R.ob(rid, fn, site, True, "self.redone: the item was already redone, its replacement is returned (single hop)", cs.loc(), nontrivial=False)
                continue
            lc = F.loop_carried(fn, cs, 1)
            carried += 1 if lc else 0
            R.ob(rid, fn, site, lc,
                 "redone id %s is re-read from the item found by the previous round" % sshow(t, 4) if lc else
                 "the lookup of %s is a single hop: after two re-creations (undo, redo, undo) the caller is handed a stale "
                 "incarnation" % sshow(t, 5), cs.loc())
            # an in-block offset carried along the chain must be measured against the id looked up in *this* round
            if lc:
                for c2 in fn.calls():
                    if re.search(r"::(checked_sub|wrapping_sub|saturating_sub)$", c2.name) and len(c2.args) == 2:
                        a, b = simp_deep(v.arg(c2, 0, 10)), v.arg(c2, 1, 10)
                    else:
                        continue
                    if term_has_call(b, "yrs::block_store::BlockStore::get_item_clean_start") and field_path(simp_deep(b))[-1:] == ["clock"] \
                            and a[0] == "field" and a[1].endswith("ID.clock") and simp_deep(a[2])[0] == "param":
                        arg = simp_deep(v.arg(cs, 1, 10))
                        if not (arg[0] == "param" and arg[1] == simp_deep(a[2])[1]):
                            R.ob(rid, fn, site + ":offset-base", False,
                                 "an offset is computed as <parameter %s>.clock - <found block>.clock inside the chain walk: from the "
                                 "second hop on the parameter is no longer the id that was looked up, so the offset is wrong (or the "
                                 "subtraction fails and the walk gives up)" % fn.local_name(simp_deep(a[2])[1]), c2.loc())
                for i2, j2, st2 in fn.stmts():
                    rv2 = st2["rv"]
                    if rv2.get("bin") in ("Sub", "SubWithOverflow"):
                        a = simp_deep(v.terms.operand(rv2["a"], 10))
                        b = v.terms.operand(rv2["b"], 10)
                        if term_has_call(b, "yrs::block_store::BlockStore::get_item_clean_start") and a[0] == "field" and a[1].endswith("ID.clock") \
                                and simp_deep(a[2])[0] == "param":
                            arg = simp_deep(v.arg(cs, 1, 10))
                            if not (arg[0] == "param" and arg[1] == simp_deep(a[2])[1]):
                                R.ob(rid, fn, site + ":offset-base", False,
                                     "an offset is computed as <parameter>.clock - <found block>.clock inside the chain walk", "%s:%s" % (fn.file, st2["line"]))
    R.floor(rid, "lookups of a redone id", total, 6)
    R.floor(rid, "loop-carried redone lookups", carried, 5)

def rule_g(R, ctx):
    Y = ctx.yrs
    R.rule("C12.g", "R-ORDER protect last: in UndoManager::handle_after_transaction the pass that re-protects what the current "
                    "transaction deleted (`item.keep(true)`) is never followed by the pass that releases the items of the dropped "
                    "redo stack (`item.keep(false)`, run inside retain_mut): keep() propagates along the parent chain, so a release "
                    "after the protect strips the flag from a just-deleted container that is an ancestor of a released item, and the "
                    "GC that runs right after the hook collects it")
    fn = Y.fn(UM + "::handle_after_transaction")
    v = FnView(fn)
    cfg = fn.cfg()

    def keep_sites(val):
        out = []
        for cs in fn.calls():
            if F.strip_generics(cs.name).endswith("ItemPtr::keep") and len(cs.args) == 2 and mir_root(fn, cs.args[1]) == ("const", val):
                out.append(cs.bb)
            for i in range(len(cs.args)):
                for x in walk(v.arg(cs, i, 6)):
                    if x[0] == "agg" and "{closure#" in str(x[1]):
                        c = Y.fns.get(str(x[1]))
                        if c is not None and any(F.strip_generics(k.name).endswith("ItemPtr::keep") and len(k.args) == 2 and
                                                 mir_root(c, k.args[1]) == ("const", val) for k in c.calls()):
                            out.append(cs.bb)
        return sorted(set(out))

    prot = keep_sites(1)
    rel = keep_sites(0)
    R.floor("C12.g", "keep(true) sites in handle_after_transaction", len(prot), 1)
    R.floor("C12.g", "keep(false) sites in handle_after_transaction", len(rel), 1)
    for k, p in enumerate(prot):
        reach = cfg.reachable_from(p)
        later = [r for r in rel if r in reach and r != p]
        R.ob("C12.g", fn, "protect#%d" % k, not later,
             "no release pass is reachable after this protect pass" if not later else
             "a keep(false) pass (bb%s) runs after this keep(true) pass: the protection of the items this transaction deleted can be "
             "undone through the parent chain before GC runs" % later, "%s:%s" % (fn.file, fn.blocks[p]["t"].get("line")))


def rule_l(R, ctx, rid="C12.l"):
    from ylib.formula import Formulas, truth_check, fshow, atoms_of
    Y = ctx.yrs
    R.rule(rid, "R-GUARD capture predicate: UndoManager::should_skip answers exactly (capture_transaction says no) || !(some scope "
                "type is among the transaction's changed parent types) || !(origin tracked), where origin tracked = the "
                "transaction's origin is in tracked_origins, or — with no origin — tracked_origins holds the manager alone; by "
                "truth table over the path formula of the returned value. A transaction that touched nothing in scope never "
                "becomes a step whatever its origin (it would clear the redo stack and advance the capture window)")
    fn = Y.fn(UM + "::should_skip")
    fm = Formulas(fn, simp_deep)
    f = fm.local_formula(0)

    def fp(t):
        return field_path(simp_deep(t)) if isinstance(t, tuple) else []

    def classify(k, t):
        if not isinstance(t, tuple):
            return None
        t = simp_deep(t)
        if t[0] == "field" and fp(t)[-1:] == ["capture_transaction"]:
            return ("!" if k.endswith(" is None") else "") + "CT"
        if t[0] == "call":
            nm = F.strip_generics(t[1])
            if re.search(r"ops::Fn(Mut|Once)?::call(_mut|_once)?$", nm) and fp(t[2][0])[-1:] == ["capture_transaction"]:
                return "CTR"
            if nm.endswith("Iterator::any") and term_has_field(t[2][0], "Inner.scope"):
                return "ANY"
            if nm.endswith("Option::unwrap_or") and term_has_call(t, TXN + "::origin") and term_has_field(t, "Options.tracked_origins"):
                return "TRACKED"
            if nm.endswith("TransactionMut::origin") and (k.endswith(" is Some") or k.endswith(" is None")):
                return ("!" if k.endswith(" is None") else "") + "OS"
            if nm.endswith("HashSet::contains") and fp(t[2][0])[-1:] == ["tracked_origins"]:
                return "CO"
        if t[0] == "bin" and t[1] in ("Eq", "Ne") and term_has_field(t, "Options.tracked_origins") and term_has_call(t, "re:HashSet::len$"):
            c = [x for x in (simp_deep(t[2]), simp_deep(t[3])) if x[0] == "const"]
            if c and c[0][1] == 1:
                return ("!" if t[1] == "Ne" else "") + "L1"
        return None

    def required(e):
        if "ANY" not in e:
            return None
        if "TRACKED" in e:
            tr = e["TRACKED"]
        elif "OS" in e and "CO" in e and "L1" in e:
            tr = e["CO"] if e["OS"] else e["L1"]
        else:
            return None
        veto = e.get("CT", False) and not e.get("CTR", True)
        if e.get("CT") is False and "CTR" in e and e["CTR"] is False:
            pass  # CTR is not evaluated when no predicate is installed
        return veto or (not e["ANY"]) or (not tr)

    names = {classify(k, t) for k, t in atoms_of(f).items()}
    free = [k for k, t in atoms_of(f).items() if classify(k, t) is None]
    ok, cex, keys = truth_check(f, classify, required, max_atoms=12)
    have = "ANY" in names and ("TRACKED" in names or {"OS", "CO"} <= {n.lstrip("!") for n in names if n})
    R.ob(rid, fn, "formula", ok and have and not free,
         "skip = %s" % fshow(f) if ok and have and not free else
         "the predicate differs from veto || !in_scope || !origin_tracked: %s" % (cex if have and not free else
                                                                                    "atoms %s, unrecognised %s" % (sorted(n for n in names if n), free)))
    # the two closures: membership tests on the very sets named above
    cl = {c.path: c for c in Y.with_closures(fn) if c.path != fn.path}
    R.floor(rid, "closures of should_skip", len(cl), 1)
    seen = set()
    for c in cl.values():
        cv = FnView(c)
        for cs in c.calls_to("re:::contains$"):
            p = fp(cv.arg(cs, 0))
            if p[-1:] == ["changed_parent_types"] or p[-1:] == ["tracked_origins"]:
                seen.add(p[-1])
    for cs in fn.calls_to("re:::contains$"):
        p = fp(FnView(fn).arg(cs, 0))
        if p[-1:]:
            seen.add(p[-1])
    R.ob(rid, fn, "membership", {"changed_parent_types", "tracked_origins"} <= seen,
         "membership is tested on %s" % sorted(seen))


def rule_m(R, ctx, rid="C12.m"):
    from . import shared
    Y = ctx.yrs
    shared.api_delegations(R, ctx, rid, shared.UNDO_DELEGATIONS,
                           "R-PROV the manager's thin methods: undo_blocking pops with undoing = true and redo_blocking with false; can_undo / "
                           "can_redo look at the undo / redo stack respectively; include_origin inserts and exclude_origin removes the "
                           "caller's origin in tracked_origins; clear_all clears both stacks — canonical values of the arguments")
    for meth, sib in (("undo", True), ("redo", False)):
        for f in Y.find(r"^yrs::undo::UndoManager::%s::\{closure#0\}$" % meth) or Y.find(r"^yrs::undo::UndoManager::%s$" % meth):
            v = FnView(f)
            css = f.calls_to("re:UndoManager::pop$")
            ok = len(css) == 1 and simp_deep(v.arg(css[0], 1)) == ("const", 1 if sib else 0, None) or \
                (len(css) == 1 and simp_deep(v.arg(css[0], 1))[:2] == ("const", 1 if sib else 0))
            R.ob(rid, f, "pop-direction", ok, "%s pops with undoing = %s: %s" % (meth, sib, [sshow(v.arg(c, 1)) for c in css]))
    # pop / pop_blocking: the flags and the stack follow the parameter
    for name in ("pop_blocking",):
        f = Y.fn(UM + "::" + name)
        v = FnView(f)
        got = {}
        for i, j, st in f.stmts():
            d = st["dst"]
            if isinstance(d, dict) and d.get("p") and isinstance(d["p"][-1], str) and d["p"][-1].endswith(("Inner.undoing", "Inner.redoing")):
                got.setdefault(d["p"][-1].rsplit(".", 1)[-1], []).append(simp_deep(v.terms.rvalue(st["rv"], 8)))
        first_u = got.get("undoing", [None])[0]
        first_r = got.get("redoing", [None])[0]
        oku = first_u is not None and first_u[0] == "param" and f.local_name(first_u[1]) == "undoing"
        okr = first_r is not None and first_r[0] in ("un", "not") and any(x[0] == "param" and f.local_name(x[1]) == "undoing" for x in walk(first_r) if isinstance(x, tuple) and x)
        R.ob(rid, f, "direction-flags", oku and okr, "undoing := %s; redoing := %s" % (sshow(first_u) if first_u else None, sshow(first_r) if first_r else None))


def rule_n(R, ctx, rid="C12.n"):
    Y = ctx.yrs
    R.rule(rid, "R-GUARD one-shot state of a future is consumed only on completion: in the Future::poll impls that acquire a "
                "transaction (behind the async undo / redo and transact_mut_with) every `take` / `replace` of a field of `self` — "
                "the origin handed to the transaction — is reached only where the inner lock future answered Ready; a poll that "
                "returns Pending leaves the future as it was, or the transaction that is finally created has lost its origin and "
                "the manager does not recognise its own undo")
    polls = [f for f in Y.find(r"^<yrs::transact::.* as std::future::Future>::poll$") if f.mir]
    R.floor(rid, "Future::poll impls in transact.rs", len(polls), 2)
    n = 0
    for fn in polls:
        v = FnView(fn)
        inner = [c for c in fn.calls() if re.search(r"as std::future::Future>::poll$", F.strip_generics(c.name))]
        for cs in fn.calls_to("re:^std::option::Option::take$", "re:^std::mem::(take|replace)$"):
            a = simp_deep(v.arg(cs, 0, 10))
            if not (field_path(a) and root_name(a) == "self"):
                continue
            n += 1
            ok = any(isinstance(l.term, tuple) and l.term[0] == "call" and re.search(r"Future>::poll$", F.strip_generics(l.term[1]))
                     for l in v.guards(cs.bb)) and any(fn.cfg().dominates(i.bb, cs.bb) for i in inner)
            R.ob(rid, fn, "consume:%s" % ".".join(field_path(a)[-1:]), ok,
                 "self.%s is taken only where the inner future is Ready" % field_path(a)[-1] if ok else
                 "self.%s is taken on every poll, also on one that returns Pending (guards: %s)" % (field_path(a)[-1], [l.desc[:80] for l in v.guards(cs.bb)]),
                 cs.loc())
    R.floor(rid, "one-shot fields consumed in poll", n, 1)


def check(ctx, R):
    R.run("C12.n", rule_n, ctx)
    from . import preds as _preds
    R.run("C12.p", lambda R, c: _preds.rule(R, c, "C12.p", ["branch_eq"]), ctx)
    R.run("C12.l", rule_l, ctx)
    R.run("C12.m", rule_m, ctx)
    R.run("C12.a", rule_a, ctx)
    R.run("C12.b", rule_b, ctx)
    R.run("C12.c", rule_c, ctx)
    R.run("C12.d", rule_d, ctx)
    R.run("C12.e", rule_e, ctx)
    R.run("C12.f", rule_f, ctx)
    R.run("C12.g", rule_g, ctx)
    from . import c04 as _c04
    R.run("C12.h", lambda R, c: _c04.rule_e(R, c, "C12.h"), ctx)
    from . import scans
    R.run("C12.i", lambda R, c: scans.loop_scans(R, c, "C12.i", ["yrs::undo::UndoStack::is_deleted"]), ctx)
    R.run("C12.j", lambda R, c: scans.chain_scan(R, c, "C12.j"), ctx)
    R.run("C12.k", lambda R, c: scans.adaptor_scans(R, c, "C12.k"), ctx)
    return {}
