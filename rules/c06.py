"""C06 — state-vector sync complete/monotone/idempotent: structural clauses."""
import re
from ylib import facts as F
from .common import *  # noqa

SHRINKERS = ("re:^std::vec::Vec::(drain|remove|truncate|pop|clear|swap_remove|retain|retain_mut|split_off|dedup.*)$",)
SHRINK_OWNERS = {
    "yrs::block_store::ClientBlockList::squash_left": "removes blocks merged into their left neighbour",
    "yrs::block_store::ClientBlockList::squash_left_range_compaction": "removes blocks merged into their left neighbour",
}


def rule_b(R, ctx, rid="C06.b"):
    Y = ctx.yrs
    R.rule(rid, "R-ORDER+R-PROV: Store::encode_diff and ReadTxn::encode_state_as_update write Store::write_blocks_from(<their sv "
                    "parameter>) first and then the full delete set IdSet::from_store(&store.blocks), to the same encoder")
    for path, svname in (("yrs::store::Store::encode_diff", "sv"), ("yrs::transaction::ReadTxn::encode_state_as_update", "sv")):
        fn = Y.fn(path)
        v = FnView(fn)
        wb = fn.calls_to("yrs::store::Store::write_blocks_from")
        R.floor(rid, "write_blocks_from in " + path, len(wb), 1)
        for cs, site in ordinal_sites(wb):
            sv = simp(v.arg(cs, 1))
            R.ob(rid, fn, site + ":sv", sv[0] == "param" and sv[1] == 2, "state vector argument = %s (must be the caller's own sv parameter)" % show(sv), cs.loc())
            encs = [c for c in fn.calls_to("re:^<yrs::id_set::IdSet as yrs::updates::encoder::Encode>::encode$", "re:Encode>::encode$")
                    if term_has_call(v.arg(c, 0), "re:(DeleteSet>|IdSet)::from_store$")]
            ok = bool(encs) and all(fn.cfg().dominates(cs.bb, e.bb) for e in encs)
            ds_ok = False
            same_enc = False
            for e in encs:
                for t in walk(v.arg(e, 0)):
                    if t[0] == "call" and callee_match(t[1], "re:(DeleteSet>|IdSet)::from_store$"):
                        ds_ok = field_path(simp_deep(t[2][0]))[-1:] == ["blocks"]
                same_enc = simp_deep(v.arg(e, 1)) == simp_deep(v.arg(cs, 2))
            R.ob(rid, fn, site + ":then-full-delete-set", ok and ds_ok and same_enc,
                 "IdSet::from_store(store.blocks).encode(encoder) after write_blocks_from: ordered=%s from-blocks=%s same-encoder=%s" % (ok, ds_ok, same_enc), cs.loc())
    # public wrappers delegate
    for ver in ("v1", "v2"):
        fn = Y.fn("yrs::transaction::ReadTxn::encode_diff_" + ver)
        v = FnView(fn)
        cs = fn.calls_to("yrs::transaction::ReadTxn::encode_diff")
        ok = len(cs) == 1 and simp(v.arg(cs[0], 1))[0] == "param"
        R.ob(rid, fn, "delegates", ok, "encode_diff_%s -> encode_diff(self, state_vector, encoder)" % ver)
    fn = Y.fn("yrs::transaction::ReadTxn::encode_diff")
    v = FnView(fn)
    cs = fn.calls_to("yrs::store::Store::encode_diff")
    R.ob(rid, fn, "delegates", len(cs) == 1 and simp(v.arg(cs[0], 1))[0] == "param", "ReadTxn::encode_diff -> Store::encode_diff(sv)")


def rule_c(R, ctx):
    Y = ctx.yrs
    R.rule("C06.c", "R-SIB: the v1/v2 twins of the diff encoders have equal call skeletons")
    sibling(R, "C06.c", Y, "yrs::transaction::ReadTxn::encode_diff_v1", "yrs::transaction::ReadTxn::encode_diff_v2")
    sibling(R, "C06.c", Y, "yrs::transaction::ReadTxn::encode_state_as_update_v1", "yrs::transaction::ReadTxn::encode_state_as_update_v2")
    sibling(R, "C06.c", Y, "yrs::transaction::merge_pending_v1", "yrs::transaction::merge_pending_v2")


def rule_d(R, ctx):
    Y = ctx.yrs
    R.rule("C06.d", "R-OWN the block store only grows: calls that shrink ClientBlockList.inner (drain/remove/truncate/pop/clear/…) or "
                    "remove a client from BlockStore.clients occur only in the two squash functions, after a successful merge")
    offenders = []
    n = 0
    for fn in Y.fns.values():
        if not fn.mir:
            continue
        v = None
        for cs in fn.calls_to(*SHRINKERS):
            v = v or FnView(fn)
            recv = simp_deep(v.arg(cs, 0))
            fp = field_path(recv)
            if fp[-1:] == ["inner"] and (term_has_field(recv, "ClientBlockList.inner")):
                n += 1
                root = Y.root_of(fn).path
                R.ob("C06.d", fn, "shrink:" + F.strip_generics(cs.name), root in SHRINK_OWNERS,
                     "shrinks a client's block list" + ("" if root in SHRINK_OWNERS else " outside the squash functions"), cs.loc())
        for cs in fn.calls_to("re:^std::collections::HashMap::(remove|remove_entry|clear|drain|retain)$"):
            v = v or FnView(fn)
            recv = simp_deep(v.arg(cs, 0))
            # the receiver must BE the store's client table (its access path ends in BlockStore.clients), not a local map that
            # was merely computed from it (seed C02e was reported here for the wrong reason)
            top = recv
            while top[0] in ("ref", "deref") and len(top) > 1:
                top = simp_deep(top[-1])
            if top[0] == "field" and top[1].endswith("BlockStore.clients"):
                R.ob("C06.d", fn, "remove-client:" + F.strip_generics(cs.name), False, "removes a client from the block store", cs.loc())
    R.floor("C06.d", "shrinking call sites on ClientBlockList.inner", n, 2)
    # squash_left drains only what it merged: drain is guarded by merged > 0
    fn = Y.fn("yrs::block_store::ClientBlockList::squash_left")
    v = FnView(fn)
    for cs, site in ordinal_sites(fn.calls_to("std::vec::Vec::drain")):
        ok = v.has_guard(cs.bb, lambda l: l.term[0] == "bin" and l.term[1] == "Gt" and l.polarity is True)
        R.ob("C06.d", fn, site + ":merged>0", ok, "guards: %s" % v.guard_descs(cs.bb), cs.loc())


def rule_e(R, ctx, rid="C06.e"):
    Y = ctx.yrs
    fn = Y.fn("yrs::block_store::BlockStore::get_state_vector")
    v = FnView(fn)
    R.rule(rid, "R-PROV+R-GUARD skip-aware state vector: BlockStore::get_state_vector overrides, for every client with recorded holes "
                "(BlockStore.skips), the advertised clock by the START of the first hole — the value stored is exactly "
                "clock_start() of that client's ranges (the element of skips.iter() of this round), the store is decided by nothing "
                "but `the loop has an element` and `clock_start() is Some` (no test of the clock's value: a hole that starts at 0 "
                "lowers the entry to 0 like any other), no entry is ever removed from the map, the base value of every client "
                "is ClientBlockList::clock() and the map is what StateVector::new receives — a gap is never advertised as known")
    ins = [c for c in fn.calls_to("std::collections::HashMap::insert")]
    ok = False
    why = "no override found"
    n = 0
    for cs in ins:
        val = simp_deep(v.arg(cs, 2))
        if not term_has_field(val, "BlockStore.skips"):
            continue
        n += 1
        top = val
        while top[0] in ("field", "variant", "ref", "deref", "cast") and len(top) > 2 and isinstance(top[-1], tuple):
            top = top[-1]
        is_start = top[0] == "call" and re.search(r"::clock_start$", F.strip_generics(top[1])) is not None
        rng_of_round = is_start and term_has_call(top, "re:Iterator>::next$") and term_has_call(top, "re:IdSet::iter$")
        g = v.guards(cs.bb)
        bad = []
        for l in g:
            t = simp(l.term)
            if t[0] == "call" and l.polarity == "Some" and (re.search(r"Iterator>::next$", t[1]) or re.search(r"::clock_start$", F.strip_generics(t[1]))):
                continue
            bad.append(l.desc)
        ok = is_start and rng_of_round and not bad
        why = ("map.insert(client, %s) decided by loop element + clock_start() is Some only" % sshow(val, 5)) if ok else \
              "the override stores %s (clock_start of this round's ranges: %s) and is narrowed by %s" % (sshow(val, 6), bool(rng_of_round), [b[:90] for b in bad][:3])
    R.floor(rid, "override of the advertised clock from BlockStore.skips", n, 1)
    R.ob(rid, fn, "skip-override", ok and n == 1, why if n == 1 else "%d overrides from BlockStore.skips (expected one)" % n)
    rem = [c for c in fn.calls() if re.search(r"HashMap(<.*>)?::(remove|remove_entry|retain|clear|drain)$", F.strip_generics(c.name))]
    R.ob(rid, fn, "no-removal", not rem, "no entry is removed from the advertised map" if not rem else
         "an entry is removed from the advertised map (%s): a client with blocks behind a hole vanishes from the state vector and the "
         "exporters, which iterate it, never write that client" % rem[0].loc())
    # base value: list.clock() for every client
    cl = Y.closures.get(fn.path, [])
    base = any(term_has_call(F.Terms(c).local(0, 10), "yrs::block_store::ClientBlockList::clock") for c in cl)
    R.ob(rid, fn, "base-clock", base, "every client starts from ClientBlockList::clock(): %s" % base)
    ret = v.terms.local(0, 12)
    R.ob(rid, fn, "returns-map", term_has_call(ret, "yrs::state_vector::StateVector::new"), "returns StateVector::new(map)")


def rule_f(R, ctx, rid="C06.f"):
    Y = ctx.yrs
    fn = Y.fn("yrs::store::Store::diff_state_vectors")
    v = FnView(fn)
    R.rule(rid, "R-GUARD+R-PROV diff of state vectors: a client is included with the remote clock iff local_clock > remote_clock, "
                    "and with clock 0 iff the remote vector does not contain it")
    pushes = fn.calls_to("std::vec::Vec::push")
    R.floor(rid, "pushes in diff_state_vectors", len(pushes), 2)
    kinds = set()
    for cs, site in ordinal_sites(pushes):
        val = simp_deep(v.arg(cs, 1))
        g = v.guards(cs.bb)
        if val[0] == "agg" and val[1] == "tuple":
            second = simp_deep(val[2][1])
            gt = [l for l in g if l.term[0] == "bin" and l.term[1] in ("Gt", "Lt")]
            nc = [l for l in g if lit_call(l, "yrs::state_vector::StateVector::contains_client", False)]
            if gt and not nc:
                l = gt[0]
                a, b = simp_deep(l.term[2]), simp_deep(l.term[3])
                loc_is_a = term_has_call(a, "yrs::state_vector::StateVector::get")
                ok = l.polarity is True and ((l.term[1] == "Gt" and loc_is_a) or (l.term[1] == "Lt" and not loc_is_a))
                # pushed clock is the remote one (from remote_sv.iter())
                rem = b if loc_is_a else a
                ok = ok and second == rem
                kinds.add("known-client")
                R.ob(rid, fn, site, ok, "push (client, %s) under %s" % (show(second, 5), l.desc), cs.loc())
            elif nc:
                ok = second[0] == "const" and second[1] == 0 and root_name(simp_deep(nc[0].term)[2][0] if simp_deep(nc[0].term)[0] == "call" else None) == "remote_sv"
                kinds.add("unknown-client")
                R.ob(rid, fn, site, ok, "push (client, %s) under %s" % (show(second, 5), nc[0].desc), cs.loc())
            else:
                R.ob(rid, fn, site, False, "push under unrecognised guards %s" % [l.desc for l in g], cs.loc())
    R.ob(rid, fn, "both-cases", kinds == {"known-client", "unknown-client"}, "cases found: %s" % sorted(kinds))


def _clock_of(fn, op):
    """if the operand is the start clock of a block (Block::clock_start(b), BlockSlice::clock_start(b) or b.id().clock): root of b."""
    d = mir_def(fn, op)
    if d and d[0] == "call" and re.search(r"::clock_start$", F.strip_generics(d[1].name)) and d[1].args:
        return mir_root(fn, d[1].args[0])
    r = mir_root(fn, op)
    if r[0] == "place":
        import json as _json
        try:
            pl = _json.loads(r[1])
        except Exception:
            return None
        pr = [x for x in pl.get("p", []) if x != "*"]
        if pr and isinstance(pr[-1], str) and pr[-1].endswith("ID.clock") and len(pr) == 1:
            d = mir_def(fn, {"c": pl["l"]})
            if d and d[0] == "call" and re.search(r"::(id|clock_start)$", F.strip_generics(d[1].name)) and d[1].args:
                return mir_root(fn, d[1].args[0])
    return None


def rule_g(R, ctx, rid="C06.g", only=None):
    Y = ctx.yrs
    R.rule(rid, "R-PROV first-block offset: in the writers of a client's section of an update (Store::write_blocks_from, "
                "Update::encode_diff) the start clock announced after write_client equals the clock of the first written block "
                "plus the offset trimmed from that same block — announced = clock(first) + offset, with `first` the block whose "
                "slice is trimmed and encoded first (the reader numbers the blocks of a section consecutively from the announced "
                "clock, so any disagreement shifts every id of the section)")
    n = 0
    for path in ("yrs::store::Store::write_blocks_from", "yrs::update::Update::encode_diff"):
        if only and path not in only:
            continue
        fn = Y.fn(path)
        cfg = fn.cfg()
        wcs = fn.calls_to("yrs::updates::encoder::Encoder::write_client")
        R.floor(rid, "write_client in %s" % path.rsplit("::", 1)[-1], len(wcs), 1)
        for wc in wcs:
            # the announced clock: first write_var dominated by write_client in the same loop round
            ann = None
            b = wc.target
            for _ in range(6):
                t = fn.blocks[b]["t"]
                if "call" in t:
                    cs = F.CallSite(fn, b, t)
                    if re.search(r"::write_var$", F.strip_generics(cs.name)):
                        ann = cs
                        break
                    b = cs.target
                elif "goto" in t:
                    b = t["goto"]
                else:
                    break
                if b is None:
                    break
            if ann is None:
                R.ob(rid, fn, "announced-clock", False, "no write_var directly after write_client")
                continue
            # the first block: a trim_start / encode_with_offset with a non-constant offset dominated by the announcement
            offs = []
            for cs in fn.calls():
                nm = F.strip_generics(cs.name)
                if cs.bb != ann.bb and cfg.dominates(ann.bb, cs.bb):
                    if nm.endswith("BlockSlice::trim_start") and len(cs.args) == 2 and mir_root(fn, cs.args[1])[0] != "const":
                        # receiver: slice local; its definition: as_slice(first)
                        d = mir_def(fn, cs.args[0])
                        first = mir_root(fn, d[1].args[0]) if d and d[0] == "call" and d[1].args and re.search(r"::as_slice$", F.strip_generics(d[1].name)) else None
                        offs.append((cs, cs.args[1], first, mir_root(fn, cs.args[0])))
                    if nm.endswith("Block::encode_with_offset") and len(cs.args) == 3 and mir_root(fn, cs.args[2])[0] != "const":
                        offs.append((cs, cs.args[2], mir_root(fn, cs.args[0]), None))
            if len(offs) != 1:
                R.ob(rid, fn, "first-block", False, "expected exactly one offset-taking write of the first block after the announced clock, found %d" % len(offs), ann.loc())
                continue
            cs, off, first, slice_root = offs[0]
            n += 1
            A = ann.args[1]
            ok = False
            why = ""
            # form 1: offset = announced - clock(first)
            dif = mir_difference(fn, off)
            if dif:
                x, y = dif
                cf = _clock_of(fn, y)
                ok = mir_root(fn, x) == mir_root(fn, A) and cf is not None and cf == first
                why = "offset = <announced> - clock(first): minuend is the announced clock: %s; subtrahend is the clock of the trimmed block: %s" % (
                    mir_root(fn, x) == mir_root(fn, A), cf is not None and cf == first)
            # form 2: announced = clock(first) + offset
            sm = mir_sum(fn, A)
            if not ok and sm:
                for x, y in (sm, sm[::-1]):
                    cf = _clock_of(fn, x)
                    if cf is not None and cf == first and mir_root(fn, y) == mir_root(fn, off):
                        ok = True
                        why = "announced = clock(first) + offset with the same block and the same offset"
                if not ok:
                    why = "announced clock is a sum but not clock(<first written block>) + <its offset>"
            if not dif and not sm:
                why = "neither `offset = announced - clock(first)` nor `announced = clock(first) + offset` could be established"
            R.ob(rid, fn, "announced=clock(first)+offset", ok, why, ann.loc())
            if slice_root is not None:
                encs = [c for c in fn.calls() if F.strip_generics(c.name).endswith("BlockSlice::encode") and c.args
                        and mir_root(fn, c.args[0]) == slice_root and cfg.dominates(cs.bb, c.bb)]
                R.ob(rid, fn, "trimmed-slice-encoded", len(encs) == 1, "the trimmed slice is the one encoded next: %d encode call(s) on it" % len(encs), cs.loc())
            # the first block is trimmed whatever its kind: the trim is not confined to one variant of the block, and no other
            # encoding of the first block exists next to the trimmed one
            vv = FnView(fn)
            narrowed = [l.desc for l in vv.guards(cs.bb) if isinstance(l.polarity, str) and l.polarity in ("Item", "GC", "Skip")]
            R.ob(rid, fn, "first-block-any-kind", not narrowed,
                 "the offset is applied to the first block whatever its kind" if not narrowed else
                 "the offset is applied only when the first block is %s: a GC or Skip range requested from a clock inside it is written "
                 "at full length and shifts every later id of that client" % narrowed[:1], cs.loc())
    R.floor(rid, "section writers with an offset first block", n, 1 if only else 2)


def rule_h(R, ctx, rid="C06.h"):
    Y = ctx.yrs
    R.rule(rid, "R-PROV every arm honours the offset: in Block::encode_with_offset(offset) each block kind drops the first `offset` "
                "clocks — Item: ItemSlice::new(item, offset, len-1); Skip and GC: the written length is len - offset. Clocks are "
                "implicit on the wire (consecutive from the announced start clock), so an arm that writes the full length shifts "
                "every later id of that client in the diff")
    fn = Y.fn("yrs::block::Block::encode_with_offset")
    v = FnView(fn)
    OFF = None
    for l in range(1, fn.argc() + 1):
        if fn.local_name(l) == "offset":
            OFF = l
    if OFF is None:
        raise AnchorLost("parameter `offset` of Block::encode_with_offset")

    def is_off(t):
        t = simp_deep(t)
        return t[0] == "param" and t[1] == OFF

    n = 0
    for cs, site in ordinal_sites([c for c in fn.calls() if re.search(r"::(write_var|write_len)$", F.strip_generics(c.name)) and len(c.args) > 1]):
        variant = None
        for l in v.guards(cs.bb):
            if simp(l.term)[0] == "param" and simp(l.term)[1] == 1 and isinstance(l.polarity, str):
                variant = l.polarity
        t = simp_deep(v.arg(cs, 1, 12))
        subs = [x for x in walk(t) if x[0] == "bin" and x[1] in ("Sub", "SubWithOverflow") and is_off(x[3]) and term_has_field(x[2], "BlockRange.len")] + \
               [x for x in walk(t) if x[0] == "call" and re.search(r"::(saturating_sub|wrapping_sub)$", x[1]) and is_off(x[2][1]) and term_has_field(x[2][0], "BlockRange.len")]
        n += 1
        R.ob(rid, fn, "%s:%s" % (variant, site.rsplit("::", 1)[-1]), bool(subs),
             "%s arm writes %s" % (variant, sshow(t, 6)) if subs else
             "%s arm writes %s, which does not subtract the offset from the block's length" % (variant, sshow(t, 6)), cs.loc())
    R.floor(rid, "length writes in encode_with_offset", n, 2)
    news = fn.calls_to("yrs::slice::ItemSlice::new")
    R.floor(rid, "ItemSlice::new in encode_with_offset", len(news), 1)
    for cs, site in ordinal_sites(news):
        R.ob(rid, fn, "Item:slice-start", len(cs.args) == 3 and is_off(v.arg(cs, 1)),
             "Item arm encodes the slice starting at %s" % sshow(v.arg(cs, 1), 5), cs.loc())


def check(ctx, R):
    from . import wire_rules
    R.run("C06.a", wire_rules.c06_a, ctx)
    R.run("C06.b", rule_b, ctx)
    R.run("C06.c", rule_c, ctx)
    R.run("C06.d", rule_d, ctx)
    R.run("C06.e", rule_e, ctx)
    R.run("C06.f", rule_f, ctx)
    R.run("C06.g", rule_g, ctx)
    R.run("C06.h", rule_h, ctx)
    from . import shared as _shh
    R.run("C06.n", lambda R, c: _shh.trims(R, c, "C06.n"), ctx)
    from . import preds
    R.run("C06.p", lambda R, c: preds.rule(R, c, "C06.p", ["block_is_deleted", "slice_is_deleted"]), ctx)
    def _answers(R, c):
        R.rule("C06.l", "R-PROV single definition of the sync answers: encode_state_as_update_vN returns merge_pending_vN(<encoder bytes>), "
                        "encode_diff_vN the bytes of its EncoderVN, state_vector() BlockStore::get_state_vector — on every path, with "
                        "no shortcut definition next to it (deletions do not move the state vector; an `already up to date` shortcut drops them)")
        Y = c.yrs
        for ver in ("1", "2"):
            single_answer(R, "C06.l", Y.fn("yrs::transaction::ReadTxn::encode_state_as_update_v" + ver), r"merge_pending_v%s$" % ver, "merge_pending_v%s(encoder bytes)" % ver)
            single_answer(R, "C06.l", Y.fn("yrs::transaction::ReadTxn::encode_diff_v" + ver), r"EncoderV%s::new$" % ver, "the bytes of the EncoderV%s the diff was written to" % ver)
        single_answer(R, "C06.l", Y.fn("yrs::transaction::ReadTxn::state_vector"), r"BlockStore::get_state_vector$", "BlockStore::get_state_vector")
    R.run("C06.l", _answers, ctx)
    from . import c02 as _c02m
    R.run("C06.m", lambda R, c: _c02m.rule_f(R, c, "C06.m"), ctx)
    from . import c02
    R.run("C06.j", lambda R, c: c02.rule_g(R, c, "C06.j"), ctx)
    R.run("C06.k", lambda R, c: c02.rule_h(R, c, "C06.k"), ctx)
    from . import shared as _sh
    R.run("C06.i", lambda R, c: _sh.unapplied_within_range(R, c, "C06.i"), ctx)
    R.run("C06.o", lambda R, c: _sh.export_extent(R, c, "C06.o"), ctx)
    return {}
