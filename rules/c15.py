"""C15 — garbage collection is invisible: structural clauses."""
from ylib import facts as F
from .common import *  # noqa
from . import c12, c17

TXN = "yrs::transaction::TransactionMut"


def rule_a(R, ctx):
    # same clause as C12.b (collectable = deleted and not kept), reported under C15
    Y = ctx.yrs
    sub = type(R)(R.prop, R.tier)
    c12.rule_b(sub, ctx)
    R.rule("C15.a", "R-GUARD GC touches only collectable items: every mutation in Item::gc (content collection, mark, content "
                    "replacement, countable flag) and the block replacement in GCCollector::collect_marked is reached only under "
                    "is_deleted() && !info.is_keep()")
    for o in sub.obs:
        if o.fn in ("yrs::block::Item::gc", "yrs::gc::GCCollector::collect_marked") or o.rule != "C12.b":
            o.rule = "C15.a"
            R.obs.append(o)
    R.floors.extend([("C15.a",) + f[1:] for f in sub.floors if "Item::gc" in f[1] or "collect_marked" in f[1]])
    R.analysed_fns |= {"yrs::block::Item::gc", "yrs::gc::GCCollector::collect_marked"}


def rule_b(R, ctx):
    Y = ctx.yrs
    R.rule("C15.b", "R-PROV id ranges are preserved by GC: collect_marked replaces an item by Block::GC(item.block_range()) of the same "
                    "item, Item::gc replaces content by ItemContent::Deleted(self.len()) of the same item; block_range is (id, len)")
    cm = Y.fn("yrs::gc::GCCollector::collect_marked")
    v = FnView(cm)
    aggs = [(i, j, s) for i, j, s in cm.stmts() if "agg" in s["rv"] and s["rv"]["agg"].get("adt") == "yrs::block::Block" and s["rv"]["agg"].get("variant") == "GC"]
    R.floor("C15.b", "Block::GC construction in collect_marked", len(aggs), 1)
    for k, (i, j, s) in enumerate(aggs):
        t = simp_deep(v.terms.operand(s["rv"]["ops"][0]))
        ok = t[0] == "call" and callee_match(t[1], "yrs::block::Item::block_range")
        # same item as the one tested for is_deleted
        tested = [simp_deep(simp(l.term)[2][0]) for l in v.guards(i) if lit_call(l, "yrs::block::Item::is_deleted", True)]
        same = ok and any(simp_deep(t[2][0]) == x for x in tested)
        R.ob("C15.b", cm, "GC-range#%d" % k, ok and same, "Block::GC(%s)" % show(t, 5), "%s:%s" % (cm.file, s["line"]))
    br = Y.fn("yrs::block::Item::block_range")
    bv = FnView(br)
    ret = simp_deep(bv.terms.local(0, 8))
    ok = ret[0] == "call" and callee_match(ret[1], "yrs::block::BlockRange::new") and field_path(simp_deep(ret[2][0]))[-1:] == ["id"] \
        and field_path(simp_deep(ret[2][1]))[-1:] == ["len"]
    R.ob("C15.b", br, "range", ok, "block_range = %s" % show(ret, 5))
    gc = Y.fn("yrs::block::Item::gc")
    gv = FnView(gc)
    ws = gc.field_writes("Item.content")
    R.floor("C15.b", "content replacement in Item::gc", len(ws), 1)
    for k, (i, j, s) in enumerate(ws):
        t = simp_deep(gv.terms.rvalue(s["rv"], 10))
        ok = t[0] == "agg" and t[1].endswith("ItemContent::Deleted") and term_has_call(t, "yrs::block::Item::len") and \
            root_name(simp_deep([x for x in walk(t) if x[0] == "call" and callee_match(x[1], "yrs::block::Item::len")][0][2][0])) == "self"
        R.ob("C15.b", gc, "Deleted-len#%d" % k, ok, "content = %s" % show(t, 5), "%s:%s" % (gc.file, s["line"]))


def rule_d(R, ctx):
    Y = ctx.yrs
    R.rule("C15.d", "R-GUARD+R-OWN: GCCollector::collect runs in commit only under !store.skip_gc; GCCollector::collect_all is reachable "
                    "only through the explicit TransactionMut::gc API")
    commit = Y.fn(TXN + "::commit")
    v = FnView(commit)
    cs = commit.calls_to("yrs::gc::GCCollector::collect")
    R.floor("C15.d", "GCCollector::collect in commit", len(cs), 1)
    for c, site in ordinal_sites(cs):
        ok = v.has_guard(c.bb, lambda l: simp(l.term)[0] == "field" and simp(l.term)[1].endswith("Store.skip_gc") and l.polarity is False)
        R.ob("C15.d", commit, site, ok, "guards: %s" % [d for d in v.guard_descs(c.bb)][-2:], c.loc())
    a = callers_of(Y, "yrs::gc::GCCollector::collect")
    b = callers_of(Y, "yrs::gc::GCCollector::collect_all")
    R.ob("C15.d", "yrs::gc::GCCollector::collect", "callers", set(a) == {TXN + "::commit"}, "called from %s" % sorted(a))
    R.ob("C15.d", "yrs::gc::GCCollector::collect_all", "callers", set(b) == {TXN + "::gc"}, "called from %s" % sorted(b))
    g = callers_of(Y, "yrs::block::Item::gc")
    owners = {"yrs::gc::GCCollector::mark_in_scope", "yrs::gc::GCCollector::mark_all", "yrs::block::ItemContent::gc"}
    R.ob("C15.d", "yrs::block::Item::gc", "callers", set(g) <= owners, "called from %s" % sorted(g))


def rule_e(R, ctx):
    Y = ctx.yrs
    R.rule("C15.e", "R-PAIR integration under a collected parent: when integrate_item cannot resolve the parent to a live branch it "
                    "calls integrate_gc(item.range(), offset) (same id range, recorded in both sets) and returns None; "
                    "Update::missing_dependency maps a parent whose content was collected (ItemContent::Deleted) to TypePtr::Unknown")
    fn = Y.fn(TXN + "::integrate_item")
    v = FnView(fn)
    ig = fn.calls_to(TXN + "::integrate_gc")
    R.floor("C15.e", "integrate_gc fallback in integrate_item", len(ig), 1)
    for c, site in ordinal_sites(ig):
        rng = simp_deep(v.arg(c, 1))
        off = simp(v.arg(c, 2))
        ok = rng[0] == "call" and callee_match(rng[1], "yrs::block::Item::range") and off[0] == "param"
        # after it the function returns None without pushing the item
        cfg = fn.cfg()
        pushes = fn.calls_to("yrs::block_store::BlockStore::push")
        no_push = all(p.bb not in cfg.reachable_from(c.bb) for p in pushes)
        R.ob("C15.e", fn, site, ok and no_push, "integrate_gc(%s, %s); item itself is not pushed afterwards: %s" % (show(rng, 4), show(off), no_push), c.loc())
    md = Y.fn("yrs::update::Update::missing_dependency")
    mv = FnView(md)
    found = False
    for i, j, s in md.stmts():
        rv = s["rv"]
        if "agg" in rv and rv["agg"].get("adt") == "yrs::types::TypePtr" and rv["agg"].get("variant") == "Unknown":
            if mv.has_guard(i, lambda l: term_has_field(l.term, "Item.content") and l.polarity == "Deleted"):
                found = True
    R.ob("C15.e", md, "deleted-parent->Unknown", found, "parent with ItemContent::Deleted becomes TypePtr::Unknown: %s" % found)
    gcf = Y.fn(TXN + "::integrate_gc")
    gv = FnView(gcf)
    both = {field_path(simp_deep(gv.arg(c, 0)))[-1] for c in gcf.calls_to("yrs::id_set::IdSet::insert")}
    R.ob("C15.e", gcf, "both-sets", {"delete_set", "insert_set"} <= both, "integrate_gc records the range in %s" % sorted(both))


def rule_g(R, ctx, rid="C15.g"):
    import json as _json
    Y = ctx.yrs
    R.rule(rid, "R-PROV a compacted run of GC ranges keeps its extent: in ClientBlockList::squash_left_range_compaction the GC/GC arm "
                "that absorbs a whole run into the block before it stores left.len = (right.clock - left.clock) + right.len, with "
                "`right` the last block of the run (value numbering: new_len + left.clock == right.clock + right.len) — adding only "
                "the last block's length (BlockRange::merge) loses the middle blocks and leaves a hole in the client's clocks or "
                "moves its frontier backwards")
    fn = Y.fn("yrs::block_store::ClientBlockList::squash_left_range_compaction")
    stores = [(i, st) for i, j, st in fn.stmts() if isinstance(st["dst"], dict) and st["dst"]["p"] and isinstance(st["dst"]["p"][-1], str)
              and st["dst"]["p"][-1].endswith("BlockRange.len") and "use" in st["rv"]]
    R.floor(rid, "stores to a GC range's len in the compaction pass", len(stores), 1)

    def pl(k):
        if k[0] == "place":
            try:
                d = _json.loads(k[1])
                return d.get("l"), [x for x in d.get("p", []) if x != "*"]
            except Exception:
                return None
        return None
    for n, (i, st) in enumerate(stores):
        L = st["dst"]["l"]
        k = mir_value_key(fn, st["rv"]["use"])
        ok = False
        if k[0] == "Add":
            for a, b in ((k[1], k[2]), (k[2], k[1])):
                if a[0] == "Sub" and pl(a[1]) and pl(a[2]) and pl(b):
                    rc, lc, rl = pl(a[1]), pl(a[2]), pl(b)
                    ok = ok or (lc[0] == L and lc[1][-1:] == ["yrs::block::BlockRange.clock"] and rc[1][-1:] == ["yrs::block::BlockRange.clock"]
                                and rl[1][-1:] == ["yrs::block::BlockRange.len"] and rc[0] == rl[0] and rc[0] != L)
        R.ob(rid, fn, "gc-run-extent#%d" % n, ok, "left.len := (right.clock - left.clock) + right.len" if ok else
             "the merged GC range's length is %s, which is not (right.clock - left.clock) + right.len" % (k,), "%s:%s" % (fn.file, st["line"]))
    # no other way of growing a GC range in that function
    merges = fn.calls_to("yrs::block::BlockRange::merge")
    R.ob(rid, fn, "no-pairwise-merge", not merges, "BlockRange::merge (adds one length) is not used on a run: %d call(s)" % len(merges))


def check(ctx, R):
    R.run("C15.a", rule_a, ctx)
    R.run("C15.b", rule_b, ctx)
    R.run("C15.c", c17.rule_a, ctx, "C15.c")
    R.run("C15.d", rule_d, ctx)
    R.run("C15.e", rule_e, ctx)
    from . import c12
    R.run("C15.f", lambda R, c: c12.keep_propagates(R, c, "C15.f"), ctx)
    from . import preds
    R.run("C15.p", lambda R, c: preds.rule(R, c, "C15.p", ["branch_is_deleted", "flags_check"]), ctx)
    R.run("C15.p", lambda R, c: preds.flag_table(R, c, "C15.p"), ctx)
    R.run("C15.g", rule_g, ctx)
    R.run("C15.i", rule_hook, ctx)
    from . import shared
    R.run("C15.h", lambda R, c: shared.api_delegations(
        R, c, "C15.h", shared.GC_DELEGATIONS,
        "R-PROV the collector's entry points: collect marks within the transaction's own delete set (no merge list) and then collects; "
        "collect_all marks everything when no scope is given and otherwise within the caller's delete set, recording merge candidates; "
        "mark files the id under its own client with its own clock; mark_all hands an item to Item::gc (parent_gc = false) only when "
        "it is deleted"), ctx)
    return {}


LOGICAL_REFS = (
    # resolver, may a branch without an item (a root type) be answered
    ("yrs::branch::Hook::get", True),
    ("yrs::branch::Nested::get", False),
)


def rule_hook(R, ctx, rid="C15.i"):
    """Resolving a logical reference answers None for a deleted collection, collected or not."""
    Y = ctx.yrs
    R.rule(rid, "R-GUARD Hook::get and Nested::get: the Some answer is built only where Item::is_deleted(branch.item) answered false "
                "(Hook::get: or the resolved branch has no item — a root type) — from the `true` edge of that test no Some is reachable, "
                "and with the `is_deleted == false` (and `item is None`) edges removed no Some is reachable at all. A deleted nested "
                "collection resolves while its block has not been rewritten by the collector, so without the test the answer depends "
                "on whether GC ran")
    for path, root_ok in LOGICAL_REFS:
        _logical_ref(R, Y, rid, path, root_ok)


def _logical_ref(R, Y, rid, path, root_ok):
    fn = Y.fn(path)
    name = path.rsplit("::", 2)[-2] + "::get"
    v = FnView(fn)
    cfg = fn.cfg()
    somes = [bb for bb, i, st in fn.stmts() if st["dst"] == 0 and isinstance(st["rv"], dict) and isinstance(st["rv"].get("agg"), dict)
             and st["rv"]["agg"].get("variant") == "Some" and str(st["rv"]["agg"].get("adt", "")).endswith("option::Option")]
    R.floor(rid, "Some answers in " + name, len(somes), 1)
    lits = F.switch_literals(fn)
    dl = [l for l in lits if isinstance(l.term, tuple) and term_has_call(l.term, "yrs::block::Item::is_deleted") and isinstance(l.polarity, bool)]
    il = [l for l in lits if sshow(simp_deep(l.term), 8).endswith(".item") and l.polarity in ("None", "Some")] if root_ok else []
    tests = fn.calls_to("yrs::block::Item::is_deleted")
    R.floor(rid, "is_deleted tests in " + name, len(tests), 1)
    if not somes or not dl or (root_ok and not il):
        R.ob(rid, fn, "deleted-test", False, "no test of Item::is_deleted over the resolved branch's item (%d deleted-edges, %d item-edges)" % (len(dl), len(il)))
        return
    arg = sshow(simp_deep(v.arg(tests[0], 0, 10)), 8)
    R.ob(rid, fn, "tested-item", arg.endswith(".item") or ".item as Some" in arg, "the test reads %s" % arg, tests[0].loc())
    bad = []
    for l in dl:
        if l.polarity is True:
            for s in somes:
                if s in cfg.reachable_from(l.to):
                    bad.append("Some is reachable after is_deleted answered true")
    allow = {(l.bb, l.to) for l in dl if l.polarity is False} | {(l.bb, l.to) for l in il if l.polarity == "None"}
    for s in somes:
        if cfg.reachable_without(s, allow):
            bad.append("Some is reachable without passing `is_deleted == false`%s" % (" or `item is None`" if root_ok else ""))
    R.ob(rid, fn, "deleted-test", not bad, "Some only for %sa live item" % ("a root type or " if root_ok else "") if not bad else "; ".join(sorted(set(bad))))
