"""C02 — causal-gap buffer: nothing lost or stuck (structural clauses)."""
import re
from ylib import facts as F
from .common import *  # noqa

TXN = "yrs::transaction::TransactionMut"
SKIP_UNAWARE = ("yrs::block_store::BlockStore::get_clock", "yrs::block_store::ClientBlockList::clock")


def closure_return_terms(Y, term):
    """if term is a closure aggregate, the terms its body returns."""
    out = []
    for t in walk(term):
        if t[0] == "agg" and "{closure#" in t[1]:
            c = Y.fns.get(t[1])
            if c is not None and c.mir:
                out.append((c, F.Terms(c).local(0, 12)))
    return out


def rule_a(R, ctx, rid="C02.a"):
    Y = ctx.yrs
    R.rule(rid, "R-PROV frontier consistency (contradiction rule): BlockStore::is_missing treats clocks inside a Skip range as "
                    "missing, so every clock (i) stored into PendingUpdate.missing (argument of StateVector::set_min on "
                    "BlockPicker.missing, followed through the closure the caller passes) or (ii) used in the condition that sets the "
                    "retry decision in TransactionMut::apply_update must not come from a skip-unaware frontier "
                    "(BlockStore::get_clock / ClientBlockList::clock), which counts Skip placeholders as present")
    sw = Y.fn("yrs::update::BlockPicker::switch")
    sv = FnView(sw)
    sms = [c for c in sw.calls_to("yrs::state_vector::StateVector::set_min")
           if field_path(simp_deep(sv.arg(c, 0)))[-1:] == ["missing"]]
    R.floor(rid, "set_min on BlockPicker.missing", len(sms), 1)
    for cs, site in ordinal_sites(sms):
        val = sv.arg(cs, 2)
        terms = [(sw, val)]
        # follow a callback parameter to the closures callers pass
        for t in walk(val):
            if t[0] == "call" and t[1].endswith("::call") and t[2] and simp(t[2][0])[0] == "param":
                pidx = simp(t[2][0])[1]  # MIR local index of the parameter (1-based)
                for caller_path in Y.callers().get(sw.path, set()):
                    cf = Y.fns[caller_path]
                    cv = FnView(cf)
                    for ccs in cf.calls_to(sw.path):
                        if pidx - 1 < len(ccs.args):
                            terms.extend(closure_return_terms(Y, cv.arg(ccs, pidx - 1)))
        bad = [(f, t) for f, t in terms if term_has_call(t, *SKIP_UNAWARE)]
        for f, t in bad:
            R.ob(rid, f, "missing-clock-source", False,
                 "clock stored into PendingUpdate.missing is computed by a skip-unaware frontier: %s — a dependency inside an "
                 "integrated Skip range is recorded as `clock = end of list`, which no later delivery can exceed" % sshow(t),
                 "%s:%s" % (f.file, f.line))
        if not bad:
            R.ob(rid, sw, site, True, "stored clock sources: %s" % "; ".join(sshow(t) for _, t in terms), cs.loc())

    au = Y.fn(TXN + "::apply_update")
    av = FnView(au)
    # the retry flag: local(s) guarding the recursive apply_update calls
    rec = au.calls_to(TXN + "::apply_update")
    R.floor(rid, "recursive apply_update (retry) calls", len(rec), 1)
    flag_locals = set()
    for cs in rec:
        for l in av.guards(cs.bb):
            t = l.term
            # a boolean local assigned constants: φ(0|1)
            sw_op = au.term(l.bb).get("switch", {})
            loc = sw_op.get("c", sw_op.get("m"))
            if isinstance(loc, int) and au.local_ty(loc) == "bool" and l.polarity is True:
                ds = au.defs().get(loc, [])
                if ds and all(d[0] == "stmt" and "use" in d[3]["rv"] and "k" in d[3]["rv"]["use"] for d in ds):
                    flag_locals.add(loc)
                elif ds and all(d[0] == "stmt" and "use" in d[3]["rv"] for d in ds):
                    # copy of the flag local
                    for d in ds:
                        src = d[3]["rv"]["use"].get("c", d[3]["rv"]["use"].get("m"))
                        if isinstance(src, int):
                            flag_locals.add(src)
    n = 0
    for loc in sorted(flag_locals):
        for d in au.defs().get(loc, []):
            if d[0] == "stmt" and d[3]["rv"].get("use", {}).get("k") == 1:
                n += 1
                bb = d[1]
                gs = av.guards(bb)
                bad = [l for l in gs if term_has_call(l.term, *SKIP_UNAWARE)]
                uses_missing = any(term_has_field(l.term, "PendingUpdate.missing") or
                                   term_has_call(l.term, "yrs::block_store::BlockStore::is_missing") for l in gs)
                dep = [l for l in gs if term_has_call(l.term, "yrs::update::Update::integrate") and l.polarity in ("None", "Some")]
                R.ob(rid, au, "retry-independent#%d" % (n - 1), not dep,
                     "the retry decision does not depend on whether the incoming update left a remainder" if not dep else
                     "the stash is examined for a retry only under a condition on the result of Update::integrate (%s): a message that "
                     "delivers the awaited dependency and also leaves blocks of its own never triggers the retry" % [l.desc for l in dep][:2],
                     "%s:%s" % (au.file, d[3]["line"]))
                R.ob(rid, au, "retry-condition#%d" % (n - 1), not bad and uses_missing,
                     ("retry decision compares the stashed dependency clock with a skip-unaware frontier: %s" % "; ".join(l.desc for l in bad))
                     if bad else ("retry condition: %s" % [l.desc for l in gs]),
                     "%s:%s" % (au.file, d[3]["line"]))
    R.floor(rid, "retry := true assignments in apply_update", n, 1)


def must_pass(fn, frm, to, via):
    """every path from block `frm` to block `to` passes block `via`."""
    cfg = fn.cfg()
    seen = {frm}
    st = [frm]
    if frm == via:
        return True
    while st:
        x = st.pop()
        for s in cfg.succ[x]:
            if s == via:
                continue
            if s == to:
                return False
            if s not in seen:
                seen.add(s)
                st.append(s)
    return True


def rule_b(R, ctx):
    Y = ctx.yrs
    R.rule("C02.b", "R-PROV stash is never dropped: in apply_update every write of Store.pending / Store.pending_ds carries the "
                    "remainder returned by Update::integrate (directly, or merged with the previous stash), the merge of old and "
                    "new stash passes both to Update::merge_updates; in BlockPicker::switch every block drained from the stack "
                    "reaches unapplicable.clients.insert")
    au = Y.fn(TXN + "::apply_update")
    av = FnView(au)
    INTEG = "yrs::update::Update::integrate"
    ws = au.field_writes("Store.pending")
    R.floor("C02.b", "writes of Store.pending in apply_update", len(ws), 1)
    for k, (i, j, s) in enumerate(ws):
        t = av.terms.rvalue(s["rv"], 14) if "rv" in s else ("unknown", "call")
        alts = t[1] if t[0] == "phi" else (t,)
        carries_rem = any(term_has_call(a, INTEG) for a in alts)
        carries_old = any(term_has_field(a, "Store.pending") for a in alts)
        R.ob("C02.b", au, "write:Store.pending#%d" % k, carries_rem and carries_old,
             "value written: %s (must contain the integrate remainder on the empty-stash path and the previous stash otherwise)" % sshow(t, 9),
             "%s:%s" % (au.file, s["line"]))
    ws = au.field_writes("Store.pending_ds")
    R.floor("C02.b", "writes of Store.pending_ds in apply_update", len(ws), 2)
    for k, (i, j, s) in enumerate(ws):
        t = av.terms.rvalue(s["rv"], 14) if "rv" in s else ("unknown", "call")
        alts = t[1] if t[0] == "phi" else (t,)
        carries_rem = any(term_has_call(a, INTEG) for a in alts)
        # on the path where an old pending_ds existed, its unapplied remainder must flow in too
        took_old = av.has_guard(i, lambda l: term_has_field(l.term, "Store.pending_ds") and l.polarity == "Some")
        carries_old = any(term_has_call(a, TXN + "::apply_delete") for a in alts)
        ok = carries_rem and (carries_old or not took_old)
        R.ob("C02.b", au, "write:Store.pending_ds#%d" % k, ok,
             "value written: %s; old stash taken on this path: %s" % (sshow(t, 9), took_old), "%s:%s" % (au.file, s["line"]))
    # both stashes go into merge_updates
    mu = au.calls_to("yrs::update::Update::merge_updates")
    R.floor("C02.b", "merge_updates call in apply_update", len(mu), 1)
    srcs = set()
    for i, j, s in au.stmts():
        rv = s["rv"]
        if "agg" in rv and rv["agg"].get("kind") == "array":
            for o in rv["ops"]:
                t = simp_deep(av.terms.operand(o))
                if field_path(t)[-1:] == ["update"]:
                    srcs.add("remainder" if term_has_call(t, INTEG) else ("old-stash" if term_has_field(t, "Store.pending") else show(t)))
    for cs in au.calls_to("re:^std::vec::Vec::push$", "re:^std::collections::VecDeque::push_back$"):
        t = simp_deep(av.arg(cs, 1))
        if field_path(t)[-1:] == ["update"]:
            srcs.add("remainder" if term_has_call(t, INTEG) else ("old-stash" if term_has_field(t, "Store.pending") else show(t)))
    for cs, site in ordinal_sites(mu):
        R.ob("C02.b", au, site, {"remainder", "old-stash"} <= srcs, "updates collected for the merge: %s" % sorted(srcs), cs.loc())

    sw = Y.fn("yrs::update::BlockPicker::switch")
    sv = FnView(sw)
    ins = [c for c in sw.calls_to("re:^std::collections::HashMap::insert$")
           if field_path(simp_deep(sv.arg(c, 0)))[-2:] == ["unapplicable", "clients"]]
    R.floor("C02.b", "unapplicable.clients.insert in BlockPicker::switch", len(ins), 1)
    drains = sw.calls_to("re:^std::vec::Vec::drain$")
    R.floor("C02.b", "stack.drain in BlockPicker::switch", len(drains), 1)
    for cs, site in ordinal_sites(ins):
        # the value inserted must contain the drained item (push_front) and every loop iteration must reach the insert
        pf = [c for c in sw.calls_to("re:^std::collections::VecDeque::push_front$")
              if term_has_call(sv.arg(c, 1), "re:^std::vec::Vec::drain$")]
        nexts = [c for c in sw.calls_to("re:Iterator>::next$") if term_has_call(sv.arg(c, 0), "re:^std::vec::Vec::drain$")]
        ok = bool(pf) and bool(nexts)
        why = "push_front(drained item): %d, loop header: %d" % (len(pf), len(nexts))
        if ok:
            hdr = nexts[0].bb
            some_edges = [l for l in sv.lits if l.polarity == "Some" and term_has_call(l.term, "re:^std::vec::Vec::drain$")]
            ok = bool(some_edges) and all(must_pass(sw, l.to, hdr, cs.bb) for l in some_edges) \
                and all(must_pass(sw, l.to, cs.bb, pf[0].bb) for l in some_edges)
            why += "; every iteration passes push_front then insert: %s" % ok
        R.ob("C02.b", sw, site, ok, why, cs.loc())


def rule_b3(R, ctx, rid="C02.b3"):
    Y = ctx.yrs
    sw = Y.fn("yrs::update::BlockPicker::switch")
    v = FnView(sw)
    R.rule(rid, "R-PROV+R-GUARD the rest of a client's queue is stashed with the block that could not be integrated: in "
                "BlockPicker::switch, for every block drained from the stack, the queue that goes into the stash is looked up under "
                "THAT block's client — store.clients.remove(&client), or, when the block's client is the one being iterated, the "
                "`latest` queue taken under `latest.0 == client` with client = Block::client(drained block) — and is stored under the "
                "same client; comparing with the client of the missing dependency instead leaves the later blocks of that client in "
                "the iteration, where each further failing block overwrites the stash entry of the previous one")

    def of_drained(t):
        t = simp_deep(t)
        return term_has_call(t, "yrs::block::Block::client") and term_has_call(t, "re:Iterator>::next$")
    rem = [c for c in sw.calls_to("re:^std::collections::HashMap::remove$") if field_path(simp_deep(v.arg(c, 0)))[-2:] == ["store", "clients"]]
    R.floor(rid, "store.clients.remove in BlockPicker::switch", len(rem), 1)
    for cs, site in ordinal_sites(rem):
        R.ob(rid, sw, "queue:" + site, of_drained(v.arg(cs, 1, 12)), "queue looked up under %s" % sshow(simp_deep(v.arg(cs, 1, 12)), 5), cs.loc())
    takes = [c for c in sw.calls_to("re:^std::mem::take$") if term_has_field(simp_deep(v.arg(c, 0, 12)), "BlockPicker.latest")]
    R.floor(rid, "take of the latest queue in BlockPicker::switch", len(takes), 1)
    for cs, site in ordinal_sites(takes):
        ok = False
        seen = []
        for l in v.guards(cs.bb):
            t = simp(l.term)
            if t[0] == "call" and re.search(r"PartialEq(<.*>)?>?::eq$", t[1]) and l.polarity is True and len(t[2]) == 2:
                a, b = simp_deep(t[2][0]), simp_deep(t[2][1])
                seen.append("%s == %s" % (sshow(a, 4), sshow(b, 4)))
                if (term_has_field(a, "BlockPicker.latest") and of_drained(b)) or (term_has_field(b, "BlockPicker.latest") and of_drained(a)):
                    ok = True
            elif t[0] == "bin" and t[1] == "Eq" and l.polarity is True:
                a, b = simp_deep(t[2]), simp_deep(t[3])
                seen.append("%s == %s" % (sshow(a, 4), sshow(b, 4)))
                if (term_has_field(a, "BlockPicker.latest") and of_drained(b)) or (term_has_field(b, "BlockPicker.latest") and of_drained(a)):
                    ok = True
        R.ob(rid, sw, "latest:" + site, ok, "the latest queue is taken under latest.0 == client of the drained block" if ok else
             "the latest queue is taken under %s — not a comparison of latest's client with the drained block's client" % (seen or "no comparison"), cs.loc())
    ins = [c for c in sw.calls_to("re:^std::collections::HashMap::insert$") if field_path(simp_deep(v.arg(c, 0)))[-2:] == ["unapplicable", "clients"]]
    for cs, site in ordinal_sites(ins):
        val = simp_deep(v.arg(cs, 2, 12))
        alts = val[1] if val[0] == "phi" else (val,)
        from_store = any(term_has_call(a, "re:^std::collections::HashMap::remove$") for a in alts)
        from_latest = any(term_has_call(a, "re:^std::mem::take$") for a in alts)
        R.ob(rid, sw, "stash:" + site, of_drained(v.arg(cs, 1, 12)) and from_store and from_latest,
             "stashed under %s; queue from store.clients: %s, from latest: %s" % (sshow(simp_deep(v.arg(cs, 1, 12)), 5), from_store, from_latest), cs.loc())


def rule_b4(R, ctx, rid="C02.b4"):
    Y = ctx.yrs
    fn = Y.fn("yrs::update::BlockPicker::next")
    v = FnView(fn)
    R.rule(rid, "R-ANSWER the block picker ends only when every client's queue was visited: in BlockPicker::next (the iteration "
                "Update::integrate walks an incoming update with) the answer `None` by early return (`?`) is given only for the "
                "exhaustion of the client list — `self.clients.pop()` — and the queue of the popped client may be absent (it was "
                "stashed by switch as part of a cross-client dependency chain) without ending the walk: the picker moves on to the "
                "next client. Any other `?` in the function drops the blocks of every client still queued, neither integrated nor "
                "stashed")
    fr = [c for c in fn.calls() if re.search(r"FromResidual(<.*>)?>?::from_residual$", c.name) and c.dest == 0]
    R.floor(rid, "early returns in BlockPicker::next", len(fr), 1)
    for cs, site in ordinal_sites(fr):
        a = simp_deep(v.arg(cs, 0, 12))
        # the value whose absence ends the walk: the subject of the Try::branch behind this residual
        subj = None
        for x in walk(a):
            if x[0] == "call" and re.search(r"Try>?::branch$", x[1]) and x[2]:
                subj = simp_deep(x[2][0])
                break
        from_clients = subj is not None and subj[0] == "call" and re.search(r"(SmallVec|Vec)(<.*>)?::pop$", F.strip_generics(subj[1])) is not None and \
            term_has_field(simp_deep(subj[2][0]), "BlockPicker.clients") and not term_has_call(simp_deep(subj[2][0]), "re:::remove")
        R.ob(rid, fn, "ends-on:" + site, from_clients, "the walk ends on the exhaustion of the client list" if from_clients else
             "the walk also ends (`?`) on %s: the queues of the clients not yet visited are dropped" % sshow(a, 5), cs.loc())
    rec = fn.calls_to("yrs::update::BlockPicker::next")
    rm = [c for c in fn.calls() if re.search(r"HashMap(<.*>)?::remove_entry$", F.strip_generics(c.name))]
    ok = bool(rec) and bool(rm) and all(fn.cfg().dominates(c.bb, r.bb) for c in rm for r in rec) and \
        not any(simp(l.term)[0] == "call" and "remove_entry" in simp(l.term)[1] for r in rec for l in v.guards(r.bb))
    R.ob(rid, fn, "moves-on", ok, "after taking the popped client's queue (present or not) the picker continues with next(): %s" % ok)


SV_MUTATORS = ("re:^yrs::state_vector::StateVector::(set_min|set_max|inc_by|insert|remove|merge|set)$",
               "re:^std::collections::HashMap::(insert|remove|entry|get_mut|clear)$")


def rule_b2(R, ctx, rid="C02.b2"):
    Y = ctx.yrs
    R.rule(rid, "R-OWN the missing-dependency vector is only ever lowered: every mutation of a PendingUpdate.missing / "
                     "BlockPicker.missing state vector anywhere in the crate is StateVector::set_min (keeping the lowest still-missing clock "
                     "per client when stashes are merged); raising it (set_max / insert / inc_by) would skip the retry of the older stash")
    n = 0
    for fn in Y.fns.values():
        if not fn.mir:
            continue
        css = fn.calls_to(*SV_MUTATORS)
        if not css:
            continue
        v = FnView(fn)
        for cs, site in ordinal_sites(css):
            recv = simp_deep(v.arg(cs, 0))
            fp = field_path(recv)
            if fp[-1:] != ["missing"] and not (len(fp) >= 2 and fp[-2] == "missing"):
                continue
            n += 1
            ok = cs.is_("yrs::state_vector::StateVector::set_min")
            R.ob(rid, fn, site, ok, "%s on %s" % (F.strip_generics(cs.name).rsplit("::", 1)[-1], show(recv, 4)), cs.loc())
    R.floor(rid, "mutations of a missing-dependency vector", n, 2)
    # and the merge of two stashes really carries every entry of the new one over
    au = Y.fn(TXN + "::apply_update")
    av = FnView(au)
    sm = [c for c in au.calls_to("yrs::state_vector::StateVector::set_min") if field_path(simp_deep(av.arg(c, 0)))[-1:] == ["missing"]]
    ok = False
    for c in sm:
        a1, a2 = av.arg(c, 1), av.arg(c, 2)
        if term_has_field(a1, "PendingUpdate.missing") and term_has_field(a2, "PendingUpdate.missing") and term_has_call(a1, "yrs::update::Update::integrate"):
            ok = True
    R.ob(rid, au, "merge-missing", ok, "old.missing.set_min(client, clock) for every (client, clock) of the new remainder's missing vector: %s" % ok)


def partial_field_defs(fn, local, field_suffix):
    out = []
    for d in fn.defs().get((local, "partial"), []):
        if d[0] == "stmt":
            dst = d[3]["dst"]
            if F.place_has_field(dst, field_suffix, last_only=True):
                out.append(d[3])
    return out


def rule_c(R, ctx):
    Y = ctx.yrs
    R.rule("C02.c", "R-ORDER+R-PROV+R-SIB: ReadTxn::encode_state_as_update_v1/_v2 return merge_pending_v1/_v2(encoded, store); "
                    "merge_pending_* put both Store.pending (its update) and Store.pending_ds into the merge and return the "
                    "merged bytes whenever the merge list is non-empty; v1 and v2 are siblings")
    for ver in ("v1", "v2"):
        fn = Y.fn("yrs::transaction::ReadTxn::encode_state_as_update_" + ver)
        v = FnView(fn)
        ret = simp_deep(v.terms.local(0, 14))
        mp = "yrs::transaction::merge_pending_" + ver
        ok = ret[0] == "call" and callee_match(ret[1], mp)
        if ok:
            a0 = ret[2][0]
            ok = term_has_call(a0, "re:Encoder>::to_vec$") or term_has_call(a0, "re:::to_vec$")
        R.ob("C02.c", fn, "return", ok, "returns %s" % show(ret, 5))
        m = Y.fn(mp)
        mv = FnView(m)
        pbs = m.calls_to("re:^std::collections::VecDeque::push_back$", "re:^std::vec::Vec::push$")
        got_p = got_ds = False
        for cs in pbs:
            a = mv.arg(cs, 1)
            if term_has_field(a, "Store.pending") and not term_has_field(a, "Store.pending_ds"):
                got_p = True
            # update built field by field: u.delete_set = pending_ds.clone()
            for t in walk(a):
                if t[0] in ("local",):
                    for st in partial_field_defs(m, t[1], "Update.delete_set"):
                        if term_has_field(mv.terms.rvalue(st["rv"], 10), "Store.pending_ds"):
                            got_ds = True
                if t[0] == "call":
                    for arg in t[2]:
                        s = simp(arg)
                        if s[0] in ("local", "call", "phi"):
                            # find the local operand in MIR: search defs by matching partial writes in whole fn
                            pass
        if not got_ds:
            # fall back: any Update.delete_set write fed from Store.pending_ds whose local reaches a push
            for i, j, s in m.stmts():
                dst = s["dst"]
                if isinstance(dst, dict) and F.place_has_field(dst, "Update.delete_set", last_only=True):
                    if term_has_field(mv.terms.rvalue(s["rv"], 10), "Store.pending_ds"):
                        u = dst["l"]
                        for cs in pbs:
                            # the pushed value is computed from &u
                            if any(tt[0] == "local" and tt[1] == u for tt in walk(mv.arg(cs, 1))) or \
                               any(_mentions_local(m, cs.args[1], u)):
                                got_ds = True
        R.ob("C02.c", m, "push:pending", got_p, "pending.update is pushed into the merge list: %s" % got_p)
        R.ob("C02.c", m, "push:pending_ds", got_ds, "an update carrying pending_ds is pushed into the merge list: %s" % got_ds)
        # independence: each stash is forwarded on its own presence test alone — a store can hold a stashed delete set without
        # stashed blocks (a deletion that arrived before its target) and the other way round
        for cs, site in ordinal_sites(pbs):
            g = mv.guards(cs.bb)
            tests = []
            for l in g:
                if term_has_field(l.term, "Store.pending_ds"):
                    tests.append(("pending_ds", l.polarity))
                elif term_has_field(l.term, "Store.pending"):
                    tests.append(("pending", l.polarity))
                else:
                    tests.append((l.desc[:50], l.polarity))
            ok_i = len(tests) == 1 and tests[0][1] == "Some" and tests[0][0] in ("pending", "pending_ds")
            R.ob("C02.c", m, "alone:" + site, ok_i, "forwarded exactly where %s is Some" % tests[0][0] if ok_i else
                 "a stash is forwarded under %s — not under its own presence test alone: a replica that holds only this kind of stash "
                 "exports without it" % (tests,), cs.loc())
        # return value: merged bytes on the non-empty path
        ret = mv.terms.local(0, 14)
        R.ob("C02.c", m, "return", term_has_call(ret, "yrs::alt::merge_updates_" + ver), "returns %s" % sshow(ret, 5))
    sibling(R, "C02.c", Y, "yrs::transaction::merge_pending_v1", "yrs::transaction::merge_pending_v2")
    sibling(R, "C02.c", Y, "yrs::transaction::ReadTxn::encode_state_as_update_v1",
            "yrs::transaction::ReadTxn::encode_state_as_update_v2")


def rule_i(R, ctx, rid="C02.i"):
    Y = ctx.yrs
    R.rule(rid, "R-PROV+R-GUARD WriteTxn::prune_pending (hands the stash to the caller and clears it) forwards BOTH stashes, each "
                "under its own presence test alone: pending.update is pushed where `pending.take()` is Some, an update carrying "
                "pending_ds where `pending_ds.take()` is Some, and the answer is Update::merge_updates of that list")
    m = Y.fn("yrs::transaction::WriteTxn::prune_pending")
    mv = FnView(m)
    pbs = m.calls_to("re:^std::vec::Vec::push$", "re:^std::collections::VecDeque::push_back$")
    R.floor(rid, "pushes into the merge list of prune_pending", len(pbs), 2)
    got_p = got_ds = False
    for cs in pbs:
        a = mv.arg(cs, 1)
        if term_has_field(a, "Store.pending") and not term_has_field(a, "Store.pending_ds"):
            got_p = True
    for i, j, st in m.stmts():
        dst = st["dst"]
        if isinstance(dst, dict) and F.place_has_field(dst, "Update.delete_set", last_only=True):
            if term_has_field(mv.terms.rvalue(st["rv"], 10), "Store.pending_ds"):
                u = dst["l"]
                for cs in pbs:
                    if any(tt[0] == "local" and tt[1] == u for tt in walk(mv.arg(cs, 1))) or any(_mentions_local(m, cs.args[1], u)):
                        got_ds = True
    R.ob(rid, m, "push:pending", got_p, "pending.update is pushed into the merge list: %s" % got_p)
    R.ob(rid, m, "push:pending_ds", got_ds, "an update carrying pending_ds is pushed into the merge list: %s" % got_ds)
    for cs, site in ordinal_sites(pbs):
        tests = []
        for l in mv.guards(cs.bb):
            if term_has_field(l.term, "Store.pending_ds"):
                tests.append(("pending_ds", l.polarity))
            elif term_has_field(l.term, "Store.pending"):
                tests.append(("pending", l.polarity))
            else:
                tests.append((l.desc[:50], l.polarity))
        ok_i = len(tests) == 1 and tests[0][1] == "Some" and tests[0][0] in ("pending", "pending_ds")
        R.ob(rid, m, "alone:" + site, ok_i, "forwarded exactly where %s is Some" % tests[0][0] if ok_i else
             "a stash is forwarded under %s — not under its own presence test alone" % (tests,), cs.loc())
    ret = mv.terms.local(0, 14)
    R.ob(rid, m, "return", term_has_call(ret, "yrs::update::Update::merge_updates"), "answers %s" % sshow(ret, 5))


def _mentions_local(fn, op, local, depth=8):
    """does the backward slice of operand `op` mention MIR local `local` (through refs/calls)?"""
    seen = set()
    st = [op]
    defs = fn.defs()
    while st:
        o = st.pop()
        pl = o.get("c", o.get("m")) if isinstance(o, dict) else None
        if pl is None:
            continue
        l = pl if isinstance(pl, int) else pl["l"]
        if l == local:
            yield True
            return
        if l in seen:
            continue
        seen.add(l)
        for d in defs.get(l, []):
            if d[0] == "stmt":
                rv = d[3]["rv"]
                for k in ("use", "cast", "a", "b"):
                    if k in rv and isinstance(rv[k], dict):
                        st.append(rv[k])
                if "ref" in rv:
                    st.append({"c": rv["ref"]})
                for o2 in rv.get("ops", []):
                    st.append(o2)
            else:
                for a in d[2].args:
                    st.append(a)


def rule_d(R, ctx):
    Y = ctx.yrs
    R.rule("C02.d", "R-PROV: ReadTxn::has_missing_updates is true iff Store.pending or Store.pending_ds is Some (reads both)")
    fn = Y.fn("yrs::transaction::ReadTxn::has_missing_updates")
    v = FnView(fn)
    reads = set()
    for cs in fn.calls_to("re:^std::option::Option::is_some$"):
        p = field_path(simp_deep(v.arg(cs, 0)))
        if p:
            reads.add(p[-1])
    lits = [l for l in v.lits if term_has_call(l.term, "re:^std::option::Option::is_some$")]
    R.ob("C02.d", fn, "reads", {"pending", "pending_ds"} <= reads, "is_some() tested on: %s" % sorted(reads))
    # exact formula of the return value
    from ylib.formula import Formulas, truth_check, fshow
    fm = Formulas(fn, simp_deep)
    f = fm.local_formula(0)

    def classify(key, term):
        if term is not None and term[0] == "call" and callee_match(term[1], "std::option::Option::is_some"):
            p = field_path(term[2][0])
            if p[-1:] == ["pending"]:
                return "P"
            if p[-1:] == ["pending_ds"]:
                return "D"
        return None

    ok, cex, keys = truth_check(f, classify, lambda e: (e["P"] or e["D"]) if "P" in e and "D" in e else None)
    R.ob("C02.d", fn, "formula", ok and len(keys) == 2, "return value = %s%s" % (fshow(f), "" if ok else "; counterexample %s" % cex))


def rule_f(R, ctx, rid="C02.f"):
    Y = ctx.yrs
    R.rule(rid, "R-GUARD/R-PROV out-of-order integration: Update::integrate calls integrate_skip only under offset < 0 with the "
                    "gap range (client, local clock, |offset|), and BlockStore::push replaces an integrated Skip by splitting it "
                    "(skips.remove_range of the pushed block's own range)")
    ig = Y.fn("yrs::update::Update::integrate")
    iv = FnView(ig)
    sk = ig.calls_to(TXN + "::integrate_skip")
    R.floor(rid, "integrate_skip call in Update::integrate", len(sk), 1)
    for cs, site in ordinal_sites(sk):
        ok = iv.has_guard(cs.bb, lambda l: l.term[0] == "bin" and l.term[1] == "Lt" and l.polarity is True
                          and simp(l.term[3])[0] == "const" and simp(l.term[3])[1] == 0)
        nomiss = iv.has_guard(cs.bb, lambda l: term_has_call(l.term, "yrs::update::Update::missing_dependency") and l.polarity == "None")
        R.ob(rid, ig, site, ok and nomiss, "guards: %s" % iv.guard_descs(cs.bb), cs.loc())
    ps = Y.fn("yrs::block_store::BlockStore::push")
    pv = FnView(ps)
    rr = ps.calls_to("re:^yrs::ids::IdMapInner<.*>::remove_range$", "re:remove_range$")
    R.floor(rid, "skips.remove_range in BlockStore::push", len(rr), 1)
    for cs, site in ordinal_sites(rr):
        recv = simp_deep(pv.arg(cs, 0))
        a = pv.arg(cs, 1)
        ok = field_path(recv)[-1:] == ["skips"] and term_has_call(a, "yrs::block::Block::range") and root_name(simp(simp_deep(a)[2][0]) if simp_deep(a)[0] == "call" else a) == "block"
        R.ob(rid, ps, site, ok, "skips.remove_range(%s)" % sshow(a), cs.loc())
    # every integrated Skip is entered in the gap table: is_missing answers from `skips`, so a Skip block that is pushed
    # without its range recorded makes its clocks look present
    sf = Y.fn(TXN + "::integrate_skip")
    sv = FnView(sf)
    cfg = sf.cfg()
    pushes = sf.calls_to("yrs::block_store::BlockStore::push")
    R.floor(rid, "BlockStore::push in integrate_skip", len(pushes), 1)
    ins = [c for c in sf.calls_to("yrs::id_set::IdSet::insert")
           if field_path(simp_deep(sv.arg(c, 0)))[-1:] == ["skips"]]
    for cs, site in ordinal_sites(pushes):
        ok = False
        why = "no skips.insert on every path to the push"
        for c in ins:
            idt, ln = simp_deep(sv.arg(c, 1)), simp_deep(sv.arg(c, 2))
            rng_ok = idt[0] == "call" and "BlockRange::id" in idt[1] and root_name(simp_deep(idt[2][0])) == "skip" \
                and field_path(ln)[-1:] == ["len"] and root_name(ln) == "skip"
            if cfg.dominates(c.bb, cs.bb) and cfg.postdominates(cs.bb, c.bb) and cfg.postdominates(c.bb, 0) and rng_ok:
                ok = True
                why = "skips.insert(%s, %s) on every path, paired with the push" % (sshow(idt), sshow(ln))
        R.ob(rid, sf, site + ":gap-recorded", ok, why, cs.loc())


def _norm(t):
    """term without call-site ordinals, plumbing stripped."""
    t = simp_deep(t)
    if isinstance(t, tuple):
        if t and t[0] == "call":
            return ("call", t[1], tuple(_norm(a) for a in t[2]))
        return tuple(_norm(x) for x in t)
    return t


def _norm_deep(fn, v, t):
    return _norm(t)


DEPENDENCIES = [
    ("origin", "yrs::block::Item.origin", False),
    ("right_origin", "yrs::block::Item.right_origin", False),
    ("parent branch item", "yrs::branch::Branch.item", False),
    ("parent id", "yrs::types::TypePtr::ID.0", False),
    ("quote start", "yrs::types::weak::LinkSource.quote_start", True),
    ("quote end", "yrs::types::weak::LinkSource.quote_end", True),
]


def rule_g(R, ctx, rid="C02.g"):
    Y = ctx.yrs
    R.rule(rid, "R-GUARD/R-PROV dependency test: in Update::missing_dependency every `return Ok(Some(id))` is reached only "
                    "under `store.blocks.is_missing(id)` of the very id returned (the skip-aware presence test: a clock inside an "
                    "integrated Skip range is absent), and each dependency of an item — left origin, right origin, parent (by "
                    "branch item and by id), and with feature weak both quotation boundaries — has such a return")
    fn = Y.fn("yrs::update::Update::missing_dependency")
    v = FnView(fn)
    rets = []
    for d in fn.defs().get(0, []):
        if d[0] != "stmt":
            continue
        t = v.terms.rvalue(d[3]["rv"], 40)
        if t[0] == "agg" and t[1].endswith("Result::Ok") and t[2] and t[2][0][0] == "agg" and t[2][0][1].endswith("Option::Some"):
            rets.append((d[1], t[2][0][2][0], d[3]["line"]))
    R.floor(rid, "Ok(Some(id)) returns in missing_dependency", len(rets), 6 if ("weak" in Y.features) else 4)
    seen = {}
    for bb, idt, line in rets:
        ok = False
        for l in v.guards(bb):
            if l.polarity is True and l.term[0] == "call" and callee_match(l.term[1], "yrs::block_store::BlockStore::is_missing") \
                    and len(l.term[2]) == 2 and len(l.term) > 3:
                # re-read the call's arguments at full depth (guard terms are depth-limited)
                for cs in fn.calls():
                    if cs.bb == l.term[3] and len(cs.args) == 2 and _norm(v.arg(cs, 1, 40)) == _norm_deep(fn, v, idt) \
                            and term_has_field(v.arg(cs, 0, 40), "Store.blocks"):
                        ok = True
        name = None
        for nm, fld, _w in DEPENDENCIES:
            if term_has_field(idt, fld):
                name = nm
        site = "return:%s" % (name or sshow(idt, 4))
        seen[name] = True
        R.ob(rid, fn, site, ok,
             "returned dependency %s is tested with BlockStore::is_missing on this store" % sshow(idt) if ok else
             "dependency %s is reported missing under a different test than BlockStore::is_missing(store.blocks, <that id>): %s — "
             "a skip-unaware presence test lets a block integrate while its dependency is still a gap" %
             (sshow(idt), [l.desc for l in v.guards(bb)]), "%s:%s" % (fn.file, line))
    # each dependency test is skipped under no other condition than "this kind of dependency does not exist on the block"
    for cs in fn.calls_to("yrs::block_store::BlockStore::is_missing"):
        idt = v.arg(cs, 1, 24)
        name = None
        for nm, fld, _w in DEPENDENCIES:
            if term_has_field(idt, fld):
                name = nm
        extra = []
        for l in v.guards(cs.bb):
            t = simp_deep(l.term)
            if isinstance(l.polarity, str) and l.polarity in ("Item", "Some", "ID", "Branch", "Type", "WeakLink"):
                continue  # shape of the block: the dependency exists
            if name == "quote end" and t[0] == "call" and re.search(r"PartialEq(<.*>)?>?::ne$", t[1]) and l.polarity is True and \
                    term_has_field(t, "LinkSource.quote_start") and term_has_field(t, "LinkSource.quote_end") and \
                    all(simp_deep(a)[0] == "call" and simp_deep(a)[1].endswith("StickyIndex::id") for a in t[2]):
                continue  # a single-element quotation has one boundary id
            if t[0] == "call" and callee_match(t[1], "yrs::block_store::BlockStore::is_missing") and l.polarity is False:
                continue  # an earlier dependency was present
            extra.append(l.desc)
        R.ob(rid, fn, "unconditional:%s" % (name or sshow(idt, 4)), not extra,
             "the %s test is skipped only when the block has no such dependency" % name if not extra else
             "the %s dependency is tested only under %s: blocks for which that condition fails are integrated without waiting for it" % (name, extra[:2]),
             cs.loc())
    for nm, fld, weak in DEPENDENCIES:
        if weak and not ("weak" in Y.features):
            continue
        R.ob(rid, fn, "covers:%s" % nm, nm in seen,
             "dependency `%s` has a missing-test" % nm if nm in seen else
             "no `return Ok(Some(..))` tests the dependency `%s` (%s): items would integrate before it arrived" % (nm, fld))


def rule_h(R, ctx, rid="C02.h"):
    Y = ctx.yrs
    R.rule(rid, "R-PROV the frontier cached during Update::integrate only moves forward: the per-client `local_clock` obtained from "
                "`state.entry(client).or_insert_with(get_clock)` is stored to only as max(<its old value>, id.clock + len) — a block "
                "that fills an existing gap must not pull it back, or the hole prepended before the next non-adjacent block of that "
                "client lies inside the store's gap and BlockStore::push erases clocks that are still missing from `skips`; and the "
                "hole itself starts at the cached clock with length |cached − id.clock|, only under offset < 0")
    fn = Y.fn("yrs::update::Update::integrate")
    v = FnView(fn)
    n = 0
    for i, j, st in fn.stmts():
        d = st["dst"]
        if not (isinstance(d, dict) and d["p"] == ["*"] and "u32" in str(fn.local_ty(d["l"]))):
            continue
        df = mir_def(fn, {"c": d["l"]})
        if not (df and df[0] == "call" and re.search(r"Entry(<.*>)?::or_insert(_with)?$", df[1].name)):
            continue
        n += 1
        t = simp_deep(v.terms.rvalue(st["rv"], 14))
        ok = False
        if t[0] == "call" and re.search(r"(Ord(<.*>)?>?::max|::max)$", t[1]) and len(t[2]) == 2:
            olds = [a for a in t[2] if term_has_call(a, "re:Entry(<.*>)?::or_insert(_with)?$") and not [x for x in walk(a) if x[0] == "bin"]]
            news = [a for a in t[2] if [x for x in walk(a) if x[0] == "bin" and x[1] in ("Add", "AddWithOverflow")]]
            ok = bool(olds) and bool(news)
        R.ob(rid, fn, "cached-frontier#%d" % (n - 1), ok,
             "local_clock := max(local_clock, id.clock + len)" if ok else
             "the cached per-client frontier is overwritten with %s: it can move backwards after a block that fills a gap" % sshow(t, 6),
             "%s:%s" % (fn.file, st["line"]))
    R.floor(rid, "stores to the cached frontier in Update::integrate", n, 1)


def check(ctx, R):
    R.run("C02.a", rule_a, ctx)
    R.run("C02.b", rule_b, ctx)
    R.run("C02.b2", rule_b2, ctx)
    R.run("C02.b3", rule_b3, ctx)
    R.run("C02.b4", rule_b4, ctx)
    from . import accessors
    R.run("C02.b5", lambda R, c: accessors.state_vector_ops(R, c, "C02.b5"), ctx)
    R.run("C02.c", rule_c, ctx)
    R.run("C02.d", rule_d, ctx)
    R.run("C02.f", rule_f, ctx)
    R.run("C02.g", rule_g, ctx)
    R.run("C02.h", rule_h, ctx)
    R.run("C02.i", rule_i, ctx)
    from . import preds
    R.run("C02.p", lambda R, c: preds.rule(R, c, "C02.p", ["is_missing"]), ctx)
    return {}
