"""Small accessors and converters everything else leans on: each is a two-line function, each is called from dozens of places,
and a slip in one of them (a copy/paste from its neighbour, two look-alike arms folded into one) passes every test that does
not build the one shape that tells the neighbours apart. The clauses are exact value identities over MIR value keys."""
import re
from ylib import facts as F
from .common import *  # noqa

VARIANT_PRESERVING = (
    ("yrs::block::Block::splice", "yrs::block::Block", "yrs::block::Block"),
    ("yrs::block::Block::as_slice", "yrs::block::Block", "yrs::slice::BlockSlice"),
)


def variant_preserving(R, ctx, rid):
    Y = ctx.yrs
    R.rule(rid, "R-TABLE kind-preserving converters: Block::splice (the update-side splitter behind BlockSet::exclude and "
                "merge_updates) and Block::as_slice build, in the arm of each block kind, a value of THAT kind — the right half of a "
                "GC range is a GC range, of a Skip a Skip, of an item an item. An or-pattern that folds the two range kinds into one "
                "constructor turns known deletions into holes (clocks silently lost from a merged update) or holes into deletions "
                "(content nobody deleted is tombstoned on every replica)")
    n = 0
    for path, src_enum, dst_enum in VARIANT_PRESERVING:
        fn = Y.fn(path)
        k = 0
        for i, j, st in fn.stmts():
            rv = st["rv"]
            if "agg" in rv and rv["agg"].get("adt") == dst_enum and rv["agg"].get("variant"):
                var = rv["agg"]["variant"]
                ks, used = kinds_reaching(Y, fn, i, enum=src_enum, place_hint=None)
                n += 1
                ok = used >= 1 and ks == {var}
                R.ob(rid, fn, "arm:%s#%d" % (var, k), ok, "%s is built for %s input only" % (var, sorted(ks)) if ok else
                     "%s::%s is built for input kinds %s: the kind is not preserved" % (dst_enum.rsplit("::", 1)[-1], var, sorted(ks)), "%s:%s" % (fn.file, st["line"]))
                k += 1
    R.floor(rid, "constructed variants in kind-preserving converters", n, 5)


def _is_field(k, suffix):
    return isinstance(k, tuple) and k and k[0] == "proj" and k[2] and str(k[2][-1]).endswith(suffix)


def _base(k):
    return k[1] if isinstance(k, tuple) and k and k[0] == "proj" and len(k[2]) == 1 else (("proj", k[1], k[2][:-1]) if isinstance(k, tuple) and k and k[0] == "proj" else None)


def range_accessors(R, ctx, rid):
    Y = ctx.yrs
    R.rule(rid, "R-TABLE clock arithmetic of blocks and range lists (value identities): Block::clock_range and Item::clock_range "
                "answer (clock, clock + len - 1) — an INCLUSIVE last clock — of one and the same block in every arm; Block::next_clock "
                "answers clock + len; IdRanges::clock_start is the start of the FIRST range, IdRanges::clock_end the end of the LAST. "
                "The binary searches (find_index), the hole-aware state vector and the delete-set walks read these: an exclusive end "
                "in one arm makes a Skip claim the first clock of its successor, `last` for `first` advertises the start of the last "
                "hole instead of the first")
    n = 0
    for path in ("yrs::block::Block::clock_range", "yrs::block::Item::clock_range"):
        fn = Y.fn(path)
        tuples = [(i, st) for i, j, st in fn.stmts() if "agg" in st["rv"] and st["rv"]["agg"].get("kind") == "tuple" and len(st["rv"]["ops"]) == 2]
        R.floor(rid, "range tuples in %s" % path.rsplit("::", 2)[-2], len(tuples), 1)
        for k, (i, st) in enumerate(tuples):
            a, b = mir_vkey(fn, st["rv"]["ops"][0]), mir_vkey(fn, st["rv"]["ops"][1])
            n += 1
            ok = False
            if isinstance(b, tuple) and b and b[0] == "Sub" and b[2] == ("k", 1) and isinstance(b[1], tuple) and b[1] and b[1][0] == "Add":
                c, l = b[1][1], b[1][2]
                ok = c == a and _is_field(a, ".clock") and _is_field(l, ".len") and key_root(c) == key_root(l)
            R.ob(rid, fn, "inclusive-end#%d" % k, ok, "(clock, clock + len - 1) of one block" if ok else
                 "the range answered is (%s, %s) — not (clock, clock + len - 1) of one block" % (kshow(a), kshow(b)), "%s:%s" % (fn.file, st["line"]))
    fn = Y.fn("yrs::block::Block::next_clock")
    adds = [(i, st) for i, j, st in fn.stmts() if str(st["rv"].get("bin", "")).startswith("Add")]
    R.floor(rid, "sums in Block::next_clock", len(adds), 2)
    for k, (i, st) in enumerate(adds):
        a, b = mir_vkey(fn, st["rv"]["a"]), mir_vkey(fn, st["rv"]["b"])
        n += 1
        ok = _is_field(a, ".clock") and _is_field(b, ".len")
        R.ob(rid, fn, "next#%d" % k, ok, "clock + len" if ok else "next_clock adds %s and %s" % (kshow(a), kshow(b)), "%s:%s" % (fn.file, st["line"]))
    for path, which, fld in (("yrs::ids::IdRanges::clock_start", "first", "Range.start"), ("yrs::ids::IdRanges::clock_end", "last", "Range.end")):
        fn = Y.fn(path)
        v = FnView(fn)
        somes = [(i, st) for i, j, st in fn.stmts() if "agg" in st["rv"] and st["rv"]["agg"].get("variant") == "Some"]
        n += 1
        ok = bool(somes)
        got = []
        for i, st in somes:
            t = simp_deep(v.terms.operand(st["rv"]["ops"][0], 12))
            sel = [x[1].rsplit("::", 1)[-1] for x in walk(t) if x[0] == "call" and re.search(r"\]>?::(first|last|get|first_mut|last_mut)$|::(first|last)$", x[1])]
            f_ok = t[0] == "field" and t[1].endswith(fld)
            got.append((sel, t[1] if t[0] == "field" else t[0]))
            ok = ok and f_ok and sel == [which]
        R.ob(rid, fn, "endpoint", ok, "%s().%s" % (which, fld.rsplit(".", 1)[-1]) if ok else
             "%s answers %s — not %s().%s" % (path.rsplit("::", 1)[-1], got, which, fld.rsplit(".", 1)[-1]))
    R.floor(rid, "range accessors checked", n, 6)


def key_root(k):
    """the innermost base of a projection key."""
    while isinstance(k, tuple) and k and k[0] == "proj":
        k = k[1]
    return k


def json_base(k):
    """the base of a one-step field projection key."""
    if isinstance(k, tuple) and k and k[0] == "proj":
        return (k[1], tuple(k[2][:-1]))
    return None


def kshow(k, d=0):
    if isinstance(k, tuple) and k:
        if k[0] == "proj":
            return "%s.%s" % (kshow(k[1], d + 1), ".".join(str(x).rsplit(".", 1)[-1].rsplit("::", 1)[-1] for x in k[2]))
        if k[0] == "local":
            return "_%s" % k[1]
        if k[0] == "k":
            return str(k[1])
        if k[0] in ("Add", "Sub", "Mul") and len(k) == 3:
            return "(%s %s %s)" % (kshow(k[1], d + 1), {"Add": "+", "Sub": "-", "Mul": "*"}[k[0]], kshow(k[2], d + 1))
    return str(k)[:40]


def binary_searches(R, ctx, rid):
    Y = ctx.yrs
    R.rule(rid, "R-SIB closed-interval binary searches (contradiction rule): a search loop that narrows its upper bound to `mid - 1` "
                "treats [left, right] as a CLOSED interval, so it must go on while `left <= right` — with `left < right` the last "
                "remaining candidate is answered without being examined; a loop that narrows to `mid` (half-open) must use `<`. "
                "Loop condition and narrowing step have to tell the same story (IdRanges::find_start, ClientBlockList::find_index, "
                "BlockSet::find_index)")
    n = 0
    for p, fn in sorted(Y.fns.items()):
        if not fn.mir or "::test" in p or fn.file not in ("yrs/src/ids.rs", "yrs/src/block_store.rs", "yrs/src/update.rs", "yrs/src/id_set.rs"):
            continue
        cfg = fn.cfg()
        # candidate loop conditions: Le/Lt between two multi-definition locals inside a loop
        for i, j, st in fn.stmts():
            rv = st["rv"]
            if rv.get("bin") not in ("Le", "Lt") or not cfg.in_loop(i):
                continue
            ra, rb = mir_root(fn, rv["a"]), mir_root(fn, rv["b"])
            if ra[0] != "local" or rb[0] != "local" or len(fn.defs().get(ra[1], [])) < 2 or len(fn.defs().get(rb[1], [])) < 2:
                continue
            L, Rr = ra[1], rb[1]
            # narrowing steps: R := mid - 1 / R := mid ; L := mid + 1
            r_defs = [d for d in fn.defs()[Rr] if d[0] == "stmt" and cfg.in_loop(d[1])]
            l_defs = [d for d in fn.defs()[L] if d[0] == "stmt" and cfg.in_loop(d[1])]
            def shape(d):
                k = mir_vkey(fn, {"c": d[3]["dst"]}) if False else None
                rvv = d[3]["rv"]
                key = mir_vkey(fn, rvv["use"]) if "use" in rvv else ((rvv.get("bin", "").replace("WithOverflow", ""), mir_vkey(fn, rvv["a"]), mir_vkey(fn, rvv["b"])) if "bin" in rvv else None)
                if isinstance(key, tuple) and key and key[0] in ("Sub", "Add") and key[2] == ("k", 1):
                    return key[0] + "1"
                return "plain"
            rs = {shape(d) for d in r_defs}
            ls = {shape(d) for d in l_defs}
            if not (("Add1" in ls) and (rs & {"Sub1", "plain"})):
                continue   # not a bisection
            n += 1
            closed = "Sub1" in rs
            ok = (rv["bin"] == "Le") if closed else (rv["bin"] == "Lt")
            R.ob(rid, fn, "bisect@%s" % (fn.local_name(L) or L), ok,
                 "%s interval, loop runs while left %s right" % ("closed" if closed else "half-open", "<=" if rv["bin"] == "Le" else "<") if ok else
                 "the search narrows right to `mid%s` (%s interval) but runs while left %s right: %s" %
                 (" - 1" if closed else "", "closed" if closed else "half-open", "<=" if rv["bin"] == "Le" else "<",
                  "the last candidate is never examined" if closed else "the loop does not terminate on a single candidate"), "%s:%s" % (fn.file, st["line"]))
    R.floor(rid, "bisection loops", n, 2)
    # the pivots of the two interpolation searches stay inside [0, last index]: the element examined in the loop is indexed by the
    # midpoint of the bounds or by `quotient * right` (clock / end <= 1 scaled by the LAST index) — scaled by the length instead, the
    # pivot is one past the end exactly when the clock sought is the last clock of the list
    m = 0
    for path in ("yrs::update::BlockSet::find_index", "yrs::block_store::ClientBlockList::find_index"):
        fn = Y.fn(path)
        v = FnView(fn)
        cfg = fn.cfg()
        for cs in fn.calls():
            if not (re.search(r"Index<.*>>::index$", F.strip_generics(cs.name)) and len(cs.args) > 1 and cfg.in_loop(cs.bb)):
                continue
            t = simp_deep(v.arg(cs, 1, 14))
            alts = list(t[1]) if t[0] == "phi" else [t]
            bad = []
            for a in alts:
                a = simp_deep(a)
                # checked arithmetic: (x op y).0 and a cast around it
                while isinstance(a, tuple) and a and ((a[0] == "field" and a[1] == "tuple.0") or a[0] in ("cast", "as")) and isinstance(a[-1], tuple):
                    a = simp_deep(a[-1])
                if a[0] == "bin" and a[1] == "Div" and simp_deep(a[3])[:2] == ("const", 2):
                    continue    # midpoint of the bounds
                if a[0] == "bin" and a[1].startswith("Mul"):
                    def _uncast(x):
                        x = simp_deep(x)
                        while isinstance(x, tuple) and x and x[0] in ("cast", "as") and isinstance(x[-1], tuple):
                            x = simp_deep(x[-1])
                        return x
                    sides = [_uncast(a[2]), _uncast(a[3])]
                    quo = [x for x in sides if x[0] == "bin" and x[1] == "Div"]
                    scale = [x for x in sides if x not in quo]
                    if len(quo) == 1 and len(scale) == 1:
                        forms = [f.strip() for f in _canon(scale[0]).split(" | ")]
                        if all(re.fullmatch(r"right|\(mid - 1\)|\((Vec|VecDeque)::len\(.*\) - 1\)", f) for f in forms):
                            continue   # quotient scaled by the last index
                bad.append(_canon(a))
            m += 1
            R.ob(rid, fn, "pivot-in-range", not bad, "the examined index is a midpoint or a quotient scaled by the last index" if not bad else
                 "the examined index can be %s — not bounded by the last index of the list" % bad, cs.loc())
    R.floor(rid, "pivots of the interpolation searches", m, 2)


def _any_variant_of_from(Y, src_ty):
    """the Any variant `impl From<src_ty> for Any` builds (from that impl's own body)."""
    fn = Y.fns.get("<yrs::any::Any as std::convert::From<%s>>::from" % src_ty)
    if fn is None or not fn.mir:
        return None
    vs = {st["rv"]["agg"].get("variant") for i, j, st in fn.stmts() if "agg" in st["rv"] and st["rv"]["agg"].get("adt") == "yrs::any::Any"}
    if len(vs) == 1:
        return vs.pop()
    # forwarding impls (From<&str> -> From<String> ...): follow one call
    for c in fn.calls():
        m = re.match(r"^<yrs::any::Any as std::convert::From<(.*)>>::from$", c.name)
        if m:
            return _any_variant_of_from(Y, m.group(1))
        if c.name.endswith("::into") and c.t.get("arg_tys") and c.t.get("dest_ty") == "yrs::any::Any":
            return _any_variant_of_from(Y, c.t["arg_tys"][0])
    return None


def options_codec(R, ctx, rid):
    Y = ctx.yrs
    from ylib.facts import hir_walk
    R.rule(rid, "R-TABLE key -> kind of value in the options map of a sub-document (ContentDoc): for every key that both "
                "Options::as_any writes and Options::decode matches with a specific Any variant (gc: Bool, autoLoad: Bool, "
                "collectionId: String, encoding: BigInt) the variant the writer builds — an Any aggregate, or the variant the "
                "resolved `impl From<T> for Any` of the argument's type builds — is the variant the reader's pattern expects. The "
                "reader falls through to a default for any other kind (`('encoding', _) => Utf16`), so a writer that switches to a "
                "generic constructor (a number for a big integer) round-trips to a different option without any error")
    w = Y.fn("yrs::doc::Options::as_any")
    wv = FnView(w)
    written = {}
    for cs in w.calls_to("re:HashMap(<.*>)?::insert$"):
        key = simp_deep(wv.arg(cs, 1, 10))
        ks = [x[1] for x in walk(key) if x[0] == "const" and isinstance(x[1], str)]
        if not ks:
            continue
        d = mir_def(w, cs.args[2])
        var = None
        if d and d[0] == "stmt" and isinstance(d[1].get("agg"), dict) and d[1]["agg"].get("adt") == "yrs::any::Any":
            var = d[1]["agg"].get("variant")
        elif d and d[0] == "call" and d[1].t.get("dest_ty") == "yrs::any::Any" and d[1].t.get("arg_tys"):
            m = re.match(r"^<yrs::any::Any as std::convert::From<(.*)>>::from$", d[1].name)
            var = _any_variant_of_from(Y, m.group(1) if m else d[1].t["arg_tys"][0])
        written[ks[0].strip('"')] = (var, cs.loc())
    r = Y.fn("<yrs::doc::Options as yrs::updates::decoder::Decode>::decode")
    expected = {}
    for n in hir_walk(r.hir):
        if isinstance(n, dict) and n.get("k") == "ptuple" and len(n.get("subs", [])) == 2 and n["subs"][0].get("k") == "plit":
            key = str(n["subs"][0].get("v"))
            p = n["subs"][1]
            if p.get("k") in ("ptuple_struct", "pstruct") and str(p.get("def", "")).startswith("yrs::any::Any::"):
                expected.setdefault(key, set()).add(p["def"].rsplit("::", 1)[-1])
    R.floor(rid, "keys the reader matches with a specific Any variant", len(expected), 4)
    for key, vs in sorted(expected.items()):
        got = written.get(key)
        if got is None:
            R.inventory(rid, w, "key:" + key, "matched by the reader, not written by Options::as_any")
            continue
        ok = got[0] in vs
        R.ob(rid, w, "key:" + key, ok, "`%s` is written as Any::%s, read as Any::%s" % (key, got[0], sorted(vs)) if ok else
             "`%s` is written as Any::%s but the reader expects Any::%s and silently takes its default for anything else" % (key, got[0], sorted(vs)), got[1])


def text_length_unit(R, ctx, rid):
    Y = ctx.yrs
    R.rule(rid, "R-PROV a text measures itself in the configured unit: Text::len answers Branch.content_len (bytes or UTF-16 units, "
                "as the document is configured), and no default method of the Text trait — whose indexes are all in that unit — "
                "reads the branch's block length (Branch::len / Branch.block_len, always UTF-16 units): Text::push appends at "
                "Text::len. The two lengths agree for ASCII, so an append computed from the block length lands inside the text as "
                "soon as it holds a multi-byte character (expected count zero; Array::len and XmlFragment::len, which rightly read "
                "the block length, are the positive control)")
    ln = [fn for p, fn in Y.fns.items() if re.match(r"^yrs::types::text::Text::len$", p)]
    if not ln:
        raise AnchorLost("yrs::types::text::Text::len")
    v = FnView(ln[0])
    ret = simp_deep(v.terms.local(0, 8))
    R.ob(rid, ln[0], "len", ret[0] == "field" and ret[1].endswith("Branch.content_len"), "Text::len = %s" % sshow(ret, 4))
    n = 0
    offenders = []
    for p, fn in sorted(Y.fns.items()):
        if not re.match(r"^yrs::types::text::Text::\w+(::\{closure#\d+\})?$", p) or not fn.mir:
            continue
        n += 1
        for cs in fn.calls_to("yrs::branch::Branch::len"):
            offenders.append((fn, cs.loc()))
        for i, j, st in fn.stmts():
            rv = st["rv"]
            pl = (rv.get("use") or {}).get("c") if isinstance(rv.get("use"), dict) else None
            if isinstance(pl, dict) and F.place_has_field(pl, "Branch.block_len"):
                offenders.append((fn, "%s:%s" % (fn.file, st["line"])))
    R.floor(rid, "default methods of the Text trait scanned", n, 8)
    for fn, loc in offenders:
        R.ob(rid, fn, "block-length", False, "a Text method reads the block length (UTF-16 units) where text indexes are in the configured unit", loc)
    if not offenders:
        R.ob(rid, ln[0], "no-block-length", True, "no default method of the Text trait reads the block length (%d methods)" % n)
    # positive control: the matcher sees Branch::len where it belongs
    ctrl = [p for p, fn in Y.fns.items() if fn.mir and re.search(r"types::(array::Array|xml::XmlFragment)::len$", p) and
            (fn.calls_to("yrs::branch::Branch::len") or any(isinstance((st["rv"].get("use") or {}).get("c") if isinstance(st["rv"].get("use"), dict) else None, dict) and
                                                            F.place_has_field((st["rv"].get("use") or {}).get("c"), "Branch.block_len") for i, j, st in fn.stmts()))]
    R.floor(rid, "positive control: sequence types whose len reads the block length", len(ctrl), 1)
    push = [fn for p, fn in Y.fns.items() if p == "yrs::types::text::Text::push"]
    if push:
        pv = FnView(push[0])
        ins = [c for c in push[0].calls() if re.search(r"Text::insert$", c.name)]
        ok = bool(ins) and all(term_has_call(simp_deep(pv.arg(c, 2, 10)), "re:Text::len$") for c in ins)
        R.ob(rid, push[0], "push-at-len", ok, "push inserts at Text::len: %s" % ok)


def read_honours_offset(R, ctx, rid):
    Y = ctx.yrs
    fn = Y.fn("yrs::block::ItemContent::read")
    R.rule(rid, "R-TABLE every multi-element content kind honours the read offset: ItemContent::read(offset, buf) — behind iteration "
                "and get(i), which read one element at a time at increasing offsets, while to_json reads whole blocks at offset 0 — "
                "uses its `offset` parameter in the arm of every kind that can hold more than one element (Any, JSON, String; from "
                "the content tables): an arm that ignores it returns the first element again for every position")
    params = fn.sig.get("params", [])
    if "offset" not in params:
        raise AnchorLost("ItemContent::read has no `offset` parameter: %s" % params)
    off = params.index("offset") + 1
    kinds = set()
    sites = 0
    for i, b in enumerate(fn.blocks):
        if b.get("cleanup"):
            continue
        used = False
        def is_off(o):
            return isinstance(o, dict) and ("c" in o or "m" in o) and mir_root(fn, o) == ("local", off)
        for st in b["s"]:
            for key in ("a", "b", "use", "cast"):
                if is_off(st["rv"].get(key)):
                    used = True
            for o in st["rv"].get("ops", []) or []:
                if is_off(o):
                    used = True
        t = b["t"]
        for o in t.get("args", []) or []:
            if is_off(o):
                used = True
        if used:
            ks, n_sw = kinds_reaching(Y, fn, i, place_hint=None)
            if n_sw and len(ks) < 5:
                kinds |= ks
                sites += 1
    R.floor(rid, "uses of the offset in ItemContent::read", sites, 1)
    need = {"Any", "JSON", "String"}
    R.ob(rid, fn, "offset-arms", need <= kinds, "the offset is used in the arms of %s" % sorted(kinds) if need <= kinds else
         "the offset is used in the arms of %s only; %s ignore it: reads that start inside such a block return its first elements" % (sorted(kinds), sorted(need - kinds)))


def fresh_per_round(R, ctx, rid):
    Y = ctx.yrs
    fn = Y.fn("yrs::transaction::TransactionMut::call_observers")
    v = FnView(fn)
    R.rule(rid, "R-PROV the weak-link guard of event bubbling is per changed type: TransactionMut::call_observers hands every call "
                "of call_type_observers a `visited` set created inside the loop round of that changed type (`HashSet::default()` / "
                "`new()` defined in the body of the loop that contains the call). The set stops one walk from entering the same link "
                "twice; shared between the walks of different changed types it stops the later walks at the first link an earlier "
                "one passed, and the deep observers behind that link never receive those events")
    calls = fn.calls_to("yrs::transaction::TransactionMut::call_type_observers")
    R.floor(rid, "call_type_observers calls in call_observers", len(calls), 1)
    for cs, site in ordinal_sites(calls):
        # the &mut HashSet argument: the one whose type mentions HashSet
        tys = cs.t.get("arg_tys", [])
        idx = [k for k, t in enumerate(tys) if re.match(r"^&mut std::collections::(HashSet|BTreeSet)<", str(t))]
        if not idx:
            R.ob(rid, fn, "visited:" + site, False, "no HashSet argument found", cs.loc())
            continue
        d = mir_def(fn, cs.args[idx[0]])
        fresh = d is not None and d[0] == "call" and re.search(r"::(default|new|with_capacity)$", d[1].name) is not None
        nexts = [c for c in fn.calls() if re.search(r"Iterator>?::next$", c.name) and cs.bb in loop_blocks(fn, c.bb)]
        inner = None
        for c in nexts:   # innermost loop containing the call
            if inner is None or len(loop_blocks(fn, c.bb)) < len(loop_blocks(fn, inner.bb)):
                inner = c
        in_round = fresh and inner is not None and d[1].bb in loop_blocks(fn, inner.bb)
        R.ob(rid, fn, "visited:" + site, bool(in_round), "a fresh set per changed type" if in_round else
             "the `visited` set handed to call_type_observers is %s: it is shared between the walks of different changed types" %
             ("created outside the loop round" if fresh else "not created here"), cs.loc())


def blocks_cursor(R, ctx, rid):
    Y = ctx.yrs
    fns = [f for p, f in Y.fns.items() if re.search(r"id_set::Blocks(<.*>)? as yrs::iter::TxnIterator>::next$", p)]
    if not fns:
        raise AnchorLost("<yrs::id_set::Blocks as TxnIterator>::next")
    fn = fns[0]
    v = FnView(fn)
    R.rule(rid, "R-PROV the delete-set block walk advances one block per block it yields: in <Blocks as TxnIterator>::next (behind "
                "IdSet::blocks(): the undo manager collects a step's insertions and deletions with it, so do split_by_snapshot and "
                "the formatting clean-up) every value stored into the cursor `current_index` is None or Some(i + 1) with i the index "
                "of the block just read — the result of find_index for the first block of a range, the cursor itself afterwards "
                "(`*idx += 1`). A cursor that jumps by two after a cut first block skips the block behind it whenever the caller "
                "does not split blocks between two calls")
    n = 0
    for i, j, st in fn.stmts():
        d = st["dst"]
        if not (isinstance(d, dict) and d.get("p") and any(isinstance(x, str) and x.endswith("Blocks.current_index") for x in d["p"])):
            continue
        t = simp_deep(v.terms.rvalue(st["rv"], 10))
        if t[0] == "agg" and str(t[1]).endswith("None"):
            continue
        n += 1
        ok = False
        shown = sshow(t, 6)
        dd = mir_def(fn, st["rv"].get("use")) if isinstance(st["rv"].get("use"), dict) else ("stmt", st["rv"])
        if dd and dd[0] == "stmt" and isinstance(dd[1].get("agg"), dict) and dd[1]["agg"].get("variant") == "Some":
            k = mir_vkey(fn, dd[1]["ops"][0])
            ok = isinstance(k, tuple) and k and k[0] == "Add" and k[2] == ("k", 1) and isinstance(k[1], tuple) and k[1][0] == "proj"
            if ok:
                base = mir_def(fn, {"c": k[1][1][1]}) if k[1][1][0] == "local" else None
                ok = base is not None and base[0] == "call" and re.search(r"find_index$", base[1].name) is not None
        R.ob(rid, fn, "cursor-store#%d" % n, ok, "current_index := Some(find_index(..) + 1)" if ok else
             "current_index := %s — not Some(index of the block just read + 1)" % shown, "%s:%s" % (fn.file, st["line"]))
    R.floor(rid, "non-None stores into Blocks.current_index", n, 1)
    # the in-place step: *idx += 1
    steps = []
    for i, j, st in fn.stmts():
        rv = st["rv"]
        if str(rv.get("bin", "")).startswith("Add"):
            a, b = mir_vkey(fn, rv["a"]), mir_vkey(fn, rv["b"])
            t = simp_deep(v.terms.operand(rv["a"], 8))
            if term_has_field(t, "Blocks.current_index"):
                steps.append((i, st, b))
    R.floor(rid, "in-place steps of the cursor", len(steps), 1)
    for k, (i, st, b) in enumerate(steps):
        R.ob(rid, fn, "cursor-step#%d" % k, b == ("k", 1), "*idx += 1" if b == ("k", 1) else "*idx += %s" % (b,), "%s:%s" % (fn.file, st["line"]))


def gc_scope(R, ctx, rid):
    Y = ctx.yrs
    fn = Y.fn("yrs::gc::GCCollector::mark_in_scope")
    v = FnView(fn)
    cfg = fn.cfg()
    R.rule(rid, "R-ORDER+R-GUARD a scoped collection stays inside its scope: in GCCollector::mark_in_scope (the automatic collector "
                "and TransactionMut::gc(Some(delete_set))) an item is handed to Item::gc only where the END of its block — the "
                "running clock after `start += block.len()` — was compared with the end of the delete range and is not beyond it: "
                "the increment dominates the comparison inside the loop round, the comparison is `> range.end` refused. Testing "
                "the block's start instead collects a tombstone that begins inside the range and reaches past it — squashed "
                "tombstones straddle the edge of a snapshot's delete set, and content visible at the snapshot is destroyed")
    gcs = fn.calls_to("yrs::block::Item::gc")
    R.floor(rid, "Item::gc calls in mark_in_scope", len(gcs), 1)
    lens = [c for c in fn.calls() if re.search(r"Block::len$", c.name)]
    incs = []
    for i, j, st in fn.stmts():
        rv = st["rv"]
        if str(rv.get("bin", "")).startswith("Add") and cfg.in_loop(i):
            b = mir_root(fn, rv["b"])
            a = mir_root(fn, rv["a"])
            if any(("local", c.dest) in (a, b) for c in lens if isinstance(c.dest, int)):
                incs.append(i)
    R.floor(rid, "running-clock increments by the block length", len(incs), 1)
    for cs, site in ordinal_sites(gcs):
        ok = False
        why = "no comparison with the end of the delete range decides the call"
        for l in v.guards(cs.bb):
            sw = fn.blocks[l.bb]["t"].get("switch")
            sd = mir_def(fn, sw) if sw else None
            if not (sd and sd[0] == "stmt" and sd[1].get("bin") in ("Gt", "Ge", "Lt", "Le")) or not isinstance(l.polarity, bool):
                continue
            ka, kb = mir_vkey(fn, sd[1]["a"]), mir_vkey(fn, sd[1]["b"])
            end_b = isinstance(kb, tuple) and kb and kb[0] == "proj" and str(kb[2][-1]).endswith("Range.end")
            end_a = isinstance(ka, tuple) and ka and ka[0] == "proj" and str(ka[2][-1]).endswith("Range.end")
            if not (end_a or end_b):
                continue
            op, pol = sd[1]["bin"], l.polarity
            # block end <= range end  ==  not (run > end)  ==  (end >= run)
            within = (end_b and ((op == "Gt" and pol is False) or (op == "Le" and pol is True))) or \
                     (end_a and ((op == "Lt" and pol is False) or (op == "Ge" and pol is True)))
            after_inc = any(cfg.dominates(inc, l.bb) and l.bb in loop_blocks(fn, _loop_header_of(fn, inc)) for inc in incs)
            ok = within and after_inc
            why = "decided by `%s %s range.end` is %s; compared after the increment by the block length: %s" % ("run" if end_b else "range.end", op, pol, after_inc)
            if ok:
                break
        R.ob(rid, fn, "within-scope:" + site, ok, "collected only where the block's end is not beyond the range's end" if ok else
             "an item is collected although its block may reach past the delete range (%s)" % why, cs.loc())


def _loop_header_of(fn, bb):
    """the header of the innermost natural loop containing bb (a block all of whose in-loop predecessors it dominates)."""
    cfg = fn.cfg()
    best = None
    for h in range(len(fn.blocks)):
        if fn.blocks[h].get("cleanup"):
            continue
        if any(cfg.dominates(h, u) for u in cfg.pred[h]):
            body = loop_blocks(fn, h)
            if bb in body and (best is None or len(body) < len(loop_blocks(fn, best))):
                best = h
    return best if best is not None else bb


def _canon(t):
    """canonical rendering of a small value term: checked arithmetic as plain arithmetic, field paths by their last names,
    commutative operands and phi alternatives sorted."""
    t = simp_deep(t) if isinstance(t, tuple) else t
    if not isinstance(t, tuple) or not t:
        return str(t)
    k = t[0]
    if k == "field":
        if t[1] == "tuple.0":
            inner = simp_deep(t[2])
            if inner[0] == "bin" and inner[1].endswith("WithOverflow"):
                return _canon(("bin", inner[1].replace("WithOverflow", ""), inner[2], inner[3]))
        name = t[1].rsplit(".", 1)[-1].rsplit("::", 1)[-1]
        return "%s.%s" % (_canon(t[2]), name)
    if k == "variant":
        # the two range kinds carry the same payload type: `GC(r) | Skip(r) => f(r)` and two separate arms render alike
        return "%s as %s" % (_canon(t[2]), "Range" if t[1] in ("GC", "Skip") else t[1])
    if k == "bin":
        op = t[1].replace("WithOverflow", "")
        a, b = _canon(t[2]), _canon(t[3])
        sym = {"Add": "+", "Sub": "-", "Mul": "*", "Eq": "==", "Lt": "<", "Le": "<=", "Gt": ">", "Ge": ">=", "Ne": "!="}.get(op, op)
        if op in ("Add", "Mul", "Eq", "Ne"):
            a, b = sorted((a, b))
        return "(%s %s %s)" % (a, sym, b)
    if k == "call":
        name = F.strip_generics(t[1])
        name = re.sub(r"^<.* as (.*)>::", r"\\1::", name)
        short = "::".join(name.split("::")[-2:])
        return "%s(%s)" % (short, ", ".join(_canon(a) for a in t[2]))
    if k == "phi":
        return " | ".join(sorted({_canon(a) for a in t[1]}))
    if k == "param":
        return str(t[2])
    if k == "const":
        return str(t[1]).split("_")[0]
    if k in ("ref", "deref", "cast"):
        return _canon(t[-1])
    if k == "agg":
        return "%s{%s}" % (str(t[1]).rsplit("::", 1)[-1], ", ".join(_canon(a) for a in t[2]))
    if k == "local":
        return str(t[2]) if len(t) > 2 and t[2] else "_"
    return str(k)


# function -> ("ret", expected) | ("store", {field: expected}) ; expected = canonical rendering (see _canon)
IDENTITIES = {
    "yrs::slice::ItemSlice::clock_start": ("ret", "(self.ptr.id.clock + self.start)"),
    "yrs::slice::ItemSlice::clock_end": ("ret", "(self.end + self.ptr.id.clock)"),
    "yrs::slice::ItemSlice::len": ("ret", "((self.end - self.start) + 1)"),
    "yrs::slice::ItemSlice::id": ("store", {"clock": "(self.ptr.id.clock + self.start)"}),
    "yrs::slice::ItemSlice::last_id": ("store", {"clock": "(self.end + self.ptr.id.clock)"}),
    "yrs::slice::BlockSlice::clock_end": ("ret", "((self as Range.0.clock + self as Range.0.len) - 1) | ItemSlice::clock_end(self as Item.0)"),
    "yrs::slice::BlockSlice::clock_start": ("ret", "ItemSlice::clock_start(self as Item.0) | self as Range.0.clock"),
    "yrs::slice::BlockSlice::len": ("ret", "ItemSlice::len(self as Item.0) | self as Range.0.len"),
    "yrs::block::Item::last_id": ("ret", "ID::new(self.id.client, ((Item::len(self) + self.id.clock) - 1))"),
    "yrs::block::BlockRange::clock_end": ("ret", "(self.clock + self.len)"),
    "yrs::block::BlockRange::id": ("ret", "ID::new(self.client, self.clock)"),
    "yrs::block::BlockRange::slice": ("store", {"clock": "(offset + self.clock)", "len": "(self.len - offset)"},
                                      "BlockRange::new(ID::new(self.client, (offset + self.clock)), (self.len - offset))"),
    "yrs::block::BlockRange::merge": ("store", {"len": "(other.len + self.len)"}),
    "yrs::state_vector::StateVector::get": ("ret", "0 | HashMap::get(self.0, client_id)"),
    "yrs::block_store::ClientBlockList::clock": ("ret", "0 | Block::next_clock(BlockRef::as_ref(ClientBlockList::last(self)))"),
    # the length of an item in the unit the caller names, deleted or not (event deltas measure tombstones with it)
    "yrs::block::Item::content_len": ("ret", "ItemContent::len(self.content, kind)"),
}


def identity_table(R, ctx, rid):
    Y = ctx.yrs
    R.rule(rid, "R-TABLE value identities of the clock accessors every traversal, codec and search trusts (ItemSlice / BlockSlice / "
                "BlockRange / Item / StateVector / ClientBlockList): the value each answers or stores, rebuilt from its MIR with "
                "locals resolved and rendered canonically (checked arithmetic as plain arithmetic, commutative operands sorted), "
                "equals the expression written down for it — clock_start = item clock + start, clock_end = item clock + end "
                "(inclusive), len = end - start + 1, a range's inclusive end = clock + len - 1, its exclusive end = clock + len, "
                "slice(offset) moves the clock forward and shortens the length by the same offset, … A refactoring that keeps the "
                "value (named temporaries, reordered commutative operands) renders the same; a neighbour's formula does not")
    n = 0
    for path, spec in sorted(IDENTITIES.items()):
        kind, want = spec[0], spec[1]
        alt = spec[2] if len(spec) > 2 else None
        fn = Y.fn(path)
        v = FnView(fn)
        n += 1
        if kind == "ret":
            got = _canon(v.terms.local(0, 14))
            R.ob(rid, fn, "value", got == want, "= %s" % got if got == want else "answers %s — expected %s" % (got, want))
        else:
            got = {}
            for i, j, st in fn.stmts():
                d = st["dst"]
                if isinstance(d, dict) and d.get("p") and isinstance(d["p"][-1], str):
                    got[d["p"][-1].rsplit(".", 1)[-1]] = _canon(v.terms.rvalue(st["rv"], 12))
            ok = all(got.get(f) == e for f, e in want.items())
            if not ok and alt is not None:
                # the same value built by the constructor instead of by field stores
                ret = _canon(v.terms.local(0, 14))
                if ret == alt:
                    R.ob(rid, fn, "stores", True, "answers %s" % ret)
                    continue
            R.ob(rid, fn, "stores", ok, "stores %s" % {f: got.get(f) for f in want} if ok else "stores %s — expected %s" % ({f: got.get(f) for f in want}, want))
    R.floor(rid, "accessors in the identity table", n, 12)


def state_vector_ops(R, ctx, rid):
    Y = ctx.yrs
    SV = "yrs::state_vector::StateVector"
    R.rule(rid, "R-TABLE the state-vector updaters do what their names say: set_min stores min(stored, clock) (clock itself for a new "
                "client), set_max stores max(stored, clock), inc_by stores stored + delta, merge stores max(stored, other's clock) "
                "for every entry of the other vector — the rules about WHICH updater a call site must use (C02.b2: the "
                "missing-dependency vector is only ever lowered) rest on these bodies")
    want = {"set_min": ("min", "clock"), "set_max": ("max", "clock"), "inc_by": ("Add", "delta"), "merge": ("max", None)}
    n = 0
    for meth, (op, param) in sorted(want.items()):
        fn = Y.fn("%s::%s" % (SV, meth))
        v = FnView(fn)
        stores = [(i, st) for i, j, st in fn.stmts() if isinstance(st["dst"], dict) and st["dst"].get("p") == ["*"] and str(fn.local_ty(st["dst"]["l"])).startswith("&mut u32")]
        n += 1
        ok = bool(stores)
        got = []
        for i, st in stores:
            t = simp_deep(v.terms.rvalue(st["rv"], 10))
            while t[0] == "field" and t[1] == "tuple.0":
                t = simp_deep(t[2])
            if op in ("min", "max"):
                good = t[0] == "call" and re.search(r"::%s$" % op, t[1]) is not None and len(t[2]) == 2
                if good and param:
                    good = any(simp_deep(a)[0] == "param" and simp_deep(a)[2] == param for a in t[2])
                if good:
                    good = any(term_has_call(a, "re:(entry|or_default|into_mut|get_mut|or_insert)") for a in t[2])
            else:
                good = t[0] == "bin" and t[1].replace("WithOverflow", "") == "Add" and any(simp_deep(a)[0] == "param" and simp_deep(a)[2] == param for a in (t[2], t[3]))
            got.append(sshow(t, 5))
            ok = ok and good
        R.ob(rid, fn, "stores-" + op, ok, "%s stores %s" % (meth, got) if ok else "%s stores %s — expected %s of the stored value and %s" % (meth, got, op, param or "the other vector's clock"))
    R.floor(rid, "state-vector updaters", n, 4)


def range_last_id(R, ctx, rid):
    """BlockRange::last_id is exclusive on this tree (clock + len) while Item::last_id is inclusive: nobody may rely on it."""
    Y = ctx.yrs
    R.rule(rid, "R-TABLE contradiction between sibling accessors: Item::last_id answers the id of the LAST element (clock + len - 1) while "
                "BlockRange::last_id — and through it Block::last_id for GC / Skip blocks — answers clock + len, one past the end. As "
                "long as the two disagree, no code may call Block::last_id / BlockRange::last_id (expected count zero; the callers of "
                "Item::last_id are the positive control that the matcher sees call sites): a comparison written against "
                "`block.last_id()` is right for items and off by one for ranges. Once BlockRange::last_id is made inclusive the "
                "clause holds vacuously")
    br = Y.fn("yrs::block::BlockRange::last_id")
    got = _canon(FnView(br).terms.local(0, 12))
    exclusive = got == "ID::new(self.client, (self.clock + self.len))"
    inclusive = got == "ID::new(self.client, ((self.clock + self.len) - 1))"
    R.ob(rid, br, "value", exclusive or inclusive, "BlockRange::last_id = %s (%s)" % (got, "exclusive" if exclusive else "inclusive" if inclusive else "neither clock + len nor clock + len - 1"))
    ctl = sum(len(v) for v in callers_of(Y, "yrs::block::Item::last_id").values())
    R.floor(rid, "callers of Item::last_id (positive control)", ctl, 5)
    if exclusive:
        users = []
        for root, css in sorted(callers_of(Y, "yrs::block::Block::last_id", "yrs::block::BlockRange::last_id").items()):
            for cs in css:
                if cs.fn.path == "yrs::block::Block::last_id":
                    continue
                users.append(cs)
        for cs, site in ordinal_sites(users):
            R.ob(rid, cs.fn, site, False, "relies on Block::last_id / BlockRange::last_id, which is one past the end for GC and Skip blocks", cs.loc())
        R.ob(rid, br, "no-users", not users, "no code relies on the exclusive last_id of ranges: %d call site(s)" % len(users))


def first_last_table(R, ctx, rid):
    """ItemContent::get_first / get_last per kind."""
    Y = ctx.yrs
    R.rule(rid, "R-TABLE single-value accessors of ItemContent: get_last — what Map::get, Branch::get and links to map entries read — takes "
                "`last()` of the multi-element kinds (Any, JSON) and get_first takes `first()`; both answer None exactly for Deleted "
                "and Format; every other kind answers Some (kinds_reaching per call / per None). A map entry's block can hold "
                "several values after squashing: the entry's value is the last one")
    for name, pick, other in (("get_last", "last", "first"), ("get_first", "first", "last")):
        fn = Y.fn("yrs::block::ItemContent::" + name)
        picks = [c for c in fn.calls() if re.search(r"^<\[T\]>::%s$" % pick, F.strip_generics(c.name))]
        wrong = [c for c in fn.calls() if re.search(r"^<\[T\]>::%s$" % other, F.strip_generics(c.name))]
        kinds = set()
        for c in picks:
            ks, used = kinds_reaching(Y, fn, c.bb, place_hint=None)
            if used:
                kinds |= ks
        R.ob(rid, fn, "multi-element", kinds == {"Any", "JSON"} and not wrong,
             "%s() of Any and JSON" % pick if kinds == {"Any", "JSON"} and not wrong else
             "%s() is taken for %s%s — expected Any and JSON" % (pick, sorted(kinds), "; also calls %s()" % other if wrong else ""))
        nones = set()
        for i, j, st in fn.stmts():
            ag = st["rv"].get("agg") if isinstance(st["rv"], dict) else None
            if ag and ag.get("variant") == "None" and str(ag.get("adt", "")).endswith("option::Option") and st["dst"] == 0:
                ks, used = kinds_reaching(Y, fn, i, place_hint=None)
                if used:
                    nones |= ks
        R.ob(rid, fn, "none-kinds", nones == {"Deleted", "Format"}, "answers None for %s" % sorted(nones))


KIND_PRESERVING = (
    # function, kinds it must construct (None = every kind of the enum), constructions counted on the pinned tree
    ("<yrs::block::ItemContent as std::clone::Clone>::clone", None, 9),
    ("yrs::block::ItemContent::splice", ("Any", "Deleted", "JSON", "String"), 4),  # one per kind: in-place left halves are legitimate
)


def kind_preserving(R, ctx, rid):
    """A copy or a half of an ItemContent has the kind of the original."""
    Y = ctx.yrs
    R.rule(rid, "R-TABLE ItemContent::clone — what ItemPtr::redo re-creates an undone element from — constructs, in the arm of every kind, "
                "a value of that same kind (kinds_reaching per construction), and every kind of the enum is constructed: an Embed copied "
                "as Any keeps its length and index but is no longer rendered by the text readers, so undo restores the wrong content. "
                "Likewise ItemContent::splice: both halves of a split Any / String / JSON and the right half of a Deleted are built "
                "only for an original of the same kind, and exactly these four kinds are split")
    allk = [v["name"] if isinstance(v, dict) else (v[1] if isinstance(v, (list, tuple)) else v) for v in Y.enums.get("yrs::block::ItemContent", [])]
    for path, kinds, floor in KIND_PRESERVING:
        fn = Y.fn(path)
        want = list(kinds) if kinds else allk
        built = set()
        n = 0
        for i, j, st in fn.stmts():
            ag = st["rv"].get("agg") if isinstance(st["rv"], dict) else None
            if not (ag and str(ag.get("adt", "")).endswith("block::ItemContent")):
                continue
            n += 1
            var = ag["variant"]
            ks, used = kinds_reaching(Y, fn, i, place_hint=None)
            ok = bool(used) and ks == {var}
            if ok:
                built.add(var)
            R.ob(rid, fn, "copy:" + var, ok, "built only for a %s original" % var if ok else
                 "a %s is built where the original is %s" % (var, sorted(ks) if used else "of any kind"), "yrs/src/block.rs:%s" % st.get("line"))
        missing = [k for k in want if k not in built]
        extra = [k for k in built if k not in want]
        R.ob(rid, fn, "all-kinds", bool(want) and not missing and not extra,
             "every kind is copied as itself" if want and not missing and not extra else
             "no copy of kind %s%s" % (missing, "; unexpected %s" % extra if extra else ""))
        R.floor(rid, "constructions in %s" % path.rsplit("::", 1)[-1], n, floor)
