"""Fact loading and CFG / provenance analyses over the JSON emitted by ylint.

Everything here is a pure function of the fact files (which are a pure function of /repo's
working tree). No y-crdt code is executed anywhere.
"""
import json
import os
import re
from collections import defaultdict


class AnchorLost(Exception):
    """A function / site the rule tables name no longer resolves (fail closed)."""


_LT = r"'(?:[A-Za-z_][A-Za-z0-9_]*|\{erased\})(?!')"
_LT_RES = [
    (re.compile(r"&" + _LT + r" "), "&"),
    (re.compile(r"(?:::)?<" + _LT + r">"), ""),
    (re.compile(r"\[" + _LT + r"\]"), "[]"),
    (re.compile(_LT + r", "), ""),
    (re.compile(r", " + _LT + r"(?=[>\]])"), ""),
    (re.compile(r"for<> "), ""),
]


def strip_lifetimes(s):
    """remove lifetime parameters/arguments from printed paths and types ('doc, '_, '{erased})."""
    for r, rep in _LT_RES:
        s = r.sub(rep, s)
    return s


class Facts:
    def __init__(self, path, pkg_alias):
        raw = open(path).read()
        raw = raw.replace("crate::", pkg_alias + "::")
        raw = strip_lifetimes(raw)
        d = json.loads(raw)
        self.pkg = d["pkg"]
        self.alias = pkg_alias
        self.features = d.get("features", [])
        self.n_bodies = d["n_bodies"]
        self.consts = {c["path"]: c for c in d["consts"]}
        self.enums = {e["path"]: e["variants"] for e in d["enums"]}
        self.structs = {s["path"]: s for s in d["structs"]}
        self.impls = d["impls"]
        self.mono = d.get("mono")
        self.fns = {}
        self.by_dp = {}
        self.closures = defaultdict(list)
        for f in d["fns"]:
            fn = Fn(f, self)
            self.fns[fn.path] = fn
            if f.get("dp"):
                self.by_dp[f["dp"]] = fn
        for fn in self.fns.values():
            if fn.kind == "closure":
                # direct lexical parent: strip the last ::{closure#n}
                par = re.sub(r"::\{closure#\d+\}$", "", fn.path)
                self.closures[par].append(fn)
        self._callers = None

    def fn(self, path):
        f = self.fns.get(path)
        if f is None:
            raise AnchorLost("function %s not found in %s" % (path, self.pkg))
        return f

    def find(self, regex):
        r = re.compile(regex)
        return [f for p, f in self.fns.items() if r.search(p)]

    def with_closures(self, fn):
        """fn plus (transitively) the closures lexically inside it."""
        out = [fn]
        stack = [fn]
        while stack:
            x = stack.pop()
            for c in self.closures.get(x.path, []):
                out.append(c)
                stack.append(c)
        return out

    def callers(self):
        """callee path -> set of caller fn paths (resolved and declared callee both indexed)."""
        if self._callers is None:
            m = defaultdict(set)
            for fn in self.fns.values():
                for cs in fn.calls():
                    for name in cs.names():
                        m[name].add(fn.path)
            self._callers = m
        return self._callers

    def root_of(self, fn):
        """outermost non-closure function containing fn."""
        if fn.kind == "closure" and fn.parent:
            return self.fns.get(fn.parent, fn)
        return fn


class CallSite:
    __slots__ = ("fn", "bb", "t", "callee", "resolved", "args", "dest", "line", "target", "info")

    def __init__(self, fn, bb, t):
        self.fn = fn
        self.bb = bb
        self.t = t
        c = t["call"]
        self.info = c
        self.callee = c.get("callee")
        self.resolved = c.get("resolved")
        self.args = t.get("args", [])
        self.dest = t.get("dest")
        self.line = t.get("line")
        self.target = t.get("target")

    def names(self):
        out = []
        if self.resolved:
            out.append(self.resolved)
        if self.callee and self.callee != self.resolved:
            out.append(self.callee)
        return out

    @property
    def name(self):
        return self.resolved or self.callee or "<indirect>"

    def is_(self, *pats):
        for n in self.names():
            for p in pats:
                if callee_match(n, p):
                    return True
        return False

    def loc(self):
        return "%s:%s" % (self.fn.file, self.line)

    def __repr__(self):
        return "<call %s @%s bb%d>" % (self.name, self.loc(), self.bb)


def strip_generics(p):
    """remove ::<...> generic argument groups from a def path (keeps <impl ..> / <T as Tr> heads)."""
    out = []
    i = 0
    n = len(p)
    while i < n:
        if p.startswith("::<", i):
            depth = 0
            j = i + 2
            while j < n:
                if p[j] == "<":
                    depth += 1
                elif p[j] == ">":
                    depth -= 1
                    if depth == 0:
                        break
                j += 1
            i = j + 1
            continue
        out.append(p[i])
        i += 1
    return "".join(out)


def callee_match(name, pat):
    """pat is either an exact def path (generics ignored) or 're:<regex>'."""
    if pat.startswith("re:"):
        return re.search(pat[3:], name) is not None
    return strip_generics(name) == strip_generics(pat)


class Fn:
    def __init__(self, f, facts):
        self.raw = f
        self.facts = facts
        self.path = f["path"]
        self.kind = f["kind"]
        self.parent = f.get("parent")
        self.file = f["file"]
        self.line = f["line"]
        self.end_line = f.get("end_line")
        self.sig = f.get("sig")
        self.mir = f.get("mir")
        self.hir = f.get("hir")
        self._cfg = None
        self._calls = None
        self._defs = None

    def __repr__(self):
        return "<fn %s>" % self.path

    # ---------------------------------------------------------------- CFG
    @property
    def blocks(self):
        return self.mir["blocks"] if self.mir else []

    def term(self, bb):
        return self.blocks[bb]["t"]

    def succ(self, bb):
        """normal (non-unwind) successors."""
        t = self.blocks[bb]["t"]
        if "goto" in t:
            return [t["goto"]]
        if "switch" in t:
            s = [x[1] for x in t["targets"]] + [t["otherwise"]]
            out = []
            for x in s:
                if x not in out:
                    out.append(x)
            return out
        if "call" in t:
            return [t["target"]] if t.get("target") is not None else []
        if "assert" in t:
            return [t["target"]]
        if "drop" in t:
            return [t["target"]]
        if "yield" in t:
            return [t["yield"]]
        return []

    def cfg(self):
        if self._cfg is None:
            self._cfg = CFG(self)
        return self._cfg

    def calls(self):
        if self._calls is None:
            out = []
            for i, b in enumerate(self.blocks):
                if b.get("cleanup"):
                    continue
                t = b["t"]
                if "call" in t:
                    out.append(CallSite(self, i, t))
            self._calls = out
        return self._calls

    def calls_to(self, *pats):
        return [c for c in self.calls() if c.is_(*pats)]

    def stmts(self):
        for i, b in enumerate(self.blocks):
            if b.get("cleanup"):
                continue
            for j, s in enumerate(b["s"]):
                if "dst" in s:
                    yield i, j, s

    def defs(self):
        """local -> list of ('stmt', bb, idx, stmt) | ('call', bb, callsite) for whole-local defs,
        plus partial defs under key (local, 'partial')."""
        if self._defs is None:
            d = defaultdict(list)
            for i, j, s in self.stmts():
                dst = s["dst"]
                if isinstance(dst, int):
                    d[dst].append(("stmt", i, j, s))
                else:
                    d[(dst["l"], "partial")].append(("stmt", i, j, s))
            for c in self.calls():
                dst = c.dest
                if isinstance(dst, int):
                    d[dst].append(("call", c.bb, c))
                elif dst is not None:
                    d[(dst["l"], "partial")].append(("call", c.bb, c))
            self._defs = d
        return self._defs

    def local_name(self, l):
        loc = self.mir["locals"][l]
        return loc.get("name")

    def local_ty(self, l):
        return self.mir["locals"][l]["ty"]

    def argc(self):
        return self.mir["argc"]

    def field_writes(self, field_suffix):
        """statements (and call destinations) whose destination place ends in the given field."""
        out = []
        for i, j, s in self.stmts():
            dst = s["dst"]
            if isinstance(dst, dict) and place_has_field(dst, field_suffix, last_only=True):
                out.append((i, j, s))
        for c in self.calls():
            dst = c.dest
            if isinstance(dst, dict) and place_has_field(dst, field_suffix, last_only=True):
                out.append((c.bb, -1, c.t))
        return out

    def field_mut_borrows(self, field_suffix):
        """statements taking `&mut` (or a raw mut pointer) of a place ending in the given field."""
        out = []
        for i, j, s in self.stmts():
            rv = s["rv"]
            pl = rv.get("ref") if rv.get("mut") else None
            if pl is None and rv.get("mut"):
                pl = rv.get("rawptr")
            if isinstance(pl, dict) and place_has_field(pl, field_suffix, last_only=True):
                out.append((i, j, s))
        return out

    def copy_root(self, op, limit=20):
        """follow single-definition copy/move chains of an operand back to its root local."""
        pl = op.get("c", op.get("m")) if isinstance(op, dict) else None
        if not isinstance(pl, int):
            return pl if pl is None else json.dumps(pl, sort_keys=True)
        l = pl
        for _ in range(limit):
            ds = self.defs().get(l, [])
            if len(ds) != 1 or ds[0][0] != "stmt":
                return l
            rv = ds[0][3]["rv"]
            src = rv.get("use")
            if not isinstance(src, dict):
                return l
            sp = src.get("c", src.get("m"))
            if isinstance(sp, int):
                l = sp
            elif sp is not None:
                return json.dumps(sp, sort_keys=True)
            else:
                return l
        return l

    # ------------------------------------------------------------ terms
    def term_of(self, operand, depth=12):
        return Terms(self).operand(operand, depth)


def place_has_field(place, field_suffix, last_only=False):
    if isinstance(place, int):
        return False
    fields = [p for p in place["p"] if isinstance(p, str) and p not in ("*", "[..]", "opaque", "unbind")]
    if not fields:
        return False
    if last_only:
        return fields[-1].endswith(field_suffix)
    return any(f.endswith(field_suffix) for f in fields)


class CFG:
    """Dominators / post-dominators on the normal-edge CFG (cleanup blocks excluded)."""

    def __init__(self, fn):
        self.fn = fn
        n = len(fn.blocks)
        self.n = n
        self.succ = [fn.succ(i) if not fn.blocks[i].get("cleanup") else [] for i in range(n)]
        self.pred = [[] for _ in range(n)]
        for i, ss in enumerate(self.succ):
            for s in ss:
                self.pred[s].append(i)
        self.reach = self._reach(0, self.succ)
        self._dom = None
        self._pdom = None

    def _reach(self, start, succ, removed_edges=frozenset()):
        seen = {start}
        st = [start]
        while st:
            x = st.pop()
            for s in succ[x]:
                if (x, s) in removed_edges:
                    continue
                if s not in seen:
                    seen.add(s)
                    st.append(s)
        return seen

    def reachable_without(self, target, removed_edges, start=0):
        """is `target` reachable from start when the given edges are removed?"""
        return target in self._reach(start, self.succ, frozenset(removed_edges))

    def reachable_from(self, start):
        return self._reach(start, self.succ)

    def dom(self):
        """dom[b] = set of blocks dominating b (incl. b) for reachable blocks."""
        if self._dom is None:
            self._dom = self._dominators(0, self.succ, self.pred, self.reach)
        return self._dom

    def _dominators(self, entry, succ, pred, nodes):
        nodes = sorted(nodes)
        dom = {b: set(nodes) for b in nodes}
        dom[entry] = {entry}
        changed = True
        # reverse post-order for speed
        order = []
        seen = set()

        def dfs(x):
            st = [(x, iter(succ[x]))]
            seen.add(x)
            while st:
                node, it = st[-1]
                adv = False
                for s in it:
                    if s not in seen and s in dom:
                        seen.add(s)
                        st.append((s, iter(succ[s])))
                        adv = True
                        break
                if not adv:
                    order.append(node)
                    st.pop()

        dfs(entry)
        order.reverse()
        while changed:
            changed = False
            for b in order:
                if b == entry:
                    continue
                ps = [p for p in pred[b] if p in dom]
                if not ps:
                    continue
                new = set.intersection(*[dom[p] for p in ps]) | {b}
                if new != dom[b]:
                    dom[b] = new
                    changed = True
        return dom

    def dominates(self, a, b):
        d = self.dom()
        return b in d and a in d[b]

    def pdom(self):
        """post-dominators w.r.t. normal exits (return blocks). Blocks that cannot reach a
        return (diverging) post-dominate nothing but themselves."""
        if self._pdom is None:
            n = self.n
            EXIT = n
            succ_r = [list(p) for p in self.pred] + [[]]
            pred_r = [list(s) for s in self.succ] + [[]]
            for b in self.reach:
                t = self.fn.blocks[b]["t"]
                if "ret" in t:
                    succ_r[EXIT].append(b)
                    pred_r[b].append(EXIT)
            nodes = self._reach(EXIT, succ_r)
            self._pdom = self._dominators(EXIT, succ_r, pred_r, nodes)
        return self._pdom

    def postdominates(self, a, b):
        """a post-dominates b: every path from b to a normal return passes a."""
        p = self.pdom()
        return b in p and a in p[b]

    def in_loop(self, b):
        """is block b on a cycle?"""
        for s in self.succ[b]:
            if b in self._reach(s, self.succ):
                return True
        return False


# ------------------------------------------------------------------ terms
#
# A term is a nested tuple reconstructing the expression a MIR operand holds, flow-insensitively:
#   ('const', value, named|None)         ('param', index, name)
#   ('call', callee, (arg terms...), bb) ('bin', op, a, b)    ('un', op, a)
#   ('field', name, base)                ('deref', base)      ('ref', base)
#   ('discr', base)                      ('agg', what, (ops)) ('cast', ty, a)
#   ('variant', name, base)  (downcast)  ('index', base)      ('phi', (alts...))
#   ('local', n, name) when cut by depth / cycles, ('unknown', text)


class Terms:
    def __init__(self, fn):
        self.fn = fn
        self.defs = fn.defs()
        self.stack = set()

    def operand(self, op, depth=12):
        if op is None:
            return ("unknown", "none")
        if "c" in op:
            return self.place(op["c"], depth)
        if "m" in op:
            return self.place(op["m"], depth)
        if "fn" in op:
            return ("fnref", op["fn"])
        if "k" in op or "text" in op or "named" in op:
            return ("const", op.get("k", op.get("text")), op.get("named"))
        return ("unknown", json.dumps(op)[:80])

    def place(self, pl, depth=12):
        if isinstance(pl, int):
            return self.local(pl, depth)
        base = self.local(pl["l"], depth)
        return self.project(base, pl["p"])

    def project(self, base, proj):
        t = base
        for p in proj:
            if p == "*":
                if t[0] == "ref":
                    t = t[1]
                else:
                    t = ("deref", t)
            elif isinstance(p, str):
                # field of an aggregate we know -> pick the operand
                picked = None
                if t[0] == "agg":
                    what, ops, fields = t[1], t[2], t[3]
                    fname = p.rsplit(".", 1)[-1]
                    if fields and fname in fields and len(ops) == len(fields):
                        picked = ops[fields.index(fname)]
                    elif what == "tuple" and p.startswith("tuple."):
                        i = int(p.split(".")[1])
                        if i < len(ops):
                            picked = ops[i]
                t = picked if picked is not None else ("field", p, t)
            elif "as" in p:
                t = ("variant", p["as"], t)
            elif "idx" in p or "cidx" in p:
                t = ("index", t)
            else:
                t = ("proj", json.dumps(p), t)
        return t

    def local(self, l, depth):
        fn = self.fn
        if l in self.stack or depth <= 0:
            return ("local", l, fn.local_name(l))
        ds = self.defs.get(l, [])
        is_param = 1 <= l <= fn.argc()
        alts = []
        if is_param:
            alts.append(("param", l, fn.local_name(l)))
        self.stack.add(l)
        try:
            for d in ds:
                if d[0] == "stmt":
                    alts.append(self.rvalue(d[3]["rv"], depth - 1))
                else:
                    c = d[2]
                    args = tuple(self.operand(a, depth - 1) for a in c.args)
                    alts.append(("call", c.name, args, c.bb))
        finally:
            self.stack.discard(l)
        if not alts:
            # only partial defs (e.g. struct built field by field) or uninit
            return ("local", l, fn.local_name(l))
        # dedupe
        uniq = []
        for a in alts:
            if a not in uniq:
                uniq.append(a)
        if len(uniq) == 1:
            return uniq[0]
        return ("phi", tuple(uniq))

    def rvalue(self, rv, depth):
        if "use" in rv:
            return self.operand(rv["use"], depth)
        if "ref" in rv:
            return ("ref", self.place(rv["ref"], depth))
        if "rawptr" in rv:
            return ("ref", self.place(rv["rawptr"], depth))
        if "cast" in rv:
            return ("cast", rv.get("ty"), self.operand(rv["cast"], depth))
        if "bin" in rv:
            return ("bin", rv["bin"], self.operand(rv["a"], depth), self.operand(rv["b"], depth))
        if "un" in rv:
            return ("un", rv["un"], self.operand(rv["a"], depth))
        if "discr" in rv:
            return ("discr", self.place(rv["discr"], depth))
        if "agg" in rv:
            a = rv["agg"]
            what = a.get("adt") or a.get("def") or a["kind"]
            if a.get("variant"):
                what = what + "::" + a["variant"]
            ops = tuple(self.operand(o, depth) for o in rv["ops"])
            return ("agg", what, ops, tuple(a.get("fields") or ()))
        if "repeat" in rv:
            return ("agg", "repeat", (self.operand(rv["repeat"], depth),), ())
        if "setdiscr" in rv:
            return ("setdiscr", rv["setdiscr"])
        return ("unknown", json.dumps(rv)[:80])


def walk(term):
    """pre-order iteration over a term and its sub-terms."""
    st = [term]
    while st:
        t = st.pop()
        yield t
        if not isinstance(t, tuple):
            continue
        k = t[0]
        if k == "call":
            st.extend(t[2])
        elif k == "bin":
            st.extend([t[2], t[3]])
        elif k in ("un", "cast"):
            st.append(t[2])
        elif k in ("field", "variant", "proj"):
            st.append(t[2])
        elif k in ("deref", "ref", "discr", "index"):
            st.append(t[1])
        elif k == "agg":
            st.extend(t[2])
        elif k == "phi":
            st.extend(t[1])


def term_calls(term):
    return [t for t in walk(term) if t[0] == "call"]


def term_has_call(term, *pats):
    for t in walk(term):
        if t[0] == "call":
            for p in pats:
                if callee_match(t[1], p):
                    return True
    return False


def term_fields(term):
    return [t[1] for t in walk(term) if t[0] == "field"]


def term_has_field(term, suffix):
    return any(f.endswith(suffix) for f in term_fields(term))


def term_params(term):
    return [t for t in walk(term) if t[0] == "param"]


def term_consts(term):
    return [t for t in walk(term) if t[0] == "const"]


def show(term, depth=6):
    """compact human-readable rendering."""
    if not isinstance(term, tuple):
        return str(term)
    if depth <= 0:
        return "…"
    k = term[0]
    d = depth - 1
    if k == "const":
        return str(term[2] or term[1])
    if k == "param":
        return "%s" % (term[2] or ("arg%d" % term[1]))
    if k == "local":
        return "%s" % (term[2] or ("_%d" % term[1]))
    if k == "call":
        short = strip_generics(term[1]).split("::")
        nm = "::".join(short[-2:])
        return "%s(%s)" % (nm, ", ".join(show(a, d) for a in term[2]))
    if k == "bin":
        return "(%s %s %s)" % (show(term[2], d), term[1], show(term[3], d))
    if k == "un":
        return "%s(%s)" % (term[1], show(term[2], d))
    if k == "cast":
        return "(%s as %s)" % (show(term[2], d), term[1])
    if k == "field":
        return "%s.%s" % (show(term[2], d), term[1].rsplit(".", 1)[-1])
    if k == "variant":
        return "%s as %s" % (show(term[2], d), term[1])
    if k == "deref":
        return "*%s" % show(term[1], d)
    if k == "ref":
        return "&%s" % show(term[1], d)
    if k == "discr":
        return "discr(%s)" % show(term[1], d)
    if k == "index":
        return "%s[_]" % show(term[1], d)
    if k == "agg":
        return "%s{%s}" % (term[1].split("::")[-1], ", ".join(show(a, d) for a in term[2]))
    if k == "phi":
        return "φ(%s)" % " | ".join(show(a, d) for a in term[1])
    if k == "fnref":
        return "fn:" + term[1]
    return str(term)[:60]


# ------------------------------------------------------------- guards


class Literal:
    """A branch edge: in block `bb` the switch takes the edge to `to`; `desc` explains it."""

    __slots__ = ("bb", "to", "term", "polarity", "desc")

    def __init__(self, bb, to, term, polarity, desc):
        self.bb = bb
        self.to = to
        self.term = term
        self.polarity = polarity
        self.desc = desc

    def __repr__(self):
        return "<lit bb%d->bb%d %s>" % (self.bb, self.to, self.desc)


def switch_literals(fn):
    """All branch literals of a function: for each SwitchInt, one literal per outgoing edge.
    Boolean switches yield polarity True/False on the (Not-stripped) condition term; enum
    discriminant switches yield polarity = variant name (or ('not', [names]) for otherwise)."""
    out = []
    terms = Terms(fn)
    for bb, b in enumerate(fn.blocks):
        if b.get("cleanup"):
            continue
        t = b["t"]
        if "switch" not in t:
            continue
        cond = terms.operand(t["switch"])
        ty = t.get("ty")
        flip = False
        while cond[0] == "un" and cond[1] == "Not":
            cond = cond[2]
            flip = not flip
        targets = t["targets"]
        otherwise = t["otherwise"]
        if ty == "bool":
            for v, to in targets:
                pol = (v != 0) != flip
                out.append(Literal(bb, to, cond, pol, "%s is %s" % (show(cond), pol)))
            # otherwise edge = "not any listed value"; with a single listed value 0 it's True
            vals = [v for v, _ in targets]
            if vals == [0]:
                pol = True != flip
                out.append(Literal(bb, otherwise, cond, pol, "%s is %s" % (show(cond), pol)))
            elif vals == [1]:
                pol = False != flip
                out.append(Literal(bb, otherwise, cond, pol, "%s is %s" % (show(cond), pol)))
        elif cond[0] == "discr":
            # enum variant switch
            base = cond[1]
            ety = None
            # find enum type from the defining statement
            ety = _discr_type(fn, t["switch"])
            variants = None
            if ety:
                variants = enum_variants(fn.facts, ety)
            names = {}
            if variants:
                for dv, name, _ in variants:
                    names[dv] = name
            listed = []
            for v, to in targets:
                nm = names.get(v, str(v))
                listed.append(nm)
                out.append(Literal(bb, to, base, nm, "%s is %s" % (show(base), nm)))
            rest = [n for n in names.values() if n not in listed]
            if len(rest) == 1:
                out.append(Literal(bb, otherwise, base, rest[0], "%s is %s" % (show(base), rest[0])))
            else:
                out.append(Literal(bb, otherwise, base, ("not", tuple(listed)), "%s not in %s" % (show(base), listed)))
        else:
            for v, to in targets:
                out.append(Literal(bb, to, cond, ("eq", v), "%s == %s" % (show(cond), v)))
            out.append(Literal(bb, otherwise, cond, ("ne", tuple(v for v, _ in targets)), "%s not in %s" % (show(cond), [v for v, _ in targets])))
    return out


def _discr_type(fn, op):
    l = op.get("m", op.get("c"))
    if not isinstance(l, int):
        return None
    for d in fn.defs().get(l, []):
        if d[0] == "stmt" and "discr" in d[3]["rv"]:
            return d[3]["rv"].get("ty")
    return None


def enum_variants(facts, ty):
    """variants of an enum type given its printed type (generic args / refs stripped)."""
    t = ty
    while t.startswith("&"):
        t = t[1:].lstrip()
        if t.startswith("mut "):
            t = t[4:]
        if t.startswith("'"):
            t = t.split(" ", 1)[1] if " " in t else t
    base = t.split("<", 1)[0]
    v = facts.enums.get(base)
    if v is None and base.startswith("std::option::Option"):
        v = facts.enums.get("std::option::Option")
    if v is None and base.startswith("std::result::Result"):
        v = facts.enums.get("std::result::Result")
    return v


def necessary(fn, target_bb, literals):
    """True iff every entry->target path takes at least one of the given literal edges,
    i.e. the disjunction of the literals is a necessary condition for reaching target_bb."""
    cfg = fn.cfg()
    if target_bb not in cfg.reach:
        return True
    removed = {(l.bb, l.to) for l in literals}
    # an edge can only be removed when no other literal shares it with opposite meaning:
    return not cfg.reachable_without(target_bb, removed)


def guards_of(fn, target_bb, lits=None):
    """All single literals that are individually necessary for target_bb."""
    lits = lits if lits is not None else switch_literals(fn)
    cfg = fn.cfg()
    out = []
    # a literal whose edge shares (bb,to) with another literal of the same switch (e.g. two
    # values jumping to the same block) is not individually necessary in a meaningful sense
    edge_count = defaultdict(int)
    for l in lits:
        edge_count[(l.bb, l.to)] += 1
    for l in lits:
        if edge_count[(l.bb, l.to)] != 1:
            continue
        if l.bb not in cfg.reach:
            continue
        if not cfg.reachable_without(target_bb, {(l.bb, l.to)}):
            out.append(l)
    return out


# ---------------------------------------------------------------- HIR



# ---------------------------------------------------------------- forward taint (flow-sensitive, intraprocedural)
def _pl_local(pl):
    if isinstance(pl, int):
        return pl
    if isinstance(pl, dict) and "l" in pl:
        return pl["l"]
    return None


def _op_local(op):
    if not isinstance(op, dict):
        return None
    return _pl_local(op.get("c", op.get("m")))


def rv_locals(rv):
    """locals read by an rvalue."""
    out = []
    for k in ("use", "cast", "a", "b", "repeat"):
        if k in rv and isinstance(rv[k], dict):
            l = _op_local(rv[k])
            if l is not None:
                out.append(l)
    for k in ("ref", "rawptr", "discr"):
        if k in rv:
            l = _pl_local(rv[k])
            if l is not None:
                out.append(l)
    for o in rv.get("ops", []):
        l = _op_local(o)
        if l is not None:
            out.append(l)
    return out


def loop_carried(fn, cs, arg_index):
    """is argument `arg_index` of call site `cs` data-dependent on the result of an earlier execution of the same call?
    Flow-sensitive forward taint from cs.dest along CFG edges (strong updates on whole-local assignments, weak updates
    through projections, call results depend on all arguments, union at joins) until cs.bb is reached again."""
    dest = _pl_local(cs.dest)
    if dest is None or cs.target is None:
        return False
    blocks = fn.blocks
    state = {}  # bb -> frozenset of tainted locals at block entry
    work = [(cs.target, frozenset([dest]))]
    arg_l = _op_local(cs.args[arg_index]) if arg_index < len(cs.args) else None
    hit = False
    while work:
        bb, tin = work.pop()
        old = state.get(bb)
        if old is not None and tin <= old:
            continue
        tin = tin | (old or frozenset())
        state[bb] = tin
        t = set(tin)
        for st in blocks[bb].get("s", []):
            if "rv" not in st:
                continue
            src = any(l in t for l in rv_locals(st["rv"]))
            d = st.get("dst")
            dl = _pl_local(d)
            if dl is None:
                continue
            if isinstance(d, int):
                if src:
                    t.add(dl)
                else:
                    t.discard(dl)
            elif src:
                t.add(dl)
        term = blocks[bb]["t"]
        if "call" in term:
            args_t = any(_op_local(a) in t for a in term.get("args", []))
            if bb == cs.bb:
                if arg_l is not None and arg_l in t:
                    hit = True
                # a fresh execution: do not propagate further (we only ask about one round trip)
                continue
            dl = _pl_local(term.get("dest"))
            if dl is not None:
                if args_t:
                    t.add(dl)
                elif isinstance(term.get("dest"), int):
                    t.discard(dl)
        ft = frozenset(t)
        for nx in fn.succ(bb):
            if blocks[nx].get("cleanup"):
                continue
            work.append((nx, ft))
    return hit


def hir_walk(node, fn=None):
    """pre-order walk over a HIR JSON tree yielding every dict node."""
    st = [node]
    while st:
        n = st.pop()
        if isinstance(n, dict):
            yield n
            for v in n.values():
                if isinstance(v, (dict, list)):
                    st.append(v)
        elif isinstance(n, list):
            st.extend(reversed(n))


def hir_calls(node):
    for n in hir_walk(node):
        if n.get("k") in ("call", "mcall") and (n.get("fn") or n.get("resolved")):
            yield n


def hir_callee(n):
    return n.get("resolved") or n.get("fn")


def load(facts_dir, tag="default"):
    yrs = Facts(os.path.join(facts_dir, "yrs.%s.json" % tag), "yrs")
    yffi_p = os.path.join(facts_dir, "yffi.%s.json" % tag)
    yffi = Facts(yffi_p, "yffi") if os.path.exists(yffi_p) else None
    return yrs, yffi
