"""R-WIRE: wire grammars of codec functions extracted from resolved HIR.

A codec function is turned into a small regular grammar over wire symbols:
  ('p', kind, cls, consts, bind)   primitive write/read (kind: var, len, string, buf, u8, info, left_id, ...;
                                   cls: 'u'/'i'/None for var ints; consts: tuple of constant values or None;
                                   bind: local the read result is bound to, used to fold `match tag {CONST => ..}`)
  ('ref', codec)                   nested codec (X::encode / X::decode of the same codec id)
  ('tag', local, consts)           pseudo symbol at the head of a match arm on a previously read tag
structure nodes: ('seq', [..]) ('alt', [(label, node)..]) ('star', node, trip) ('nil',)
The language of a grammar is its finite set of words (stars are symbols over the language of their body).
"""
import re

from .facts import strip_generics

PRIM_RES = [
    (re.compile(r"^yrs::encoding::write::Write::write_(\w+)$"), "w"),
    (re.compile(r"^yrs::updates::encoder::Encoder::write_(\w+)$"), "w"),
    (re.compile(r"^yrs::updates::encoder::Encoder::(reset_ds_cur_val)$"), "w"),
    (re.compile(r"^yrs::encoding::read::Read::read_(\w+)$"), "r"),
    (re.compile(r"^yrs::updates::decoder::Decoder::read_(\w+)$"), "r"),
    (re.compile(r"^yrs::updates::decoder::Decoder::(reset_ds_cur_val)$"), "r"),
    (re.compile(r"^<.* as yrs::encoding::write::Write>::write_(\w+)$"), "w"),
    (re.compile(r"^<.* as yrs::updates::encoder::Encoder>::write_(\w+)$"), "w"),
    (re.compile(r"^<.* as yrs::updates::encoder::Encoder>::(reset_ds_cur_val)$"), "w"),
    (re.compile(r"^<.* as yrs::encoding::read::Read>::read_(\w+)$"), "r"),
    (re.compile(r"^<.* as yrs::updates::decoder::Decoder>::read_(\w+)$"), "r"),
    (re.compile(r"^<.* as yrs::updates::decoder::Decoder>::(reset_ds_cur_val)$"), "r"),
]
NON_WIRE = {"to_vec", "to_end", "all", "exact"}  # write_all/read_exact are the raw layer, handled by the primitive-layer rule

DIVERGE = re.compile(r"(panicking::|rt::panic|rt::begin_panic|panic_fmt|panic_display|panic_explicit|unreachable_display|process::abort|process::exit)")

UNSIGNED = {"u8", "u16", "u32", "u64", "u128", "usize"}
SIGNED = {"i8", "i16", "i32", "i64", "i128", "isize"}


def prim_of(path):
    if not path:
        return None
    p = strip_generics(path)
    for r, d in PRIM_RES:
        m = r.match(p)
        if m:
            return m.group(1), d
    return None


def var_class(gargs):
    if not gargs:
        return "?"
    inner = gargs.strip("[]")
    last = inner.split(",")[-1].strip()
    if last in UNSIGNED:
        return "u"
    if last in SIGNED:
        return "i"
    if last.startswith("yrs::encoding::varint::Signed"):
        return "i"
    return "?"


class Codecs:
    """maps function paths to codec ids."""

    def __init__(self, facts, extra):
        self.facts = facts
        self.by_fn = dict(extra)
        for i in facts.impls:
            t = i.get("trait_def")
            if t in ("yrs::updates::encoder::Encode", "yrs::updates::decoder::Decode"):
                cid = short_type(i["self_ty"])
                for name, path in i["fns"]:
                    if name in ("encode", "decode"):
                        self.by_fn.setdefault(path, cid)

    def id_of_call(self, n):
        for key in ("resolved", "fn"):
            p = n.get(key)
            if p and p in self.by_fn:
                return self.by_fn[p]
            if p:
                sp = strip_generics(p)
                for k, v in self.by_fn.items():
                    if strip_generics(k) == sp:
                        return v
        # unresolved trait call with a concrete self type
        f = n.get("fn") or ""
        if strip_generics(f) in ("yrs::updates::encoder::Encode::encode", "yrs::updates::decoder::Decode::decode") and n.get("self_ty"):
            st = n["self_ty"]
            if st not in ("Self",) and "/#" not in st:
                return short_type(st)
        return None


def short_type(t):
    t = t.replace("&", "").strip()
    t = re.sub(r"^mut ", "", t)
    base = t.split("<", 1)[0]
    name = base.rsplit("::", 1)[-1]
    if name == "Range":
        return "Range"
    if name == "IdRanges":
        return "IdRanges"
    return name


def strip_expr(n):
    """strip wrappers that do not change the value class: try, cast, deref/addr, method clones, parens."""
    while isinstance(n, dict):
        k = n.get("k")
        if k == "match" and n.get("src") == "try":
            n = n["scrut"]
            # `?` desugars to match Try::branch(x)
            if n.get("k") == "call" and (n.get("fn") or "").endswith("Try::branch"):
                n = n["args"][0]
        elif k == "cast":
            n = n["x"]
        elif k == "addr":
            n = n["x"]
        elif k == "un" and n.get("op") == "*":
            n = n["x"]
        elif k == "block" and not n.get("stmts") and n.get("expr"):
            n = n["expr"]
        elif k == "mcall" and n.get("name") in ("clone", "into", "to_owned", "as_ref", "borrow", "deref", "get", "as_str"):
            n = n["recv"]
        else:
            break
    return n


def const_values(n):
    """constant values an expression may take (literal, named const, if-of-consts), else None."""
    n = strip_expr(n)
    if not isinstance(n, dict):
        return None
    k = n.get("k")
    if k == "lit" and isinstance(n.get("v"), (int, bool)):
        return (int(n["v"]),)
    if k == "path" and n.get("val") is not None:
        return (n["val"],)
    if k == "if" and n.get("else") is not None:
        a = const_values(block_value(n["then"]))
        b = const_values(block_value(n["else"]))
        if a is not None and b is not None:
            return tuple(sorted(set(a + b)))
    if k == "bin" and n.get("op") in ("|", "&", "+"):
        a, b = const_values(n["l"]), const_values(n["r"])
        if a and b and len(a) == 1 and len(b) == 1:
            return ((a[0] | b[0]) if n["op"] == "|" else (a[0] & b[0]) if n["op"] == "&" else a[0] + b[0],)
    return None


def block_value(n):
    n = strip_expr(n)
    if isinstance(n, dict) and n.get("k") == "block":
        if n.get("expr") is not None and not n.get("stmts"):
            return n["expr"]
    return n


def pat_consts(p):
    """constants matched by a pattern; '_' for wildcard/binding; None if not a tag pattern."""
    k = p.get("k")
    if k == "plit" and isinstance(p.get("v"), (int, bool)):
        return (int(p["v"]),)
    if k == "ppath" and p.get("val") is not None:
        return (p["val"],)
    if k == "or":
        out = ()
        for a in p["alts"]:
            c = pat_consts(a)
            if c is None:
                return None
            out += c
        return out
    if k in ("wild",) or (k == "bind" and not p.get("sub")):
        return ("_",)
    if k == "prange":
        lo, hi = p.get("lo"), p.get("hi")
        lc = pat_consts(lo) if lo else None
        hc = pat_consts(hi) if hi else None
        if lc and hc and lc != ("_",) and hc != ("_",):
            end = hc[0] + (1 if p.get("inclusive") else 0)
            if end - lc[0] <= 64:
                return tuple(range(lc[0], end))
        return None
    return None


def pat_label(p):
    k = p.get("k")
    if k in ("pstruct", "ptuple_struct", "ppath"):
        name = p.get("def") or p.get("ctor_of") or "?"
        return name.rsplit("::", 1)[-1]
    if k == "or":
        return "|".join(pat_label(a) for a in p["alts"])
    if k == "plit":
        return str(p.get("v"))
    if k == "ptuple":
        return "(" + ",".join(pat_label(s) for s in p["subs"]) + ")"
    if k == "bind":
        return "_" if not p.get("sub") else pat_label(p["sub"])
    return "_"


# ------------------------------------------------------------ linear expressions (trip counts)

def lin(n, env=None, depth=0):
    """linear form {atom: coeff, 1: const} of a HIR integer expression, atoms are canonical strings."""
    n = strip_expr(n)
    env = env or {}
    if not isinstance(n, dict) or depth > 12:
        return {"?": 1}
    k = n.get("k")
    if k == "lit" and isinstance(n.get("v"), int):
        return {1: n["v"]}
    if k == "path":
        if "local" in n:
            name = n["local"]
            if name in env and env[name] is not None:
                return dict(env[name])
            return {"local:" + name: 1}
        if n.get("val") is not None:
            return {1: n["val"]}
        return {"path:" + (n.get("def") or "?"): 1}
    if k == "bin" and n.get("op") in ("+", "-"):
        a, b = lin(n["l"], env, depth + 1), lin(n["r"], env, depth + 1)
        out = dict(a)
        sgn = 1 if n["op"] == "+" else -1
        for key, c in b.items():
            out[key] = out.get(key, 0) + sgn * c
        return {key: c for key, c in out.items() if c != 0 or key == 1}
    if k == "mcall":
        recv = canon(n["recv"], env)
        nm = n.get("name")
        if nm in ("len",):
            return {"len(%s)" % recv: 1}
        if nm in ("min", "max", "saturating_sub", "unwrap_or", "unwrap_or_default"):
            return {"%s(%s,%s)" % (nm, recv, ",".join(canon(a, env) for a in n.get("args", []))): 1}
        return {"%s.%s()" % (recv, nm): 1}
    if k == "field":
        return {canon(n, env): 1}
    if k == "call":
        return {canon(n, env): 1}
    return {"?" + str(k): 1}


def canon(n, env=None):
    n = strip_expr(n)
    if not isinstance(n, dict):
        return "?"
    k = n.get("k")
    if k == "path":
        if "local" in n:
            return n["local"]
        return (n.get("def") or "?").rsplit("::", 1)[-1]
    if k == "field":
        return canon(n["base"], env) + "." + n["name"]
    if k == "mcall":
        return "%s.%s(%s)" % (canon(n["recv"], env), n.get("name"), ",".join(canon(a, env) for a in n.get("args", [])))
    if k == "call":
        f = (n.get("resolved") or n.get("fn") or n.get("ctor") or "?").rsplit("::", 1)[-1]
        return "%s(%s)" % (f, ",".join(canon(a, env) for a in n.get("args", [])))
    if k == "lit":
        return str(n.get("v"))
    if k == "index":
        return "%s[%s]" % (canon(n["base"], env), canon(n["idx"], env))
    if k == "bin":
        return "(%s%s%s)" % (canon(n["l"], env), n.get("op"), canon(n["r"], env))
    return "?" + str(k)


def lin_norm(d):
    d = {k: v for k, v in d.items() if v != 0}
    return tuple(sorted(((str(k), v) for k, v in d.items())))


def lin_add(a, b, sgn=1):
    out = dict(a)
    for k, c in b.items():
        out[k] = out.get(k, 0) + sgn * c
    return out


def lin_show(d):
    parts = []
    for k, v in sorted(d.items(), key=lambda kv: str(kv[0])):
        if v == 0:
            continue
        if k == 1:
            parts.append("%+d" % v)
        else:
            parts.append(("%+d*" % v if v not in (1, -1) else ("+" if v == 1 else "-")) + str(k))
    return " ".join(parts) or "0"


# ------------------------------------------------------------ extractor

class Extractor:
    def __init__(self, codecs, fn, own_id=None):
        self.codecs = codecs
        self.fn = fn
        self.own_id = own_id
        self.bound = {}   # local -> description of the prim it is bound to
        self.env = {}     # local -> linear form of its initialiser (for counts)
        self.mut_locals = {}  # local -> {'init': lin, 'steps': [(op, lin)]}
        self.problems = []
        self.counts = []  # (kind, detail) obligations discovered (count vs trip)
        self.nprims = 0
        self.prim_exprs = []  # argument expression of each write primitive (index stored in the symbol)

    # -- node constructors
    @staticmethod
    def seq(items):
        flat = []
        for x in items:
            if x is None or x == ("nil",):
                continue
            if x == ("fail",):
                return ("fail",)
            if x[0] == "seq":
                flat.extend(x[1])
            else:
                flat.append(x)
        if not flat:
            return ("nil",)
        if len(flat) == 1:
            return flat[0]
        return ("seq", flat)

    def run(self):
        body = self.fn.hir["body"]
        return self.expr(body)

    def call_symbol(self, n, bind=None):
        f = n.get("fn")
        pr = prim_of(f) or prim_of(n.get("resolved"))
        if pr:
            kind, d = pr
            if kind in NON_WIRE:
                return None
            self.nprims += 1
            cls = None
            consts = None
            cexpr = None
            if kind in ("var", "var_signed"):
                cls = var_class(n.get("gargs"))
                if kind == "var_signed":
                    cls = "i"
            args = n.get("args", [])
            if d == "w" and args:
                consts = const_values(args[-1])
                cexpr = args[-1]
            self.prim_exprs.append(cexpr)
            return ("p", kind, cls, consts, bind, len(self.prim_exprs) - 1)
        cid = self.codecs.id_of_call(n)
        if cid is not None:
            return ("ref", cid, strip_generics(n.get("resolved") or n.get("fn") or ""))
        return None

    def expr(self, n, bind=None):
        if n is None:
            return ("nil",)
        if isinstance(n, list):
            return self.seq([self.expr(x) for x in n])
        k = n.get("k")
        if k == "block":
            items = []
            for s in n.get("stmts", []):
                items.append(self.stmt(s))
            if n.get("expr") is not None:
                items.append(self.expr(n["expr"], bind))
            return self.seq(items)
        if k in ("call", "mcall"):
            if k == "call" and (n.get("fn") or "").endswith("Try::branch") and n.get("args"):
                return self.expr(n["args"][0], bind)
            if k == "call" and (n.get("ctor") or "").endswith("Err"):
                return ("fail",)
            if DIVERGE.search(n.get("fn") or ""):
                return ("fail",)
            items = []
            if k == "mcall":
                items.append(self.expr(n.get("recv")))
            elif n.get("f") is not None:
                items.append(self.expr(n["f"]))
            for a in n.get("args", []):
                items.append(self.expr(a))
            sym = self.call_symbol(n, bind)
            if sym is not None:
                items.append(sym)
            return self.seq(items)
        if k == "if":
            cond = n["cond"]
            ccore = strip_expr(cond)
            neg = False
            if isinstance(ccore, dict) and ccore.get("k") == "un" and ccore.get("op") == "!":
                neg = True
                ccore = strip_expr(ccore["x"])
            if isinstance(ccore, dict) and ccore.get("k") == "bin" and ccore.get("op") in ("==", "!="):
                lcore, rc = strip_expr(ccore["l"]), const_values(ccore["r"])
                if isinstance(lcore, dict) and lcore.get("k") in ("call", "mcall") and prim_of(lcore.get("fn") or "") and rc and len(rc) == 1:
                    tmp = "$if%d" % id(n)
                    pre = self.expr(ccore["l"], bind=tmp)
                    eq = (ccore["op"] == "==") != neg
                    t = self.seq([("tag", tmp, rc if eq else ("_",)), self.expr(n["then"])])
                    e = self.seq([("tag", tmp, ("_",) if eq else rc), self.expr(n.get("else")) if n.get("else") is not None else ("nil",)])
                    return self.seq([pre, ("alt", [("eq", t), ("ne", e)])])
            if isinstance(ccore, dict) and ccore.get("k") in ("call", "mcall") and prim_of(ccore.get("fn") or ""):
                # `if decoder.read_parent_info()? { A } else { B }`: a boolean tag
                tmp = "$if%d" % id(n)
                pre = self.expr(cond, bind=tmp)
                t = self.seq([("tag", tmp, (0,) if neg else (1,)), self.expr(n["then"])])
                e = self.seq([("tag", tmp, (1,) if neg else (0,)), self.expr(n.get("else")) if n.get("else") is not None else ("nil",)])
                return self.seq([pre, ("alt", [("true", t), ("false", e)])])
            pre = self.expr(cond)
            t = self.expr(n["then"])
            e = self.expr(n.get("else")) if n.get("else") is not None else ("nil",)
            if t == ("nil",) and e == ("nil",):
                return pre
            return self.seq([pre, ("alt", [(canon(cond)[:60], t), ("else", e)])])
        if k == "letx":
            return self.expr(n["init"])
        if k == "match":
            return self.match(n, bind)
        if k == "loop":
            return self.loop(n, None)
        if k == "closure":
            # closures are executed where they are passed (map/for_each/or_insert_with ...): treat inline
            return self.expr(n.get("body"))
        if k == "let":
            return self.stmt(n)
        if k == "ret":
            return ("retn", self.expr(n.get("x")))
        if k == "break":
            return ("brk", self.expr(n.get("x")))
        if k in ("continue", "cont"):
            return ("cont", ("nil",))
        if k == "path" and (n.get("def") or "").endswith("::None") and False:
            return ("nil",)
        if k == "assign":
            r = self.expr(n["r"])
            self.note_assign(n)
            return r
        if k == "assign_op":
            r = self.expr(n["r"])
            self.note_assign_op(n)
            return r
        if k in ("bin",):
            return self.seq([self.expr(n["l"]), self.expr(n["r"])])
        if k in ("un", "cast", "addr", "yield", "become", "repeat"):
            return self.expr(n.get("x"))
        if k == "field":
            return self.expr(n.get("base"))
        if k == "index":
            return self.seq([self.expr(n["base"]), self.expr(n["idx"])])
        if k == "struct":
            return self.seq([self.expr(f[1]) for f in n.get("fields", [])] + [self.expr(n.get("base"))])
        if k in ("tuple", "array"):
            return self.seq([self.expr(e) for e in n.get("elems", [])])
        return ("nil",)

    def stmt(self, s):
        if s.get("k") == "let":
            pat = s["pat"]
            init = s.get("init")
            name = pat.get("name") if pat.get("k") == "bind" else None
            node = self.expr(init, bind=name) if init is not None else ("nil",)
            if name and init is not None:
                core = strip_expr(init)
                if isinstance(core, dict) and core.get("k") in ("call", "mcall") and prim_of(core.get("fn") or ""):
                    self.bound[name] = core
                    self.env[name] = {"read:" + name: 1}
                else:
                    self.env[name] = lin(init, self.env)
                self.mut_locals[name] = {"init": self.env[name], "steps": []}
            els = self.expr(s.get("els")) if s.get("els") is not None else ("nil",)
            return self.seq([node, els]) if els != ("nil",) else node
        return self.expr(s)

    def note_assign(self, n):
        l = n["l"]
        if l.get("k") == "path" and "local" in l:
            name = l["local"]
            self.env[name] = None  # reassigned: no longer a pure function of its initialiser

    def note_assign_op(self, n):
        l = strip_expr(n["l"])
        if isinstance(l, dict) and l.get("k") == "path" and "local" in l:
            name = l["local"]
            ml = self.mut_locals.setdefault(name, {"init": None, "steps": []})
            ml["steps"].append(((n.get("op") or "").rstrip("="), lin(n["r"], self.env)))

    def match(self, n, bind):
        src = n.get("src")
        if src == "try":
            return self.expr(n["scrut"], bind)
        if src == "await":
            return self.expr(n["scrut"], bind)
        if src == "for":
            return self.for_loop(n)
        scrut = n["scrut"]
        core = strip_expr(scrut)
        # strip masks: `x & 0b1111`
        mask = None
        if isinstance(core, dict) and core.get("k") == "bin" and core.get("op") == "&" and const_values(core["r"]):
            mask = const_values(core["r"])[0]
            core = strip_expr(core["l"])
        tagsrc = None
        pre = ("nil",)
        if isinstance(core, dict) and core.get("k") in ("call", "mcall") and prim_of(core.get("fn") or ""):
            tmp = "$scrut%d" % id(n)
            pre = self.expr(scrut, bind=tmp)
            tagsrc = tmp
        elif isinstance(core, dict) and core.get("k") == "path" and "local" in core:
            name = core["local"]
            if name in self.bound:
                tagsrc = name
            elif any(name == p for p in self.param_names()):
                tagsrc = "param:" + name
            pre = ("nil",)
        else:
            pre = self.expr(scrut)
        arms = []
        all_tag = tagsrc is not None
        for a in n["arms"]:
            pc = pat_consts(a["pat"])
            if pc is None:
                all_tag = False
        for a in n["arms"]:
            body = self.seq([self.expr(a.get("guard")), self.expr(a["body"])])
            if all_tag:
                pc = pat_consts(a["pat"])
                arms.append((pc, self.seq([("tag", tagsrc, pc), body])))
            else:
                arms.append((pat_label(a["pat"]), body))
        if all(b == ("nil",) for _, b in arms):
            return pre
        return self.seq([pre, ("alt", arms)])

    def param_names(self):
        out = []
        for p in self.fn.hir.get("params", []):
            if p.get("k") == "bind":
                out.append(p["name"])
        return out

    # ---- loops
    def for_loop(self, n):
        """`for pat in iter {body}` desugared: match into_iter(iter) { mut it => loop { match next(&mut it) { None => break, Some(pat) => body } } }"""
        scrut = n["scrut"]
        it = scrut["args"][0] if scrut.get("k") == "call" and scrut.get("args") else scrut
        pre = self.expr(it)
        body = None
        for a in n["arms"]:
            for x in _walk(a["body"]):
                if x.get("k") == "match" and x.get("src") == "for" or (x.get("k") == "match" and any(pat_label(arm["pat"]).startswith("Some") for arm in x.get("arms", []))):
                    for arm in x["arms"]:
                        if pat_label(arm["pat"]).startswith("Some"):
                            body = arm["body"]
                    break
            if body is not None:
                break
        if body is None:
            self.problems.append("unrecognised for-loop shape at line %s" % n.get("line"))
            return pre
        inner = self.expr(body)
        trip = self.trip_of_iter(it)
        if inner == ("nil",):
            return pre
        return self.seq([pre, ("star", inner, trip, n.get("line"))])

    def trip_of_iter(self, it):
        it0 = it
        it = strip_expr(it)
        # peel adaptors that keep the length
        while isinstance(it, dict) and it.get("k") == "mcall" and it.get("name") in ("iter", "iter_mut", "into_iter", "rev", "enumerate", "by_ref", "copied", "cloned", "drain", "as_ref"):
            it = strip_expr(it["recv"])
        if isinstance(it, dict) and it.get("k") == "struct" and (it.get("def") or "").endswith("ops::Range"):
            f = dict((x[0], x[1]) for x in it["fields"])
            return ("lin", lin_add(lin(f["end"], self.env), lin(f["start"], self.env), -1))
        if isinstance(it, dict) and it.get("k") == "call" and (it.get("fn") or "").endswith("RangeInclusive::new"):
            a, b = it["args"]
            return ("lin", lin_add(lin_add(lin(b, self.env), lin(a, self.env), -1), {1: 1}))
        if isinstance(it, dict) and it.get("k") in ("path", "field", "mcall", "call"):
            return ("lin", {"len(%s)" % canon(it, self.env): 1})
        return ("unknown", canon(it0, self.env))

    def loop(self, n, _):
        src = n.get("src")
        body = n["body"]
        if src == "while":
            # body = block { expr: if cond { then } else { break } }
            cond = None
            then = None
            b = body
            e = b.get("expr") if b.get("k") == "block" else None
            if e and e.get("k") == "if":
                cond = e["cond"]
                then = e["then"]
            if cond is None:
                self.problems.append("unrecognised while-loop shape at line %s" % n.get("line"))
                return self.expr(body)
            pre = self.expr(cond)
            before = {k: list(v["steps"]) for k, v in self.mut_locals.items()}
            inner = self.expr(then)
            trip = self.trip_of_while(cond, before)
            if inner == ("nil",) and pre == ("nil",):
                return ("nil",)
            return ("star", self.seq([pre, inner]), trip, n.get("line"))
        inner = self.expr(body)
        if inner == ("nil",):
            return ("nil",)
        return ("star", inner, ("unknown", "loop"), n.get("line"))

    def trip_of_while(self, cond, before):
        c = strip_expr(cond)
        if isinstance(c, dict) and c.get("k") == "letx":
            # while let Some(x) = it.next(): trip = len of the iterator source
            init = strip_expr(c["init"])
            if isinstance(init, dict) and init.get("k") == "mcall" and init.get("name") == "next":
                return ("lin", {"len(%s)" % canon(init["recv"], self.env): 1})
            return ("unknown", canon(c["init"], self.env))
        if not (isinstance(c, dict) and c.get("k") == "bin" and c.get("op") in ("<", "<=", ">", ">=", "!=")):
            return ("unknown", canon(cond, self.env))
        l, r = strip_expr(c["l"]), strip_expr(c["r"])
        op = c["op"]

        def counter(x):
            if isinstance(x, dict) and x.get("k") == "path" and "local" in x:
                nm = x["local"]
                ml = self.mut_locals.get(nm)
                if ml is not None:
                    new = ml["steps"][len(before.get(nm, [])):]
                    if len(new) == 1 and new[0][1] == {1: 1} and new[0][0] in ("+", "-"):
                        return nm, new[0][0], ml["init"]
            return None

        cl, cr = counter(l), counter(r)
        if cl and not cr:
            nm, step, init = cl
            bound = lin(c["r"], self.env)
            if init is None:
                return ("unknown", "counter %s has no known initial value" % nm)
            if step == "+" and op == "<":
                return ("lin", lin_add(bound, init, -1))
            if step == "+" and op == "<=":
                return ("lin", lin_add(lin_add(bound, init, -1), {1: 1}))
            if step == "-" and op == ">":
                return ("lin", lin_add(init, bound, -1))
            if step == "-" and op == ">=":
                return ("lin", lin_add(lin_add(init, bound, -1), {1: 1}))
            if step == "-" and op == "!=":
                return ("lin", lin_add(init, bound, -1))
        return ("unknown", canon(cond, self.env))


def _walk(n):
    st = [n]
    while st:
        x = st.pop()
        if isinstance(x, dict):
            yield x
            for v in x.values():
                if isinstance(v, (dict, list)):
                    st.append(v)
        elif isinstance(x, list):
            st.extend(reversed(x))


# ------------------------------------------------------------ languages

def sym_key(s):
    """comparison key of a symbol: writer and reader primitives of the same kind/class are equal."""
    if s[0] == "p":
        kind, cls, consts = s[1], s[2], s[3]
        if kind == "json":
            kind = "any"  # write_json/read_json are aliases of *_any in both encoders
        if kind == "var_signed":
            kind = "var"
        if kind == "var" and consts and all(isinstance(c, int) and not isinstance(c, bool) and 0 <= c < 64 for c in consts):
            cls = "*"  # non-negative values below 64 are the same single byte in the signed and unsigned var-int encodings
        return ("p", kind, cls, tuple(consts) if consts else None)
    if s[0] == "ref":
        return ("ref", s[1])
    if s[0] == "star":
        return s
    return s


RET = ("retn",)
CONT = ("cont",)     # `continue`: ends the word of the current loop iteration
BRK = ("brk",)       # `break`: ends the iteration (and the loop)
ENDS = (RET, CONT, BRK)


def language(node, inline=None, depth=0, limit=4000):
    """finite set of words (tuples of symbol keys) of a grammar node."""
    if node is None or node == ("nil",):
        return {()}
    k = node[0]
    if k == "fail":
        return set()
    if k == "retn":
        # an early `return x`: the words of x, terminated (nothing that follows in an enclosing sequence is emitted)
        return {w + (RET,) if not (w and w[-1] in ENDS) else w for w in language(node[1], inline, depth, limit)}
    if k in ("cont", "brk"):
        m = CONT if k == "cont" else BRK
        return {w + (m,) if not (w and w[-1] in ENDS) else w for w in language(node[1], inline, depth, limit)}
    if k == "p" or k == "tag":
        return {(node,)}
    if k == "ref":
        if inline and node[1] in inline and depth < 4:
            return {tuple(x for x in w if x not in ENDS) for w in language(inline[node[1]], inline, depth + 1, limit)}
        return {(node,)}
    if k == "seq":
        words = {()}
        for x in node[1]:
            lx = language(x, inline, depth, limit)
            words = {(a if (a and a[-1] in ENDS) else a + b) for a in words for b in lx}
            if len(words) > limit:
                raise OverflowError("grammar too large")
        return words
    if k == "alt":
        out = set()
        for _, x in node[1]:
            out |= language(x, inline, depth, limit)
        return out
    if k == "star":
        # a `return` inside the body keeps terminating the enclosing word; `continue` / `break` end the iteration only
        body = frozenset(fold_tags(tuple(x for x in w if x not in ENDS)) for w in language(node[1], inline, depth, limit))
        body = frozenset(w for w in body if w is not None)
        if body == frozenset({()}):
            return {()}
        return {(("star", body),)}
    return {()}


def fold_tags(word):
    """attach ('tag', local, consts) pseudo symbols to the primitive bound to that local; normalise symbols.
    Words whose tag contradicts a constant already known for that primitive are infeasible (None)."""
    out = []
    binds = {}
    for s in word:
        if s[0] == "p":
            if s[4]:
                binds[s[4]] = len(out)
            out.append(s)
        elif s[0] == "tag":
            src, consts = s[1], s[2]
            if src in binds:
                i = binds[src]
                p = out[i]
                if p[3] is not None and consts != ("_",) and not (set(p[3]) & set(consts)):
                    return None
                newc = (p[3] or ("_",)) if consts == ("_",) else (tuple(sorted(set(consts) & set(p[3]))) if p[3] else consts)
                out[i] = ("p", p[1], p[2], newc, p[4], p[5] if len(p) > 5 else None)
            elif src and src.startswith("param:"):
                out.append(("ptag", src, consts))
            else:
                out.append(("ptag", src, consts))
        else:
            out.append(s)
    return tuple(sym_key(s) for s in out)


def expand_consts(w):
    """a symbol with several possible constants stands for one word per constant."""
    out = [()]
    for s in w:
        if s[0] == "p" and s[3] and len(s[3]) > 1 and "_" not in s[3]:
            out = [o + (("p", s[1], s[2], (c,)),) for o in out for c in s[3]]
        elif s[0] == "star":
            body = frozenset(x for b in s[1] for x in expand_consts(b))
            out = [o + (("star", body),) for o in out]
        else:
            out = [o + (s,) for o in out]
    return out


def words(node, inline=None):
    ws = set()
    for w in language(node, inline):
        f = fold_tags(tuple(x for x in w if x not in ENDS))
        if f is not None:
            for e in expand_consts(f):
                ws.add(e)
    return ws


def show_word(w):
    parts = []
    for s in w:
        if s[0] == "p":
            t = s[1]
            if s[2]:
                t += ":" + s[2]
            if s[3]:
                t += "=" + "|".join(str(c) for c in s[3])
            parts.append(t)
        elif s[0] == "ref":
            parts.append("<%s>" % s[1])
        elif s[0] == "star":
            parts.append("{" + " / ".join(sorted(show_word(x) for x in s[1])) + "}*")
        elif s[0] == "ptag":
            parts.append("[%s=%s]" % (s[1], "|".join(str(c) for c in s[2])))
        else:
            parts.append(str(s))
    return " ".join(parts) if parts else "ε"


def unify_var_class(w):
    """'?' var class (generic T) matches anything: normalise to None for comparison when needed."""
    return tuple((("p", s[1], None if s[2] == "?" else s[2], s[3]) if s[0] == "p" else
                  (("star", frozenset(unify_var_class(x) for x in s[1])) if s[0] == "star" else s)) for s in w)


def stars_of(node, acc=None):
    if acc is None:
        acc = []
    if isinstance(node, tuple):
        if node and node[0] == "star":
            acc.append(node)
            stars_of(node[1], acc)
        elif node and node[0] == "seq":
            for x in node[1]:
                stars_of(x, acc)
        elif node and node[0] == "alt":
            for _, x in node[1]:
                stars_of(x, acc)
    return acc


# ------------------------------------------------------------ matching (writer word accepted by reader word)

def sym_accepts(r, w):
    """reader symbol r accepts writer symbol w."""
    if r[0] != w[0]:
        return False
    if r[0] == "p":
        if r[1] != w[1]:
            return False
        rc, wc = r[2], w[2]
        if not (rc == wc or rc in (None, "*", "?") and r[1] != "var" or "*" in (rc, wc) or "?" in (rc, wc)):
            return False
        rk, wk = r[3], w[3]
        if rk is None or rk == ("_",):
            return True
        if wk is None:
            return False
        return set(wk) <= set(rk) or "_" in rk
    if r[0] == "ref":
        return r[1] == w[1]
    if r[0] == "star":
        return lang_subset(w[1], r[1])[0]
    if r[0] == "ptag":
        return r[2] == w[2]
    return r == w


def word_accepts(rw, ww):
    return len(rw) == len(ww) and all(sym_accepts(a, b) for a, b in zip(rw, ww))


def lang_subset(wl, rl):
    """every writer word is accepted by some reader word; returns (ok, unmatched writer words)."""
    bad = []
    rl = list(rl)
    for ww in wl:
        if not any(word_accepts(rw, ww) for rw in rl):
            bad.append(ww)
    return (not bad), bad


def collapse_units(w):
    """`X {X / Y}*` and `{X / Y}* X`  ->  `{X / Y}*` (one-or-more is a sub-language of zero-or-more)."""
    out = list(w)
    changed = True
    while changed:
        changed = False
        for i, s in enumerate(out):
            if s[0] != "star":
                continue
            for b in sorted(s[1], key=len, reverse=True):
                n = len(b)
                if n == 0:
                    continue
                if i >= n and word_accepts(b, tuple(out[i - n:i])) or (i >= n and any(word_accepts(x, tuple(out[i - n:i])) for x in s[1] if len(x) == n)):
                    del out[i - n:i]
                    changed = True
                    break
                if len(out) - i - 1 >= n and any(word_accepts(x, tuple(out[i + 1:i + 1 + n])) for x in s[1] if len(x) == n):
                    del out[i + 1:i + 1 + n]
                    changed = True
                    break
            if changed:
                break
    return tuple(collapse_units(x) if False else x for x in out)
