"""Mirror check: two regions of one function are the same code with two roles exchanged (a <-> b).

Used for symmetric algorithms (union of two sorted range lists): every branch that handles `a` has a twin that handles `b`.
The check is structural and name-free: starting from two edge targets, the regions are walked in lockstep; *events* (calls,
stores into multi-definition locals, stores through projections, branch conditions) must pair up, and their operands must be
*value mirrors*: constants equal, single-definition temporaries have mirror definitions, multi-definition locals (loop
variables) correspond under one bijection that is built during the walk and seeded with the two roles.

A mismatch names the first pair of source lines where the twins differ."""
import json


class Mismatch(Exception):
    pass


def _root(fn, op, limit=24):
    """like rules.common.mir_root, but keeps projections: returns ("const", k) | ("local", l) | ("place", base_local, proj)."""
    if isinstance(op, dict) and "k" in op:
        return ("const", json.dumps(op.get("k")), str(op.get("ty")))
    if isinstance(op, dict) and "text" in op:
        return ("const", op.get("text"), str(op.get("ty")))
    pl = op.get("c", op.get("m")) if isinstance(op, dict) and ("c" in op or "m" in op) else op
    proj = []
    for _ in range(limit):
        if isinstance(pl, dict):
            p = [x for x in pl.get("p", []) if x != "*"]
            proj = p + proj
            pl = pl["l"]
            continue
        if not isinstance(pl, int):
            return ("other", str(pl))
        if 1 <= pl <= fn.argc():
            break
        ds = fn.defs().get(pl, [])
        if len(ds) != 1 or ds[0][0] != "stmt":
            break
        rv = ds[0][3]["rv"]
        if "use" in rv and isinstance(rv["use"], dict):
            if "k" in rv["use"] or "text" in rv["use"]:
                if proj:
                    break
                return _root(fn, rv["use"])
            pl = rv["use"].get("c", rv["use"].get("m"))
            continue
        if "ref" in rv:
            pl = rv["ref"]
            continue
        break
    if proj:
        return ("place", pl, tuple(json.dumps(x, sort_keys=True) for x in proj))
    return ("local", pl)


class Mirror:
    def __init__(self, fn, seeds):
        """seeds: list of (keyA, keyB) of rooted values that play the two roles, e.g. (("local", 13), ("place", 2, (proj,)))."""
        self.fn = fn
        self.seeds = set(seeds) | {(b, a) for a, b in seeds}
        self.bij = {}
        self.rev = {}
        self.memo = set()

    def _bind(self, a, b, where):
        if self.bij.get(a, b) != b or self.rev.get(b, a) != a:
            raise Mismatch("%s: variable _%s pairs with _%s here but with _%s elsewhere" % (where, a, b, self.bij.get(a, self.rev.get(b))))
        self.bij[a] = b
        self.rev[b] = a

    def value(self, opA, opB, where, depth=16):
        fn = self.fn
        ra, rb = _root(fn, opA), _root(fn, opB)
        if (ra, rb) in self.seeds:
            return
        if ra == rb and any(ra == x for pair in self.seeds for x in pair):
            raise Mismatch("%s: both twins use the same operand of the two (%s)" % (where, ra[1:]))
        if ra[0] == "const" or rb[0] == "const":
            if ra != rb:
                raise Mismatch("%s: constant %s vs %s" % (where, ra[1:], rb[1:]))
            return
        if ra[0] == "place" or rb[0] == "place":
            if ra[0] != rb[0] or ra[2] != rb[2]:
                raise Mismatch("%s: different places (%s vs %s)" % (where, ra[1:], rb[1:]))
            return self.value({"c": ra[1]}, {"c": rb[1]}, where, depth - 1)
        if ra[0] != "local" or rb[0] != "local":
            if ra != rb:
                raise Mismatch("%s: %s vs %s" % (where, ra, rb))
            return
        la, lb = ra[1], rb[1]
        if (la, lb) in self.memo:
            return
        da, db = fn.defs().get(la, []), fn.defs().get(lb, [])
        single_a = len(da) == 1 and not (1 <= la <= fn.argc())
        single_b = len(db) == 1 and not (1 <= lb <= fn.argc())
        if single_a != single_b:
            raise Mismatch("%s: a temporary on one side, a variable on the other (_%s vs _%s)" % (where, la, lb))
        if not single_a or depth <= 0:
            return self._bind(la, lb, where)   # la == lb binds a variable to itself: fine for shared state, a conflict for a role
        self.memo.add((la, lb))
        ka, kb = da[0], db[0]
        if ka[0] != kb[0]:
            raise Mismatch("%s: defined by a statement on one side and a call on the other" % where)
        if ka[0] == "stmt":
            self.rvalue(ka[3]["rv"], kb[3]["rv"], "%s <- line %s/%s" % (where, ka[3].get("line"), kb[3].get("line")), depth - 1)
        else:
            ca, cb = ka[2], kb[2]
            self.call(ca, cb, "%s <- %s" % (where, ca.loc()), depth - 1)

    def rvalue(self, ra, rb, where, depth=16):
        ka = sorted(k for k in ra if k not in ("ty", "mut"))
        kb = sorted(k for k in rb if k not in ("ty", "mut"))
        if ka != kb:
            raise Mismatch("%s: different expressions (%s vs %s)" % (where, ka, kb))
        if ra.get("bin") in ("Add", "Mul", "BitAnd", "BitOr", "BitXor", "Eq", "Ne", "AddWithOverflow", "MulWithOverflow") and rb.get("bin") == ra.get("bin"):
            return self._try_orders((ra["a"], ra["b"]), (rb["a"], rb["b"]), where, depth)
        for k in ka:
            x, y = ra[k], rb[k]
            if k in ("bin", "un", "cast", "agg", "nullop", "kind"):
                if json.dumps(x, sort_keys=True) != json.dumps(y, sort_keys=True):
                    raise Mismatch("%s: %s %s vs %s" % (where, k, json.dumps(x)[:60], json.dumps(y)[:60]))
            elif k == "ops":
                if len(x) != len(y):
                    raise Mismatch("%s: operand count" % where)
                for p, q in zip(x, y):
                    self.value(p, q, where, depth)
            elif isinstance(x, (dict, int)) and isinstance(y, (dict, int)) and k in ("a", "b", "use", "ref", "discr", "len", "x", "cast_op"):
                self.value(x if isinstance(x, dict) and ("c" in x or "m" in x or "k" in x or "text" in x) else {"c": x},
                           y if isinstance(y, dict) and ("c" in y or "m" in y or "k" in y or "text" in y) else {"c": y}, where, depth)
            else:
                if isinstance(x, dict) and ("c" in x or "m" in x or "k" in x):
                    self.value(x, y, where, depth)
                elif json.dumps(x, sort_keys=True) != json.dumps(y, sort_keys=True):
                    raise Mismatch("%s: %s differs" % (where, k))

    def _try_orders(self, pa, pb, where, depth):
        """operands of a commutative operation: in order, or exchanged."""
        snap = (dict(self.bij), dict(self.rev), set(self.memo))
        try:
            self.value(pa[0], pb[0], where, depth)
            self.value(pa[1], pb[1], where, depth)
            return
        except Mismatch:
            self.bij, self.rev, self.memo = dict(snap[0]), dict(snap[1]), set(snap[2])
        self.value(pa[0], pb[1], where, depth)
        self.value(pa[1], pb[0], where, depth)

    def call(self, ca, cb, where, depth=16):
        if ca.name != cb.name or len(ca.args) != len(cb.args):
            raise Mismatch("%s: calls %s vs %s" % (where, ca.name, cb.name))
        if len(ca.args) == 2 and ca.name.rsplit("::", 1)[-1] in ("min", "max") and ("Ord" in ca.name or "cmp::" in ca.name):
            return self._try_orders(ca.args, cb.args, where, depth)
        for p, q in zip(ca.args, cb.args):
            self.value(p, q, where, depth)

    # ------------------------------------------------------------------ regions
    PURE = ("::index", "::index_mut", "::len", "::clone", "::min", "::max", "::deref", "::deref_mut", "::into_iter", "::as_slice",
            "::as_ref", "::borrow", "::is_empty", "::iter")

    def _pure(self, call):
        return any(call.name.endswith(x) for x in self.PURE)

    def _chain(self, b, calls, stop):
        """straight-line chain from block b: the stores (events) met while following jumps, bounds/overflow asserts, drops and
        pure calls; ends at a branch, an effectful call, a return, or a stop block. Returns ([(block, [events])], last, term)."""
        fn = self.fn
        out = []
        seen = set()
        while True:
            if b in stop or b in seen:
                return out, b, None
            seen.add(b)
            blk = fn.blocks[b]
            out.append((b, [s for s in blk["s"] if self._event(s)]))
            t = blk["t"]
            if "goto" in t:
                b = t["goto"]
            elif "assert" in t or "drop" in t:
                if t.get("target") is None:
                    return out, b, t
                b = t["target"]
            elif "call" in t and b in calls and self._pure(calls[b]) and t.get("target") is not None and \
                    not (isinstance(t.get("dest"), int) and len(fn.defs().get(t["dest"], [])) > 1):
                b = t["target"]
            else:
                return out, b, t

    def regions(self, a0, b0, stop=()):
        """lockstep walk from blocks a0 / b0; `stop`: blocks where both walks may end (the loop header)."""
        fn = self.fn
        calls = {c.bb: c for c in fn.calls()}
        seen = set()
        todo = [(a0, b0)]
        n = 0
        while todo:
            a, b = todo.pop()
            if (a, b) in seen or a == b:
                continue
            seen.add((a, b))
            ca, la, ta = self._chain(a, calls, stop)
            cb, lb, tb = self._chain(b, calls, stop)
            # cut both chains at the first block they share (the join of the two regions)
            inb = {x for x, _ in cb}
            cut = next((k for k, (x, _) in enumerate(ca) if x in inb), None)
            joined = False
            if cut is not None:
                x = ca[cut][0]
                ca = ca[:cut]
                cb = cb[:[y for y, _ in cb].index(x)]
                joined = True
            ea = [s for _, ev in ca for s in ev]
            eb = [s for _, ev in cb for s in ev]
            if len(ea) != len(eb):
                la_ = ea[0].get("line") if ea else fn.blocks[a]["t"].get("line")
                lb_ = eb[0].get("line") if eb else fn.blocks[b]["t"].get("line")
                raise Mismatch("lines %s/%s: %d vs %d stores into variables" % (la_, lb_, len(ea), len(eb)))
            for sa, sb in zip(ea, eb):
                w = "lines %s/%s" % (sa.get("line"), sb.get("line"))
                da, db = sa["dst"], sb["dst"]
                if isinstance(da, int) and isinstance(db, int):
                    self._bind(da, db, w)
                else:
                    ra, rb = _root(fn, {"c": da}), _root(fn, {"c": db})
                    if ra[0] != rb[0] or (ra[0] == "place" and ra[2] != rb[2]):
                        raise Mismatch("%s: stores to different places" % w)
                    self.value({"c": ra[1]}, {"c": rb[1]}, w)
                self.rvalue(sa["rv"], sb["rv"], w)
                n += 1
            if joined:
                continue
            if ta is None or tb is None:
                if (ta is None) != (tb is None) or la != lb:
                    raise Mismatch("one twin ends its round at line %s while the other goes on at line %s" %
                                   (fn.blocks[la]["t"].get("line"), fn.blocks[lb]["t"].get("line")))
                continue
            kinds = ("call", "switch", "ret", "return", "unreachable")
            ka = [k for k in kinds if k in ta]
            kb = [k for k in kinds if k in tb]
            w = "lines %s/%s" % (ta.get("line"), tb.get("line"))
            if ka != kb:
                raise Mismatch("%s: different control flow (%s vs %s)" % (w, ka or list(ta)[:1], kb or list(tb)[:1]))
            if "call" in ta:
                self.call(calls[la], calls[lb], w)
                n += 1
                da, db = ta.get("dest"), tb.get("dest")
                if isinstance(da, int) and isinstance(db, int) and (len(fn.defs().get(da, [])) > 1 or len(fn.defs().get(db, [])) > 1):
                    self._bind(da, db, w)
                if ta.get("target") is not None and tb.get("target") is not None:
                    todo.append((ta["target"], tb["target"]))
            elif "switch" in ta:
                self.value(ta["switch"], tb["switch"], w)
                n += 1
                va, vb = ta["targets"], tb["targets"]
                if [x[0] for x in va] != [x[0] for x in vb]:
                    raise Mismatch("%s: branches on different values" % w)
                for (x, p), (y, q) in zip(va, vb):
                    todo.append((p, q))
                todo.append((ta["otherwise"], tb["otherwise"]))
        return n

    def _skip(self, b, limit=8):
        """follow blocks that do nothing but jump."""
        for _ in range(limit):
            blk = self.fn.blocks[b]
            if "goto" in blk["t"] and not any(self._event(s) for s in blk["s"]):
                b = blk["t"]["goto"]
            else:
                break
        return b

    def _event(self, st):
        d = st["dst"]
        if isinstance(d, dict):
            return bool(d.get("p")) or len(self.fn.defs().get(d.get("l"), [])) > 1
        rv = st["rv"]
        if isinstance(rv.get("use"), dict) and rv["use"].get("text") == "()":
            return False
        return len(self.fn.defs().get(d, [])) > 1


def mirrored_branches(fn, seeds):
    """find pairs of two-way branches inside loops whose conditions are value mirrors of each other under the role exchange,
    and check that the regions they guard are mirrors too. Returns (pairs_checked, [mismatch descriptions])."""
    cfg = fn.cfg()
    sw = [i for i, b in enumerate(fn.blocks) if not b.get("cleanup") and "switch" in b["t"] and b["t"].get("ty") == "bool" and cfg.in_loop(i)]
    inloop = [i for i in range(len(fn.blocks)) if cfg.in_loop(i)]
    headers = [h for h in inloop if all(cfg.dominates(h, x) for x in inloop)]
    header = headers[0] if headers else None
    pairs, problems, plist = 0, [], []

    def edge(s, pol):
        t = fn.blocks[s]["t"]
        zero = [to for v, to in t["targets"] if v == 0]
        return t["otherwise"] if pol else (zero[0] if zero else None)

    def reaches(src, dst):
        seen, todo = set(), [src]
        while todo:
            x = todo.pop()
            if x in seen or x == header:
                continue
            seen.add(x)
            if x == dst:
                return True
            todo.extend(cfg.succ[x])
        return False
    used = set()
    for i, s1 in enumerate(sw):
        for s2 in sw[i + 1:]:
            if s1 in used or s2 in used:
                continue
            m = Mirror(fn, seeds)
            try:
                m.value(fn.blocks[s1]["t"]["switch"], fn.blocks[s2]["t"]["switch"], "condition")
            except Mismatch:
                continue
            if not m.bij and not m.memo:
                continue
            # the conditions must really exchange the roles: something was bound across, or a seed was crossed
            r1, r2 = _root(fn, fn.blocks[s1]["t"]["switch"]), _root(fn, fn.blocks[s2]["t"]["switch"])
            if r1 == r2:
                continue
            for pol in (True, False):
                t1, t2 = edge(s1, pol), edge(s2, pol)
                if t1 is None or t2 is None or t1 == s2 or reaches(t1, s2):
                    continue
                pairs += 1
                plist.append((fn.blocks[s1]["t"].get("line"), fn.blocks[s2]["t"].get("line"), pol))
                used.add(s1)
                used.add(s2)
                m2 = Mirror(fn, seeds)
                try:
                    m2.value(fn.blocks[s1]["t"]["switch"], fn.blocks[s2]["t"]["switch"], "condition")
                    m2.regions(t1, t2, stop=(header,) if header is not None else ())
                except Mismatch as e:
                    problems.append("branches at lines %s and %s are not mirror images: %s" % (fn.blocks[s1]["t"].get("line"), fn.blocks[s2]["t"].get("line"), e))
                break
    return plist, problems
