"""Obligations, known findings, evidence files, exit status."""
import json
import os
import sys
import time

from .facts import AnchorLost

VERIF = os.path.dirname(os.path.dirname(os.path.abspath(__file__)))
KNOWN_FILE = os.path.join(VERIF, "known_findings.json")
# runs against a scratch copy (YLINT_REPO set by the self-test) must not overwrite the evidence of the real tree
EVIDENCE_DIR = os.path.join(VERIF, "evidence") if os.environ.get("YLINT_REPO", "/repo") == "/repo" else \
    os.path.join("/tmp", "ylint-scratch-evidence")


class Ob:
    __slots__ = ("rule", "fn", "site", "ok", "detail", "loc", "nontrivial", "inventory")

    def __init__(self, rule, fn, site, ok, detail, loc=None, nontrivial=True, inventory=False):
        self.rule = rule
        self.fn = fn
        self.site = site
        self.ok = ok
        self.detail = detail
        self.loc = loc
        self.nontrivial = nontrivial
        self.inventory = inventory

    @property
    def key(self):
        return "%s|%s|%s" % (self.rule, self.fn, self.site)

    def to_json(self):
        return {
            "rule": self.rule,
            "fn": self.fn,
            "site": self.site,
            "status": "discharged" if self.ok else ("inventory" if self.inventory else "violation"),
            "detail": self.detail,
            "loc": self.loc,
            "key": self.key,
        }


class Report:
    def __init__(self, prop, tier):
        self.prop = prop
        self.tier = tier
        self.obs = []
        self.rules = {}  # rule id -> text
        self.floors = []  # (rule, what, count, minimum)
        self.analysed_fns = set()
        self.notes = []
        self.t0 = time.time()
        self.assumptions = []

    def rule(self, rid, text):
        self.rules[rid] = text

    def ob(self, rule, fn, site, ok, detail, loc=None, nontrivial=True):
        fnp = fn.path if hasattr(fn, "path") else str(fn)
        if hasattr(fn, "path"):
            self.analysed_fns.add(fn.path)
            if loc is None:
                loc = "%s:%s" % (fn.file, fn.line)
        self.obs.append(Ob(rule, fnp, site, bool(ok), detail, loc, nontrivial))
        return bool(ok)

    def inventory(self, rule, fn, site, detail, loc=None):
        fnp = fn.path if hasattr(fn, "path") else str(fn)
        self.obs.append(Ob(rule, fnp, site, False, detail, loc, False, inventory=True))

    def floor(self, rule, what, count, minimum):
        """fail closed when a rule matched fewer instances than were confirmed by hand."""
        self.floors.append((rule, what, count, minimum))
        if count < minimum:
            self.obs.append(
                Ob(rule, "<floor>", what, False,
                   "rule matched %d instance(s) of %s, fewer than the %d confirmed on the pinned tree: "
                   "anchors lost or renamed — the rule would pass vacuously" % (count, what, minimum),
                   None, False))

    def touch(self, fn):
        self.analysed_fns.add(fn.path)

    def run(self, rid, func, *args):
        """run one rule function; an AnchorLost is a fail-closed violation."""
        n0 = len(self.obs)
        try:
            func(self, *args)
        except AnchorLost as e:
            self.obs.append(Ob(rid, "<anchor>", str(e), False,
                               "anchor lost: %s — the rule cannot be evaluated (fail closed)" % e, None, False))
        except Exception as e:  # a rule that cannot digest the shape of the code it is looking at: fail closed, with a VIOLATION line
            import traceback
            tb = traceback.format_exc().strip().splitlines()
            where = [l.strip() for l in tb if l.strip().startswith("File ")][-1:] or [""]
            self.obs.append(Ob(rid, "<rule-crash>", type(e).__name__, False,
                               "the rule could not be evaluated on this code (%s: %s at %s) — fail closed; the anchored code has a shape "
                               "the rule does not know" % (type(e).__name__, str(e)[:200], where[0][:160]), None, False))
        return len(self.obs) - n0


def load_known():
    if not os.path.exists(KNOWN_FILE):
        return []
    return json.load(open(KNOWN_FILE))["findings"]


def finish(rep, extra_cov=None, checker_cmd=""):
    """write evidence, print KNOWN-FINDING / VIOLATION lines, return exit code."""
    known = [k for k in load_known() if k.get("property") == rep.prop and k.get("status") == "known"]
    known_keys = {k["key"]: k for k in known}
    armed = [o for o in rep.obs if not o.inventory]
    viol = [o for o in armed if not o.ok]
    new = [o for o in viol if o.key not in known_keys]
    old = [o for o in viol if o.key in known_keys]
    discharged = [o for o in armed if o.ok]
    inv = [o for o in rep.obs if o.inventory]

    for o in old:
        k = known_keys[o.key]
        print("KNOWN-FINDING: property=%s %s [%s] %s" % (rep.prop, k.get("what", o.detail), o.key, o.loc or ""))
    stale = [k for k in known if k["key"] not in {o.key for o in viol}]
    for k in stale:
        print("note: known finding no longer reproduced (fixed or code moved): %s" % k["key"])

    os.makedirs(EVIDENCE_DIR, exist_ok=True)
    vpath = os.path.join(EVIDENCE_DIR, "%s.violations.json" % rep.prop)
    if new:
        json.dump({"property": rep.prop, "violations": [o.to_json() for o in new]}, open(vpath, "w"), indent=1)
    elif os.path.exists(vpath):
        os.remove(vpath)

    distinct_nontrivial = len({o.key for o in armed if o.nontrivial})
    samples = []
    seen_rules = set()
    for o in armed + inv:
        if o.rule not in seen_rules:
            seen_rules.add(o.rule)
            samples.append(o.to_json())
    for o in (new + old)[:10]:
        j = o.to_json()
        if j not in samples:
            samples.append(j)
    cov = {
        "explanation": (
            "Static analysis of /repo's current working tree: facts (resolved MIR + HIR of every function "
            "body of yrs and yffi) are extracted by the ylint rustc_private driver under cargo +nightly check; "
            "the rules below are evaluated over those facts. Each obligation is one (rule, function, site) "
            "instance; 'discharged' means the structural clause holds at that site on every path. The rules "
            "decide necessary structural clauses of the property, not the behaviour itself (see DESIGN.md)."),
        "obligations": len(armed),
        "discharged": len(discharged),
        "known_findings": len(old),
        "new_violations": len(new),
        "inventory_items": len(inv),
        "evaluations": len(rep.obs),
        "distinct_nontrivial": distinct_nontrivial,
        "rule": "one evaluation per (rule, function, site) instance the driver extracted; non-trivial = the verdict needed a path, "
                "dominance, guard or provenance argument (not a mere presence test); distinct by key rule|function|site",
        "rules": rep.rules,
        "functions_analysed": sorted(rep.analysed_fns),
        "n_functions_analysed": len(rep.analysed_fns),
        "floors": [{"rule": r, "what": w, "matched": c, "minimum": m} for r, w, c, m in rep.floors],
        "samples": samples[:40],
        "checker_cmd": checker_cmd,
        "trusted_base": [
            "rustc 1.97.0-nightly HIR/MIR construction and Instance::try_resolve",
            "ylint fact extraction (/verif/ylint)",
            "CFG dominance / edge-necessity / term reconstruction in /verif/ylib/facts.py",
            "frozen instance tables in /verif/rules (each entry confirmed by reading the code)",
        ],
        "exhaustive": True,
        "notes": rep.notes,
    }
    if inv:
        cov["inventory"] = [o.to_json() for o in inv][:60]
    if extra_cov:
        cov.update(extra_cov)
    ev = {
        "property_id": rep.prop,
        "tier": rep.tier,
        "seed": int(os.environ.get("VERIF_SEED", "0") or 0),
        "level": "other",
        "coverage": cov,
        "assumptions": rep.assumptions + [
            "the analysed configuration is the workspace build (yrs[weak] + yffi), dev profile, -Zmir-opt-level=0; #[cfg(test)] code is not analysed",
            "callees outside the analysed crates are leaves whose behaviour is taken from their documented contract",
        ],
        "wall_s": round(time.time() - rep.t0, 3),
        "violations": len(new),
    }
    json.dump(ev, open(os.path.join(EVIDENCE_DIR, "%s.json" % rep.prop), "w"), indent=1)

    print("%s [%s]: %d obligations, %d discharged, %d known finding(s), %d new violation(s), %d inventory; %d functions analysed"
          % (rep.prop, rep.tier, len(armed), len(discharged), len(old), len(new), len(inv), len(rep.analysed_fns)))
    if new:
        for o in new[:50]:
            print("  violation %s @ %s: %s" % (o.key, o.loc, o.detail))
        print("VIOLATION property=%s replay=%s" % (rep.prop, vpath))
        return 1
    return 0
