"""Minimal parser for the cbindgen-generated C header (prototypes, typedef aliases, #define constants)."""
import re


def strip_comments(src):
    src = re.sub(r"/\*.*?\*/", " ", src, flags=re.S)
    src = re.sub(r"//[^\n]*", " ", src)
    return src


def split_top(s, sep=","):
    out, depth, cur = [], 0, []
    for ch in s:
        if ch in "([{":
            depth += 1
        elif ch in ")]}":
            depth -= 1
        if ch == sep and depth == 0:
            out.append("".join(cur).strip())
            cur = []
        else:
            cur.append(ch)
    if "".join(cur).strip():
        out.append("".join(cur).strip())
    return out


INT_TYPES = {
    "char": "i8", "signed char": "i8", "unsigned char": "u8", "int8_t": "i8", "uint8_t": "u8", "int16_t": "i16", "uint16_t": "u16",
    "int32_t": "i32", "uint32_t": "u32", "int64_t": "i64", "uint64_t": "u64", "int": "i32", "unsigned int": "u32", "size_t": "usize",
    "uintptr_t": "usize", "intptr_t": "isize", "bool": "bool",
}
FLOAT_TYPES = {"float": "f32", "double": "f64"}


class Header:
    def __init__(self, path):
        raw = open(path).read()
        self.defines = {}
        for m in re.finditer(r"^#define\s+(\w+)\s+(.+?)\s*$", raw, flags=re.M):
            self.defines[m.group(1)] = m.group(2).strip()
        src = strip_comments(raw)
        src = re.sub(r"^\s*#.*$", "", src, flags=re.M)
        src = re.sub(r'extern\s+"C"\s*\{', "", src)
        self.aliases = {}     # typedef name -> underlying ('struct X' / 'X')
        self.structs = {}     # struct/union name -> list of (type, name)
        self.protos = {}      # fn name -> (ret_type_str, [(type_str, name)])
        self._parse(src)

    def _parse(self, src):
        # statements at brace depth 0
        stmts, depth, cur = [], 0, []
        for ch in src:
            if ch == "{":
                depth += 1
            elif ch == "}":
                depth -= 1
            cur.append(ch)
            if ch == ";" and depth == 0:
                stmts.append("".join(cur).strip())
                cur = []
        for st in stmts:
            st = " ".join(st.split())
            if not st or st == ";":
                continue
            if st.startswith("typedef"):
                m = re.match(r"typedef (struct|union) (\w+) \{(.*)\} (\w+);", st)
                if m:
                    self.structs[m.group(4)] = self._fields(m.group(3))
                    self.aliases[m.group(4)] = "%s %s" % (m.group(1), m.group(2))
                    continue
                m = re.match(r"typedef (struct \w+|union \w+|\w+) (\w+);", st)
                if m:
                    if m.group(1).split()[-1] != m.group(2):
                        self.aliases[m.group(2)] = m.group(1)
                    continue
                continue
            m = re.match(r"(struct|union) (\w+) \{(.*)\};", st)
            if m:
                self.structs[m.group(2)] = self._fields(m.group(3))
                continue
            if "(" in st and not st.startswith(("struct ", "union ")) or re.match(r"(struct|union) \w+ \**\w+\(", st):
                m = re.match(r"(.+?)\b(\w+)\s*\((.*)\);$", st)
                if not m:
                    continue
                # function pointer typedefs etc. are not prototypes: the name must be followed by the outermost parens
                ret, name, params = self._split_proto(st)
                if name:
                    self.protos[name] = (ret, params)

    def _fields(self, body):
        out = []
        for f in body.split(";"):
            f = " ".join(f.split())
            if not f:
                continue
            t, n = self._split_decl(f)
            out.append((t, n))
        return out

    def _split_proto(self, st):
        # find the first '(' at depth 0 that follows an identifier: return type + name before it
        i = st.index("(")
        head = st[:i].strip()
        m = re.match(r"(.*?)(\w+)$", head)
        if not m:
            return None, None, None
        ret = m.group(1).strip()
        name = m.group(2)
        # params: up to the matching ')'
        depth = 0
        j = i
        for j in range(i, len(st)):
            if st[j] == "(":
                depth += 1
            elif st[j] == ")":
                depth -= 1
                if depth == 0:
                    break
        inner = st[i + 1:j].strip()
        params = []
        if inner and inner != "void":
            for p in split_top(inner):
                params.append(self._split_decl(p))
        return ret, name, params

    def _split_decl(self, p):
        p = " ".join(p.split())
        m = re.match(r"(.+?)\(\*\s*(\w*)\)\s*\((.*)\)$", p)
        if m:
            args = [] if m.group(3).strip() in ("", "void") else split_top(m.group(3))
            return ("fnptr", m.group(1).strip(), [self._split_decl(a)[0] if re.search(r"\w\s+\**\w+$", a) or "(*" in a else a.strip() for a in args]), m.group(2)
        m = re.match(r"(.+?)(\w+)$", p)
        if m and m.group(1).strip() and not p.endswith("*") and m.group(1).strip() not in ("struct", "union", "const", "unsigned", "signed"):
            return m.group(1).strip(), m.group(2)
        return p, ""

    # ---- classification
    def classify(self, t):
        """structured class of a C type string."""
        if isinstance(t, tuple) and t[0] == "fnptr":
            return {"k": "fnptr", "ret": self.classify(t[1]), "args": [self.classify(a) for a in t[2]]}
        t = " ".join(t.replace("*", " * ").split())
        toks = t.split()
        # pointers: rightmost '*' binds last
        if "*" in toks:
            i = len(toks) - 1 - toks[::-1].index("*")
            inner = " ".join(toks[:i])
            const_ptr_itself = "const" in toks[i + 1:]
            inner_toks = inner.split()
            is_const = "const" in inner_toks and (inner_toks[0] == "const" or inner_toks[-1] == "const") and "*" not in inner_toks[inner_toks.index("const"):] if "const" in inner_toks else False
            # `const T *` : pointee const
            pointee = " ".join(x for x in inner_toks if x != "const") if "*" not in inner_toks else inner
            if "*" in inner_toks:
                # pointer to pointer: constness of the outer level is whatever precedes the last '*' directly
                is_const = inner_toks[-1] == "const"
                pointee = " ".join(inner_toks[:-1]) if is_const else inner
            return {"k": "ptr", "const": bool(is_const), "to": self.classify(pointee)}
        toks = [x for x in toks if x != "const"]
        base = " ".join(toks)
        if base == "void":
            return {"k": "void"}
        if base in INT_TYPES:
            return {"k": "int", "n": INT_TYPES[base]}
        if base in FLOAT_TYPES:
            return {"k": "float", "n": FLOAT_TYPES[base]}
        name = toks[-1]
        seen = set()
        while name in self.aliases and name not in seen:
            seen.add(name)
            under = self.aliases[name].split()[-1]
            if under == name:
                break
            name = under
        return {"k": "named", "name": name, "as_written": toks[-1]}
