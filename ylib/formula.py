"""Exact path-condition formulas over the acyclic part of a MIR CFG.

reach(bb)  = OR over forward predecessors p of reach(p) AND cond(p -> bb)
value(l)   = OR over definitions d of l of reach(d.bb) AND val(d)     (defs must be mutually exclusive)
Atoms are the branch conditions that are not themselves boolean combinations: call results,
comparisons, enum discriminant tests. Formulas are compared by truth table (rules use few atoms).
"""
import itertools

from .facts import Terms, show, _discr_type, enum_variants

TRUE = ("const", True)
FALSE = ("const", False)


def f_and(*xs):
    out = []
    for x in xs:
        if x == TRUE:
            continue
        if x == FALSE:
            return FALSE
        if x[0] == "and":
            out.extend(x[1])
        else:
            out.append(x)
    if not out:
        return TRUE
    uniq = []
    for x in out:
        if x not in uniq:
            uniq.append(x)
    for x in uniq:
        if f_not(x) in uniq:
            return FALSE
    if len(uniq) == 1:
        return uniq[0]
    return ("and", tuple(uniq))


def f_or(*xs):
    out = []
    for x in xs:
        if x == FALSE:
            continue
        if x == TRUE:
            return TRUE
        if x[0] == "or":
            out.extend(x[1])
        else:
            out.append(x)
    if not out:
        return FALSE
    uniq = []
    for x in out:
        if x not in uniq:
            uniq.append(x)
    for x in uniq:
        if f_not(x) in uniq:
            return TRUE
    # absorption of the common shape (A && X) || (A && !X)  ->  A
    changed = True
    while changed and len(uniq) > 1:
        changed = False
        for i in range(len(uniq)):
            for j in range(i + 1, len(uniq)):
                a, b = uniq[i], uniq[j]
                la = list(a[1]) if a[0] == "and" else [a]
                lb = list(b[1]) if b[0] == "and" else [b]
                if len(la) == len(lb):
                    da = [x for x in la if x not in lb]
                    db = [x for x in lb if x not in la]
                    if len(da) == 1 and len(db) == 1 and f_not(da[0]) == db[0]:
                        rest = [x for x in la if x in lb]
                        merged = f_and(*rest)
                        uniq = [u for k, u in enumerate(uniq) if k not in (i, j)] + [merged]
                        changed = True
                        break
            if changed:
                break
        if TRUE in uniq:
            return TRUE
    if len(uniq) == 1:
        return uniq[0]
    return ("or", tuple(uniq))


def f_not(x):
    if x == TRUE:
        return FALSE
    if x == FALSE:
        return TRUE
    if x[0] == "not":
        return x[1]
    return ("not", x)


def atom(key, term=None):
    return ("atom", key, term)


def atoms_of(f, acc=None):
    if acc is None:
        acc = {}
    if f[0] == "atom":
        acc.setdefault(f[1], f[2])
    elif f[0] in ("and", "or"):
        for x in f[1]:
            atoms_of(x, acc)
    elif f[0] == "not":
        atoms_of(f[1], acc)
    return acc


def evaluate(f, env):
    k = f[0]
    if k == "const":
        return f[1]
    if k == "atom":
        return env[f[1]]
    if k == "not":
        return not evaluate(f[1], env)
    if k == "and":
        return all(evaluate(x, env) for x in f[1])
    if k == "or":
        return any(evaluate(x, env) for x in f[1])
    raise ValueError(f)


def fshow(f):
    k = f[0]
    if k == "const":
        return "true" if f[1] else "false"
    if k == "atom":
        return f[1]
    if k == "not":
        return "!" + fshow(f[1]) if f[1][0] == "atom" else "!(%s)" % fshow(f[1])
    if k == "and":
        return "(" + " && ".join(fshow(x) for x in f[1]) + ")"
    if k == "or":
        return "(" + " || ".join(fshow(x) for x in f[1]) + ")"
    return str(f)


class Formulas:
    def __init__(self, fn, simp_deep=None):
        self.fn = fn
        self.cfg = fn.cfg()
        self.terms = Terms(fn)
        self._reach = {}
        self._val = {}
        self._back = None
        self.simp = simp_deep or (lambda t: t)
        self.unknown = []  # reasons why some formula is imprecise
        self.keyfn = None  # optional: term -> extra key suffix (to tell apart atoms that print alike)
        self.expand = True  # expand variant tests of multi-definition locals through their definitions

    # ---- back edges (DFS based)
    def back_edges(self):
        if self._back is None:
            back = set()
            color = {}
            st = [(0, iter(self.cfg.succ[0]))]
            color[0] = 1
            while st:
                n, it = st[-1]
                adv = False
                for s in it:
                    c = color.get(s, 0)
                    if c == 0:
                        color[s] = 1
                        st.append((s, iter(self.cfg.succ[s])))
                        adv = True
                        break
                    elif c == 1:
                        back.add((n, s))
                if not adv:
                    color[n] = 2
                    st.pop()
            self._back = back
        return self._back

    def atom_of_term(self, t, suffix=""):
        s = self.simp(t)
        extra = self.keyfn(s) if self.keyfn else ""
        return atom(show(s, 10) + extra + suffix, s)

    def operand_formula(self, op, depth=6):
        """formula of a boolean operand."""
        if "k" in op and isinstance(op.get("k"), int) and op.get("ty") == "bool":
            return TRUE if op["k"] else FALSE
        pl = op.get("c", op.get("m"))
        if isinstance(pl, int):
            return self.local_formula(pl, depth)
        return self.atom_of_term(self.terms.operand(op))

    def local_formula(self, l, depth=6):
        if l in self._val:
            return self._val[l]
        fn = self.fn
        if depth <= 0:
            return self.atom_of_term(self.terms.local(l, 8))
        defs = fn.defs().get(l, [])
        if not defs or (1 <= l <= fn.argc()):
            f = self.atom_of_term(self.terms.local(l, 8))
            self._val[l] = f
            return f
        self._val[l] = self.atom_of_term(("local", l, fn.local_name(l)))  # cycle guard
        alts = []
        multi = len(defs) > 1
        if multi:
            # defs must be pairwise non-dominating (mutually exclusive arms)
            bbs = [d[1] for d in defs]
            for a in bbs:
                for b in bbs:
                    if a != b and self.cfg.dominates(a, b):
                        self.unknown.append("local _%d is reassigned on one path (bb%d dominates bb%d)" % (l, a, b))
                        if fn.local_ty(l) == "bool" and all(d[0] == "stmt" and isinstance(d[3]["rv"].get("use"), dict)
                                                            and "k" in d[3]["rv"]["use"] for d in defs):
                            # a mutable boolean flag (`let mut seen = false; ... seen = true;`): one named atom per local
                            f = atom("flag:%s" % (fn.local_name(l) or "_%d" % l), ("flag", l, fn.local_name(l)))
                        else:
                            f = self.atom_of_term(self.terms.local(l, 8))
                        self._val[l] = f
                        return f
        for d in defs:
            if d[0] == "call":
                val = None
                nm = d[2].name
                if nm in ("std::option::Option::is_some", "std::option::Option::is_none") and d[2].args:
                    src = self._ref_source(d[2].args[0])
                    if src is not None:
                        vf = self._variant_of_place(src, "Some", 4)
                        if vf is not None:
                            val = vf if nm.endswith("is_some") else f_not(vf)
                if val is None:
                    val = self.atom_of_term(("call", d[2].name, tuple(self.terms.operand(a, 8) for a in d[2].args), d[2].bb))
            else:
                rv = d[3]["rv"]
                if "use" in rv:
                    val = self.operand_formula(rv["use"], depth - 1)
                elif "un" in rv and rv["un"] == "Not":
                    val = f_not(self.operand_formula(rv["a"], depth - 1))
                elif "bin" in rv and rv["bin"] in ("BitAnd", "BitOr") and rv.get("ty") == "bool":
                    a = self.operand_formula(rv["a"], depth - 1)
                    b = self.operand_formula(rv["b"], depth - 1)
                    val = f_and(a, b) if rv["bin"] == "BitAnd" else f_or(a, b)
                elif "bin" in rv and rv["bin"] in ("Eq", "Ne") and rv.get("ty") == "bool":
                    a = self.operand_formula(rv["a"], depth - 1)
                    b = self.operand_formula(rv["b"], depth - 1)
                    eq = f_or(f_and(a, b), f_and(f_not(a), f_not(b)))
                    val = eq if rv["bin"] == "Eq" else f_not(eq)
                else:
                    val = self.atom_of_term(self.terms.rvalue(rv, 8))
            alts.append(f_and(self.reach(d[1]), val) if multi else val)
        f = f_or(*alts)
        self._val[l] = f
        return f

    def edge_cond(self, p, b):
        t = self.fn.blocks[p]["t"]
        if "switch" not in t:
            return TRUE
        targets = t["targets"]
        otherwise = t["otherwise"]
        ty = t.get("ty")
        if ty == "bool":
            c = self.operand_formula(t["switch"])
            conds = []
            vals = [v for v, _ in targets]
            for v, to in targets:
                if to == b:
                    conds.append(c if v != 0 else f_not(c))
            if otherwise == b:
                if vals == [0]:
                    conds.append(c)
                elif vals == [1]:
                    conds.append(f_not(c))
                else:
                    conds.append(TRUE)
            return f_or(*conds)
        # enum discriminant or integer switch: atoms "<term> is <Variant>" / "<term> == v"
        cond_t = self.terms.operand(t["switch"])
        names = {}
        base = cond_t
        if cond_t[0] == "discr":
            base = cond_t[1]
            ety = _discr_type(self.fn, t["switch"])
            vs = enum_variants(self.fn.facts, ety) if ety else None
            if vs:
                names = {dv: n for dv, n, _ in vs}
        listed = [v for v, _ in targets]

        expanded = None
        if self.expand and names and len(names) == 2 and cond_t[0] == "discr":
            expanded = self.variant_formula(t["switch"], names)

        def a_for(v):
            if v in names:
                if len(names) == 2 and expanded is not None:
                    hi = max(names)
                    return expanded if v == hi else f_not(expanded)
                if len(names) == 2:
                    # canonical atom = the variant with the highest discriminant (Some / Err / ...)
                    hi = max(names)
                    a = self.atom_of_term(base, " is " + names[hi])
                    return a if v == hi else f_not(a)
                return self.atom_of_term(base, " is " + names[v])
            return self.atom_of_term(base, " == %s" % v)

        conds = []
        for v, to in targets:
            if to == b:
                conds.append(a_for(v))
        if otherwise == b:
            rest = [dv for dv in names if dv not in listed]
            if names and len(rest) == 1:
                conds.append(a_for(rest[0]))
            elif names and len(names) == 2 and len(listed) == 1:
                conds.append(f_not(a_for(listed[0])))
            else:
                conds.append(f_and(*[f_not(a_for(v)) for v in listed]))
        return f_or(*conds)

    def _ref_source(self, op):
        """the plain local an operand `&local` (possibly through a temporary) refers to."""
        pl = op.get("c", op.get("m")) if isinstance(op, dict) else None
        for _ in range(4):
            if not isinstance(pl, int):
                return None
            ds = self.fn.defs().get(pl, [])
            if len(ds) != 1 or ds[0][0] != "stmt":
                return None
            rv = ds[0][3]["rv"]
            if "ref" in rv:
                src = rv["ref"]
                if isinstance(src, int):
                    return src
                if isinstance(src, dict) and all(p == "*" for p in src["p"]):
                    pl = src["l"]
                    continue
                return None
            if "use" in rv and isinstance(rv["use"], dict):
                pl = rv["use"].get("c", rv["use"].get("m"))
                continue
            return None
        return None

    def variant_formula(self, switch_op, names, depth=4):
        """formula of `<place> is <highest variant>` when the tested place is a plain local whose definitions are
        aggregates of a known variant or copies of other places (e.g. `let origin = if c { item.origin } else { Some(..) }`)."""
        fn = self.fn
        l = switch_op.get("m", switch_op.get("c"))
        if not isinstance(l, int):
            return None
        pl = None
        for d in fn.defs().get(l, []):
            if d[0] == "stmt" and "discr" in d[3]["rv"]:
                pl = d[3]["rv"]["discr"]
        hi = max(names)
        return self._variant_of_place(pl, names[hi], depth)

    def _variant_of_place(self, pl, vname, depth):
        fn = self.fn
        if not isinstance(pl, int) or depth <= 0:
            return None
        defs = fn.defs().get(pl, [])
        if not defs or (1 <= pl <= fn.argc()):
            return None
        multi = len(defs) > 1
        if multi:
            bbs = [d[1] for d in defs]
            for a in bbs:
                for b in bbs:
                    if a != b and self.cfg.dominates(a, b):
                        return None
        alts = []
        interesting = False
        for d in defs:
            cond = self.reach(d[1]) if multi else TRUE
            if d[0] == "stmt":
                rv = d[3]["rv"]
                if "agg" in rv and rv["agg"].get("variant"):
                    val = TRUE if rv["agg"]["variant"] == vname else FALSE
                    interesting = True
                elif "use" in rv and isinstance(rv["use"], dict) and ("c" in rv["use"] or "m" in rv["use"]):
                    src = rv["use"].get("c", rv["use"].get("m"))
                    sub = self._variant_of_place(src, vname, depth - 1) if isinstance(src, int) else None
                    if sub is not None:
                        val = sub
                    else:
                        val = self.atom_of_term(self.terms.place(src, 10) if not isinstance(src, int) else self.terms.local(src, 10), " is " + vname)
                    interesting = interesting or multi
                else:
                    val = self.atom_of_term(self.terms.rvalue(rv, 10), " is " + vname)
            else:
                c = d[2]
                val = self.atom_of_term(("call", c.name, tuple(self.terms.operand(a, 10) for a in c.args), c.bb), " is " + vname)
            alts.append(f_and(cond, val))
        if not interesting:
            return None
        return f_or(*alts)

    def reach(self, bb):
        if bb in self._reach:
            return self._reach[bb]
        if bb == 0:
            self._reach[bb] = TRUE
            return TRUE
        self._reach[bb] = FALSE  # cycle guard (back edges are cut anyway)
        back = self.back_edges()
        alts = []
        for p in self.cfg.pred[bb]:
            if (p, bb) in back or p not in self.cfg.reach:
                continue
            alts.append(f_and(self.reach(p), self.edge_cond(p, bb)))
        f = f_or(*alts)
        self._reach[bb] = f
        return f


    def reach_from(self, start, bb, _memo=None):
        """condition to get from the entry of block `start` to block `bb` along forward edges (back edges cut):
        the path condition of one loop iteration when `start` is the loop header."""
        memo = self._rf.setdefault(start, {}) if hasattr(self, "_rf") else None
        if memo is None:
            self._rf = {start: {}}
            memo = self._rf[start]
        if bb in memo:
            return memo[bb]
        if bb == start:
            memo[bb] = TRUE
            return TRUE
        memo[bb] = FALSE
        back = self.back_edges()
        alts = []
        for p in self.cfg.pred[bb]:
            if (p, bb) in back or p not in self.cfg.reach:
                continue
            rp = self.reach_from(start, p)
            if rp == FALSE:
                continue
            alts.append(f_and(rp, self.edge_cond(p, bb)))
        f = f_or(*alts)
        memo[bb] = f
        return f


def truth_check(f, classify, required, max_atoms=14):
    """Check `required(env_named) == evaluate(f)` ... generalised:
    classify(key, term) -> name | None maps formula atoms to rule atom names (None = free).
    required(named_env) -> bool | None: expected truth value of f given the named atoms
    (None = don't care). Returns (ok, counterexample|None, atoms)."""
    ats = atoms_of(f)
    keys = sorted(ats)
    if len(keys) > max_atoms:
        return False, "too many atoms (%d)" % len(keys), keys
    names = {k: classify(k, ats[k]) for k in keys}
    groups = {}
    for k in keys:
        if " is " in k:
            # two-variant enums have one canonical atom (Some / Err / Break ...): they never exclude the variants of the payload's
            # own enum, whose term renders the same once the downcast is stripped
            if k.rsplit(" is ", 1)[1] in ("Some", "None", "Ok", "Err", "Continue", "Break", "True", "False"):
                continue
            groups.setdefault(k.rsplit(" is ", 1)[0], []).append(k)
        elif " == " in k:
            groups.setdefault(k.rsplit(" == ", 1)[0], []).append(k)
    for vals in itertools.product([False, True], repeat=len(keys)):
        env = dict(zip(keys, vals))
        named = {}
        consistent = True
        for g in groups.values():
            if sum(1 for k in g if env[k]) > 1:
                consistent = False
        if not consistent:
            continue
        for k, v in env.items():
            n = names[k]
            if n is None:
                continue
            neg = n.startswith("!")
            n2 = n[1:] if neg else n
            vv = (not v) if neg else v
            if n2 in named and named[n2] != vv:
                consistent = False
                break
            named[n2] = vv
        if not consistent:
            continue
        want = required(named)
        if want is None:
            continue
        got = evaluate(f, env)
        if got != want:
            return False, {"atoms": {k: env[k] for k in keys}, "formula": got, "required": want}, keys
    return True, None, keys


def depends_on(pred, names):
    """the subset of `names` the boolean function pred(dict) really depends on."""
    names = list(names)
    dep = set()
    for vals in itertools.product([False, True], repeat=len(names)):
        env = dict(zip(names, vals))
        base = bool(pred(env))
        for n in names:
            if n in dep:
                continue
            e2 = dict(env)
            e2[n] = not e2[n]
            if bool(pred(e2)) != base:
                dep.add(n)
    return dep


def missing_atoms(f, classify, pred, names):
    """names the required function depends on but that no atom of the formula is classified as: a test that was dropped
    altogether (the truth table over the remaining atoms can still look right when absent atoms default to false)."""
    ats = atoms_of(f)
    have = set()
    for k, t in ats.items():
        c = classify(k, t)
        if c:
            have.add(c.lstrip("!"))
    return sorted(depends_on(pred, names) - have)
