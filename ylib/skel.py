"""HIR call skeletons and sibling comparison (R-SIB)."""
import re

from .facts import strip_generics


def _pat_key(p):
    if not isinstance(p, dict):
        return "?"
    k = p.get("k")
    if k in ("wild",):
        return "_"
    if k == "bind":
        return "bind" + ("@" + _pat_key(p["sub"]) if p.get("sub") else "")
    if k in ("pstruct", "ptuple_struct", "ppath"):
        name = p.get("def") or p.get("ctor_of") or p.get("self_ctor") or p.get("res") or "?"
        subs = p.get("subs") or [f[1] for f in p.get("fields", [])]
        inner = ",".join(_pat_key(s) for s in subs)
        return "%s(%s)" % (short(name), inner) if subs else short(name)
    if k == "plit":
        return "lit:%s" % p.get("v")
    if k == "or":
        return "|".join(_pat_key(a) for a in p["alts"])
    if k == "ptuple":
        return "(%s)" % ",".join(_pat_key(s) for s in p["subs"])
    if k == "prange":
        return "range"
    if k == "pguard":
        return _pat_key(p["pat"]) + " if"
    return k or "?"


def short(name):
    name = strip_generics(name or "?")
    name = name.replace("std::prelude::v1::", "")
    return name


def skel(n):
    """skeleton of a HIR JSON node: nested tuples."""
    if n is None:
        return ()
    if isinstance(n, list):
        out = []
        for x in n:
            s = skel(x)
            if s:
                out.append(s)
        return tuple(out)
    k = n.get("k")
    if k == "block":
        out = []
        for s in n.get("stmts", []):
            x = skel(s)
            if x:
                out.append(x)
        e = skel(n.get("expr"))
        if e:
            out.append(e)
        if len(out) == 1:
            return out[0]
        return ("seq",) + tuple(out) if out else ()
    if k == "let":
        init = skel(n.get("init"))
        els = skel(n.get("els"))
        if els:
            return ("let-else", init, els)
        return init
    if k in ("call", "mcall"):
        name = n.get("resolved") or n.get("fn") or n.get("ctor")
        args = []
        if k == "mcall":
            args.append(skel(n.get("recv")))
        if name is None and n.get("f") is not None:
            args.append(skel(n.get("f")))
            name = "<indirect>"
        for a in n.get("args", []):
            args.append(skel(a))
        return ("call", short(name)) + tuple(a for a in args if a)
    if k == "if":
        return ("if", skel(n.get("cond")), skel(n.get("then")), skel(n.get("else")))
    if k == "match":
        src = n.get("src")
        if src == "try":
            return ("try", skel(n.get("scrut")))
        if src == "await":
            return ("await", skel(n.get("scrut")))
        arms = tuple((_pat_key(a["pat"]), skel(a.get("guard")), skel(a["body"])) for a in n["arms"])
        return ("match", skel(n.get("scrut")), arms)
    if k == "loop":
        return ("loop", n.get("src"), skel(n.get("body")))
    if k == "closure":
        return ("closure", skel(n.get("body")))
    if k == "letx":
        return ("iflet", _pat_key(n["pat"]), skel(n.get("init")))
    if k == "bin":
        l, r = skel(n.get("l")), skel(n.get("r"))
        return ("bin", n.get("op"), l, r)
    if k == "un":
        x = skel(n.get("x"))
        if n.get("op") == "*":
            return x
        return ("un", n.get("op"), x)
    if k == "assign":
        return ("assign", skel(n.get("l")), skel(n.get("r")))
    if k == "assign_op":
        return ("assign_op", n.get("op"), skel(n.get("l")), skel(n.get("r")))
    if k == "field":
        b = skel(n.get("base"))
        return ("field", n.get("name"), b) if b else ("field", n.get("name"))
    if k == "index":
        return ("index", skel(n.get("base")), skel(n.get("idx")))
    if k == "path":
        if "local" in n:
            return ()
        if n.get("def"):
            return ("path", short(n["def"]))
        return ()
    if k == "lit":
        v = n.get("v")
        if isinstance(v, str):
            return ()
        return ("lit", v)
    if k in ("cast",):
        return skel(n.get("x"))
    if k == "addr":
        return skel(n.get("x"))
    if k in ("ret", "break", "yield", "become"):
        x = skel(n.get("x"))
        return (k, x) if x else (k,)
    if k == "continue":
        return ("continue",)
    if k == "struct":
        fs = tuple((f[0], skel(f[1])) for f in n.get("fields", []))
        return ("struct", short(n.get("def") or n.get("self_ty") or "?"), fs, skel(n.get("base")))
    if k in ("tuple", "array"):
        els = tuple(s for s in (skel(e) for e in n.get("elems", [])) if s)
        return (k,) + els if els else ()
    if k == "repeat":
        return skel(n.get("x"))
    return ()


def rename(s, subs):
    """apply regex substitutions to every string leaf of a skeleton."""
    if isinstance(s, str):
        for a, b in subs:
            s = re.sub(a, b, s)
        return s
    if isinstance(s, tuple):
        return tuple(rename(x, subs) for x in s)
    return s


def diff(a, b, path="", out=None, limit=20):
    """list of (where, a, b) mismatches between two skeletons."""
    if out is None:
        out = []
    if len(out) >= limit:
        return out
    if a == b:
        return out
    if isinstance(a, tuple) and isinstance(b, tuple) and len(a) == len(b) and a and b and (
            not isinstance(a[0], str) or not isinstance(b[0], str) or a[0] == b[0] or
            (len(a) > 1 and a[0] == "call" and b[0] == "call")):
        for i, (x, y) in enumerate(zip(a, b)):
            tag = a[0] if isinstance(a[0], str) else ""
            diff(x, y, "%s/%s[%d]" % (path, tag, i), out, limit)
        return out
    out.append((path, brief(a), brief(b)))
    return out


def brief(s, n=160):
    t = repr(s)
    return t if len(t) <= n else t[:n] + "…"


def calls_in(s, acc=None):
    if acc is None:
        acc = []
    if isinstance(s, tuple):
        if s and s[0] == "call" and len(s) > 1 and isinstance(s[1], str):
            acc.append(s[1])
        for x in s:
            calls_in(x, acc)
    return acc


def linearize(s):
    """hoist call arguments / operands in evaluation order so that `f(g(x))` and `let t = g(x); f(t)`
    have the same shape: straight-line code becomes a flat ('seq', ...) of argument-less calls and
    control nodes."""
    out = []
    _lin(s, out)
    if len(out) == 1:
        return out[0]
    return ("seq",) + tuple(out)


def _lin(s, out):
    if not isinstance(s, tuple) or not s:
        return
    k = s[0]
    if not isinstance(k, str):
        for x in s:
            _lin(x, out)
        return
    if k == "seq":
        for x in s[1:]:
            _lin(x, out)
    elif k == "call":
        for x in s[2:]:
            _lin(x, out)
        out.append(("call", s[1]))
    elif k in ("bin", "assign_op"):
        for x in s[2:]:
            _lin(x, out)
        out.append((k, s[1]))
    elif k == "un":
        _lin(s[2], out)
        out.append((k, s[1]))
    elif k in ("assign", "index", "tuple", "array"):
        for x in s[1:]:
            _lin(x, out)
    elif k == "field":
        for x in s[2:]:
            _lin(x, out)
        out.append(("field", s[1]))
    elif k in ("try", "await"):
        _lin(s[1], out)
        out.append((k,))
    elif k in ("ret", "break", "yield", "become"):
        for x in s[1:]:
            _lin(x, out)
        out.append((k,))
    elif k == "struct":
        for f in s[2]:
            _lin(f[1], out)
        _lin(s[3], out)
        out.append(("struct", s[1], tuple(f[0] for f in s[2])))
    elif k == "if":
        _lin(s[1], out)
        out.append(("if", linearize(s[2]) if len(s) > 2 else (), linearize(s[3]) if len(s) > 3 else ()))
    elif k == "iflet":
        for x in s[2:]:
            _lin(x, out)
        out.append(("iflet", s[1]))
    elif k == "match":
        _lin(s[1], out)
        out.append(("match", tuple((a[0], linearize(a[1]), linearize(a[2])) for a in s[2])))
    elif k == "loop":
        out.append(("loop", s[1], linearize(s[2])))
    elif k == "closure":
        out.append(("closure", linearize(s[1])))
    elif k == "let-else":
        _lin(s[1], out)
        out.append(("let-else", linearize(s[2])))
    else:
        out.append(s)
