#!/usr/bin/env python3
"""check.py <Cxx> [--tier quick|thorough]

Decides the structural clauses of one property over /repo's current working tree.
Facts are (re)extracted by the ylint driver whenever the tree's content hash changes.
Exit 0: all obligations discharged (known findings printed as KNOWN-FINDING lines).
Exit 1: a line `VIOLATION property=<id> replay=<path>` names the violating instances.
"""
import argparse
import fcntl
import hashlib
import importlib
import os
import shutil
import subprocess
import sys
import time

VERIF = os.path.dirname(os.path.abspath(__file__))
sys.path.insert(0, VERIF)

from ylib import facts as F  # noqa: E402
from ylib import report as R  # noqa: E402

REPO = os.environ.get("YLINT_REPO", "/repo")
CACHE = os.path.join(VERIF, ".cache")
DRIVER = os.path.join(VERIF, "ylint", "target", "release", "ylint")

RUSTFLAGS = "-Zmir-opt-level=0 -Zalways-encode-mir -Awarnings"

# roots of the instantiated call graph (decode cone of C10 + integration cone of C01)
MONO_ROOTS = [
    "@decode-impls",
    "yrs::updates::decoder::DecoderV1::new", "yrs::updates::decoder::DecoderV2::new",
    "yrs::any::Any::decode", "yrs::any::Any::from_json",
    "<yrs::sync::protocol::MessageReader<'a, D> as std::iter::Iterator>::next",
    "yrs::alt::merge_updates_v1", "yrs::alt::merge_updates_v2", "yrs::alt::diff_updates_v1", "yrs::alt::diff_updates_v2",
    "yrs::alt::encode_state_vector_from_update_v1", "yrs::alt::encode_state_vector_from_update_v2",
    "yrs::update::Update::merge_updates", "yrs::update::Update::encode_diff", "yrs::update::Update::state_vector",
    "<yrs::id_map::IdMap<A> as yrs::updates::decoder::Decode>::decode",
    "yrs::sync::awareness::Awareness::apply_update",
    "yrs::update::Update::integrate", "yrs::transaction::TransactionMut::apply_delete", "yrs::transaction::TransactionMut::apply_update",
]

# properties whose anchored mechanisms are compiled only with feature `weak` (quotations / links)
NEEDS_WEAK = {"C20"}

CONFIGS = {
    # tag: cargo args
    "default": ["-p", "yrs", "-p", "yffi"],
    "sync": ["-p", "yrs", "--features", "weak,sync"],
    "noweak": ["-p", "yrs"],
}


def tree_hash():
    h = hashlib.sha256()
    roots = ["yrs", "yffi", "Cargo.toml", "Cargo.lock", "tests-ffi/include/libyrs.h"]
    files = []
    for r in roots:
        p = os.path.join(REPO, r)
        if os.path.isfile(p):
            files.append(p)
        elif os.path.isdir(p):
            for dp, dns, fns in os.walk(p):
                dns[:] = [d for d in dns if d not in ("target", ".git")]
                for fn in fns:
                    if fn.endswith((".rs", ".toml", ".h")):
                        files.append(os.path.join(dp, fn))
    for f in sorted(files):
        h.update(os.path.relpath(f, REPO).encode())
        h.update(b"\0")
        with open(f, "rb") as fh:
            h.update(fh.read())
        h.update(b"\0")
    # so are the flags and roots the driver runs with
    h.update(RUSTFLAGS.encode())
    h.update(";".join(MONO_ROOTS).encode())
    # the driver is part of the function from tree to facts
    if os.path.exists(DRIVER):
        with open(DRIVER, "rb") as fh:
            h.update(hashlib.sha256(fh.read()).digest())
    return h.hexdigest()[:24]


def build_driver():
    if os.path.exists(DRIVER):
        return
    subprocess.check_call(
        ["cargo", "+nightly", "build", "--release", "--offline"],
        cwd=os.path.join(VERIF, "ylint"),
        env=dict(os.environ, CARGO_NET_OFFLINE="true"),
    )


def ensure_facts(tags):
    """returns the directory holding <pkg>.<tag>.json for the current tree."""
    os.makedirs(CACHE, exist_ok=True)
    build_driver()
    lock = open(os.path.join(CACHE, "lock"), "w")
    fcntl.flock(lock, fcntl.LOCK_EX)
    try:
        hsh = tree_hash()
        out = os.path.join(CACHE, "facts", hsh)
        os.makedirs(out, exist_ok=True)
        sysroot = subprocess.check_output(["rustc", "+nightly", "--print", "sysroot"]).decode().strip()
        for tag in tags:
            want = ["yrs"] + (["yffi"] if tag == "default" else [])
            if all(os.path.exists(os.path.join(out, "%s.%s.json" % (p, tag))) for p in want):
                continue
            tgt = os.path.join(CACHE, "target")
            os.makedirs(tgt, exist_ok=True)
            # cargo's freshness cache would skip the wrapper: drop the members' fingerprints
            fp = os.path.join(tgt, "debug", ".fingerprint")
            if os.path.isdir(fp):
                for d in os.listdir(fp):
                    if d.startswith(("yrs-", "yffi-")):
                        shutil.rmtree(os.path.join(fp, d), ignore_errors=True)
            env = dict(os.environ)
            env.update({
                "CARGO_NET_OFFLINE": "true",
                "LD_LIBRARY_PATH": sysroot + "/lib",
                "RUSTFLAGS": RUSTFLAGS,
                "RUSTC_WORKSPACE_WRAPPER": DRIVER,
                "CARGO_TARGET_DIR": tgt,
                "YLINT_OUT": out,
                "YLINT_TAG": tag,
                "YLINT_MONO_ROOTS": ";".join(MONO_ROOTS),
            })
            t0 = time.time()
            p = subprocess.run(["cargo", "+nightly", "check", "--offline"] + CONFIGS[tag], cwd=REPO, env=env,
                               stdout=subprocess.PIPE, stderr=subprocess.STDOUT)
            if p.returncode != 0:
                sys.stdout.write(p.stdout.decode(errors="replace")[-6000:])
                raise SystemExit("ylint: cargo check failed for configuration %s (the tree does not build?)" % tag)
            for pk in want:
                fpath = os.path.join(out, "%s.%s.json" % (pk, tag))
                if not os.path.exists(fpath) or os.path.getmtime(fpath) < t0 - 1:
                    raise SystemExit("ylint: fact file %s was not produced by this build (fail closed)" % fpath)
        # keep the cache small: drop fact dirs other than the 8 most recent, never one touched in the last hour
        # (another check process may be about to load it)
        base = os.path.join(CACHE, "facts")
        os.utime(out, None)
        ds = sorted((os.path.getmtime(os.path.join(base, d)), d) for d in os.listdir(base))
        for mt, d in ds[:-8]:
            if d != hsh and time.time() - mt > 3600:
                shutil.rmtree(os.path.join(base, d), ignore_errors=True)
        return out
    finally:
        fcntl.flock(lock, fcntl.LOCK_UN)


class Ctx:
    def __init__(self, facts_dir, tier, tags):
        self.tier = tier
        self.facts_dir = facts_dir
        self.repo = REPO
        self.yrs, self.yffi = F.load(facts_dir, "default")
        self.alt = {}
        for t in tags:
            if t != "default":
                self.alt[t] = F.Facts(os.path.join(facts_dir, "yrs.%s.json" % t), "yrs")
        if self.yrs.n_bodies < 2000:
            raise SystemExit("ylint: only %d function bodies in yrs (expected > 2000): fail closed" % self.yrs.n_bodies)
        if self.yffi is None or self.yffi.n_bodies < 250:
            raise SystemExit("ylint: yffi facts missing or too small: fail closed")


def main():
    ap = argparse.ArgumentParser()
    ap.add_argument("prop")
    ap.add_argument("--tier", default=os.environ.get("VERIF_TIER", "quick"), choices=["quick", "thorough"])
    a = ap.parse_args()
    prop = a.prop.upper()
    tags = ["default"] if a.tier == "quick" else ["default", "sync", "noweak"]
    facts_dir = ensure_facts(tags)
    ctx = Ctx(facts_dir, a.tier, tags)
    rep = R.Report(prop, a.tier)
    extra = {}
    try:
        # anything that goes wrong outside a single rule (a rule module that does not import, the mechanism table) is a
        # failure of the check, reported as such with a VIOLATION line — never a silent pass, never a bare traceback
        mod = importlib.import_module("rules.%s" % prop.lower())
        extra = mod.check(ctx, rep) or {}
        from rules import mechanisms
        mechanisms.run(rep, ctx, prop)
    except Exception as e:  # noqa: BLE001
        import traceback
        rep.obs.append(R.Ob("%s.<check>" % prop, "<check>", "rule-crash", False,
                            "the check crashed outside a rule (fail closed): %r at %s" % (e, traceback.format_exc().strip().splitlines()[-3:][0].strip()[:160]), None, False))
    # thorough: the same rules over the other cfg arms (yrs[weak,sync] and yrs without features)
    alt_summary = {}
    for tag in tags:
        if tag == "default":
            continue
        if tag == "noweak" and prop in NEEDS_WEAK:
            alt_summary[tag] = "skipped: the property's anchors only exist with feature `weak`"
            continue
        import copy
        ctx2 = copy.copy(ctx)
        ctx2.yrs = ctx.alt[tag]
        ctx2.tier = "quick"  # witnesses etc. run once, in the default configuration
        sub = R.Report(prop, a.tier)
        try:
            mod.check(ctx2, sub)
            mechanisms.run(sub, ctx2, prop)
        except Exception as e:  # a rule crashing on another configuration is a failure of the check, not a pass
            sub.obs.append(R.Ob("config", "<%s>" % tag, "rule-crash", False, "rules crashed on configuration %s: %r" % (tag, e), None, False))
        have = {o.key: o for o in rep.obs}
        nviol = 0
        for o in sub.obs:
            if o.inventory:
                continue
            if not o.ok:
                nviol += 1
                prev = have.get(o.key)
                if prev is None or prev.ok:
                    o.detail = "[configuration %s] %s" % (tag, o.detail)
                    rep.obs.append(o)
            rep.analysed_fns |= sub.analysed_fns
        alt_summary[tag] = "%d obligations, %d not discharged" % (len([o for o in sub.obs if not o.inventory]), nviol)
    if alt_summary:
        extra["other_configurations"] = alt_summary
    extra.setdefault("configurations", tags)
    extra.setdefault("yrs_function_bodies", ctx.yrs.n_bodies)
    extra.setdefault("yffi_function_bodies", ctx.yffi.n_bodies)
    rc = R.finish(rep, extra, checker_cmd="python3 check.py %s --tier %s" % (prop, a.tier))
    sys.exit(rc)


if __name__ == "__main__":
    main()
