import sys,glob
sys.path.insert(0,'/verif')
from ylib import facts as F, wire as W
import check
d=check.ensure_facts(['default'])
d=d['default'] if isinstance(d, dict) else d
yrs,yffi=F.load(d)
EXTRA={'yrs::any::Any::encode':'Any','yrs::any::Any::decode':'Any','yrs::block::Item::encode':'Item','yrs::slice::ItemSlice::encode':'ItemSlice',
 'yrs::block::ItemContent::encode':'ItemContent','yrs::block::ItemContent::encode_slice':'ItemContent','yrs::block::ItemContent::decode':'ItemContent',
 'yrs::update::Update::decode_block':'Block','yrs::block::Block::encode_with_offset':'BlockOff','yrs::slice::BlockSlice::encode':'BlockSlice',
 'yrs::types::TypeRef::encode_weak_link':'WeakLink','yrs::types::TypeRef::decode_weak_link':'WeakLink'}
C=W.Codecs(yrs,EXTRA)
for p in sys.argv[1:]:
    fn=yrs.fn(p)
    ex=W.Extractor(C,fn)
    node=ex.run()
    print('==',p, 'prims',ex.nprims, 'problems',ex.problems)
    try:
        for w in sorted(W.show_word(w) for w in W.words(node)): print('   ',w)
    except OverflowError as e: print('   too large')
    for s in W.stars_of(node): print('   star line',s[3],'trip',s[2][0], W.lin_show(s[2][1]) if s[2][0]=='lin' else s[2][1])
if len(sys.argv)==2:
    import pprint
    def short(n,d=0):
        if isinstance(n,tuple):
            if n and n[0]=='p': return 'p:%s%s'%(n[1], '=%s'%(n[3],) if n[3] else '')
            if n and n[0]=='seq': return ['seq']+[short(x,d+1) for x in n[1]]
            if n and n[0]=='alt': return ['alt']+[(l,short(x,d+1)) for l,x in n[1]]
            if n and n[0]=='star': return ['star',short(n[1],d+1)]
            return n
        return n
    pprint.pprint(short(node), width=160)
