#!/bin/sh
# development helper (not registered): every check, both tiers, one summary line each
cd /verif
for t in quick thorough; do
  for i in 01 02 03 04 05 06 07 08 09 10 11 12 13 14 15 16 17 18 19 20; do
    out=$(python3 check.py C$i --tier $t 2>&1); rc=$?
    echo "C$i $t rc=$rc $(echo "$out" | tail -1 | cut -c1-110)"
  done
done
