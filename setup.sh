#!/bin/bash
# Builds the fact extractor and warms the dependency target directory. Offline; nothing is fetched.
set -e
cd "$(dirname "$0")"
export CARGO_NET_OFFLINE=true
(cd ylint && cargo +nightly build --release --offline 2>&1 | tail -3)
python3 -m py_compile check.py ylib/*.py rules/*.py
# warm-up: extract facts for the current tree (also checks that the tree builds)
python3 - <<'PY'
import sys
sys.path.insert(0, '.')
import check
d = check.ensure_facts(['default'])
print('facts in', d)
PY
